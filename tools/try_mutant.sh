#!/bin/sh
# usage: tools/try_mutant.sh <patch.diff> <Cxx> [extra check args]   -- apply a seeded change to /repo, run the check, undo
p=$1; prop=$2; shift 2
cd /repo || exit 2
git diff --quiet || { echo "/repo not clean"; exit 2; }
git apply "$p" 2>/dev/null || patch -p1 --fuzz=3 -s < "$p" || { echo "PATCH DOES NOT APPLY"; git checkout -- .; exit 3; }
cd /verif && ./check $prop "$@" > /tmp/try_mutant.$$.log 2>&1; rc=$?
grep -E "VIOLATION|BROKEN|KNOWN-FINDING|counterexample|\[ok\]" /tmp/try_mutant.$$.log | head -8
echo "exit=$rc"
rm -f /tmp/try_mutant.$$.log
git -C /repo checkout -- . ; find /repo -name '*.orig' -o -name '*.rej' | xargs rm -f
