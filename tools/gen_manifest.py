#!/usr/bin/env python3
"""regenerates /verif/MANIFEST.json from the list of built checks (props/*.py) — run after adding a check"""
import json, os, sys, importlib.util
V = os.path.dirname(os.path.dirname(os.path.abspath(__file__)))
sys.path.insert(0, os.path.join(V, 'engine'))
props = [json.loads(l) for l in open(os.path.join(V, 'properties.jsonl'))]
NA = json.load(open(os.path.join(V, 'tools', 'not_applicable.json'))) if os.path.exists(os.path.join(V, 'tools', 'not_applicable.json')) else {}
CLAIMED = open(os.path.join(V, 'tools', 'claimed.txt')).read().split()     # only checks that were run to completion on the unchanged tree are claimed
checks = []; claimed = []
for p in props:
    f = os.path.join(V, 'props', p['id'] + '.py')
    if not os.path.exists(f) or p['id'] in NA or p['id'] not in CLAIMED: continue
    spec = importlib.util.spec_from_file_location(p['id'], f); mod = importlib.util.module_from_spec(spec); spec.loader.exec_module(mod)
    claimed.append(p['id'])
    checks.append({
        'property_id': p['id'], 'quick_cmd': './check %s quick' % p['id'], 'thorough_cmd': './check %s thorough' % p['id'],
        'evidence_file': 'evidence/%s.json' % p['id'], 'replay_cmd_template': './check %s --replay {path}' % p['id'], 'engine': 'ir2c+cbmc',
        'level_claimed': {'category': getattr(mod, 'LEVEL', 'model_checking'),
                          'text': getattr(mod, 'LEVEL_TEXT', 'bounded symbolic checking of the real code: every query is a SAT/SMT decision over ALL values inside the bounds stated in the evidence file (sizes, unwindings, threads), with unwinding assertions and reachability witnesses; nothing is claimed outside those bounds'),
                          'design_ref': 'DESIGN.md Part A (A.2 row and A.3/A.4 notes for %s; Part B section 4 is the original design)' % p['id']},
        'level_note': 'trusted: clang-14 -O1 lowering, ir2c (validated differentially against the g++ build of the real headers on every run), CBMC 6.11 with cadical/z3, the harness invariants/reference models/stubs listed under assumptions in the evidence',
        'technique': getattr(mod, 'TECHNIQUE', 'CBMC bounded model checking of clang-lowered code (LLVM IR -> C translation)')})
m = {'version': 1, 'setup_cmd': './setup.sh',
     'hooks': {'guard': 'MANAGARM_FRIGG_VERIF', 'enable': 'wrapper translation units are compiled with -DMANAGARM_FRIGG_VERIF (no guarded hook had to be added to /repo: the IR gives access to private state)',
               'baseline_off_cmd': 'cd /repo && meson compile -C _build && meson test -C _build', 'source_commits': [], 'add_only': True},
     'engines': [{'name': 'ir2c+cbmc', 'path': 'engine/', 'serves_properties': claimed,
                  'kind_free_text': 'clang++-14 -S -emit-llvm on wrapper TUs over the real headers -> engine/ir2c.py (LLVM IR -> C) -> cbmc 6.11 (cadical / z3), scheduled by engine/run.py; counterexamples replayed natively against the real C++ (ASan/UBSan)'}],
     'checks': checks,
     'notes': 'All checks: ./check <Cxx> quick|thorough. Known findings: known_findings.txt. Seeded changes used to test the checks: seeded/.',
     'not_applicable': [{'property_id': p['id'], 'reason': NA.get(p['id'], 'check not built yet (work in progress; not a judgement that the technique cannot apply)')} for p in props if p['id'] not in claimed]}
json.dump(m, open(os.path.join(V, 'MANIFEST.json'), 'w'), indent=1)
print('claimed:', ' '.join(claimed))
