#!/usr/bin/env python3
"""Confirms every seeded change delivered by the mutation sub-agents (in /tmp/mut/Cxx.out) in a scratch worktree and files the
confirmed ones under /verif/seeded/<id>/ (patch.diff, demo.cpp, meta.json).  Confirmation = with the change applied the library's
own test suite still builds and passes, and the demonstration exits 0 without the change and non-zero with it."""
import os, sys, json, subprocess, shutil, re
V = '/verif'; MUT = '/tmp/mut'; WT = '/tmp/seedchk/wt'; BASE = os.environ.get('VP_SEED_BASE', 'c99aa9f')   # m3 changes were written against /repo HEAD ee98e14: VP_SEED_BASE=ee98e14 VP_SEED_MS=m3
def sh(cmd, **kw): return subprocess.run(cmd, shell=True, stdout=subprocess.PIPE, stderr=subprocess.STDOUT, text=True, **kw)
os.makedirs('/tmp/seedchk', exist_ok=True)
if not os.path.exists(WT): print(sh('git -C /repo worktree add --detach %s %s' % (WT, BASE)).stdout)
FLAGSETS = [('plain', '-O1 -pthread'), ('asan', '-O1 -g -fsanitize=address,undefined -fno-sanitize-recover=undefined -pthread'), ('tsan', '-O1 -g -fsanitize=thread -pthread')]
def build_run(demo, out, flags, args=''):
    r = sh('g++ -std=c++20 -w %s -I %s/include %s -o %s' % (flags, WT, demo, out))
    if r.returncode: return None, r.stdout[-800:]
    try:
        r = sh('%s %s' % (out, args), timeout=300)
        return r.returncode, r.stdout[-600:]
    except subprocess.TimeoutExpired:
        return 'timeout', ''
only = sys.argv[1:] 
for prop in ['C%02d' % i for i in range(1, 21)]:
    for m in os.environ.get('VP_SEED_MS', 'm1,m2').split(','):
        sid = '%s_%s' % (prop, m)
        if only and sid not in only and prop not in only: continue
        patch = '%s/%s.out/%s.diff' % (MUT, prop, m); demo = '%s/%s.out/%s_demo.cpp' % (MUT, prop, m)
        if not (os.path.exists(patch) and os.path.exists(demo)): print(sid, 'missing deliverable'); continue
        sh('git -C %s checkout -- . && git -C %s clean -fdq' % (WT, WT))
        meta = {'id': sid, 'breaks_property': prop, 'base_commit': BASE, 'confirmed': False}
        # demo on the clean tree, pick the first flag set for which it discriminates
        chosen = None
        for name, flags in FLAGSETS:
            rc0, out0 = build_run(demo, '/tmp/seedchk/demo_clean', flags)
            if rc0 != 0: continue
            r = sh('git -C %s apply %s' % (WT, patch))
            if r.returncode: meta['error'] = 'patch does not apply to base: ' + r.stdout[-300:]; break
            rc1, out1 = build_run(demo, '/tmp/seedchk/demo_mut', flags)
            sh('git -C %s checkout -- .' % WT)
            if rc1 not in (0, None):
                chosen = (name, flags, rc0, rc1, out1); break
        if chosen:
            name, flags, rc0, rc1, out1 = chosen
            sh('git -C %s apply %s' % (WT, patch))
            r = sh('cd %s && g++ -std=c++20 -w -I include tests/tests.cpp -lgtest_main -lgtest -pthread -o /tmp/seedchk/tests_bin && /tmp/seedchk/tests_bin' % WT)
            tests_ok = r.returncode == 0 and 'PASSED' in r.stdout
            sh('git -C %s checkout -- .' % WT)
            meta.update({'confirmed': bool(tests_ok), 'demo_build': 'g++ -std=c++20 %s -I <worktree>/include demo.cpp' % flags, 'demo_exit_without_change': rc0, 'demo_exit_with_change': rc1,
                         'demo_output_with_change_tail': out1[-400:], 'existing_tests_pass_with_change': bool(tests_ok), 'tests_tail': r.stdout[-200:]})
        notes = '%s/%s.out/notes.md' % (MUT, prop)
        if not os.path.exists(notes): notes = '%s/%s.out/%s_notes.md' % (MUT, prop, m)
        if os.path.exists(notes):
            txt = open(notes, errors='replace').read(); meta['agent_notes_excerpt'] = txt[:1800]
        # does it still apply to the current /repo HEAD (after the fix: commits)?
        r = sh('cd /repo && git apply --check %s' % patch)
        meta['applies_to_repo_head'] = 'clean' if r.returncode == 0 else 'needs patch --fuzz or manual adaptation'
        d = os.path.join(V, 'seeded', sid)
        if meta['confirmed']:
            os.makedirs(d, exist_ok=True)
            shutil.copy(patch, os.path.join(d, 'patch.diff')); shutil.copy(demo, os.path.join(d, 'demo.cpp'))
            old = {}
            if os.path.exists(os.path.join(d, 'meta.json')): old = json.load(open(os.path.join(d, 'meta.json')))
            old.update(meta); json.dump(old, open(os.path.join(d, 'meta.json'), 'w'), indent=1)
        print(sid, 'CONFIRMED' if meta['confirmed'] else 'NOT CONFIRMED', meta.get('demo_build', ''), meta.get('error', ''), flush=True)
sh('git -C /repo worktree remove --force %s' % WT)
