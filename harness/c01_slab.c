/* C01-C05 — slab_pool over flat memory (ir2c --flat, word-granular regions), explored path by path (cbmc --paths lifo).
 * Bounded history of K solver-chosen operations from the empty pool with symbolic request sizes; after every operation
 * every clause of C01 (valid, big enough, aligned, disjoint, outside bookkeeping, stable size), C02 (contents, realloc/free
 * semantics, footprint), C03 (map/unmap pairing, page accounting, poisoning), C04 (map failure) and the lock-discipline
 * clause of C05 is asserted.  The same source runs natively against the REAL C++ (-DVP_REAL, real pointers) for replay and
 * for the differential validation of the flat translation.
 *   -DK=<ops> -DPOLICY=1|2|3 (aligned / unaligned / aligned+poison)  [-DFAULTS=n map failures]  [-DOPSEQ={..} pins the op kinds] */
#define VP_PANIC_VIOLATION
#define VP_FLAT
#define IR2C_REGIONS_IMPL
#include "vp.h"
#include UNIT_H
#ifndef K
#define K 2
#endif
#ifndef SIZES
#define SIZES {0, 8, 9, 16, 17, 32, 33, 64, 65, 128, 129, 200}
#define NSZ 12
#endif
#ifndef OPSEQ
#define OPSEQ {0, 0, 0, 0}
#endif
#ifndef HSEQ
#define HSEQ {0, 0, 0, 0}
#endif
#ifndef SEL0
#define SEL0 0
#endif
#ifndef PRE_POINTS
#define PRE_POINTS 8
#endif
#ifndef PRE_H
#define PRE_H 0
#endif
#ifndef NMAX
#define NMAX 200          /* request sizes 0..NMAX: all four classes (8,16,32,64), class boundaries, the small/large threshold (64|65), large frames of 2..4 pages */
#endif
#ifndef PREFILL
#define PREFILL 0        /* blocks of PRESIZE bytes allocated before the K operations (handles K..K+PREFILL-1): reaches "every slab of the class is exactly full" */
#endif
#ifndef PRESIZE
#define PRESIZE 64
#endif
#define KH (K + PREFILL + 1)        /* + one handle for the preempting operation (PREEMPT scenarios) */
#define KP (K + PREFILL)
typedef uint64_t addr_t;
#if POLICY == 4
#define PAGE 512u        /* page == superblock == slab: a large block starts exactly on the next superblock boundary */
#else
#define PAGE 64u
#endif
#define SB 512u
#define HDR_SLAB 104u      /* sizeof(slab_frame) */
#define HDR_FRAME 40u      /* sizeof(frame)      */
#define OFF_TYPE 0
#define OFF_SBBASE 8
#define OFF_SBRES 16
#define OFF_ADDR 24
#define OFF_LEN 32
#define OFF_INDEX 40
#define OFF_NRES 44
#define OFF_AVAIL 48
#define POOL_OFF_TREEMX 8
#define POOL_OFF_USED 16
#define POOL_OFF_BKTS 24
#define BKT_SIZE 32
#define MAXMAPS 3
#define ARENA 0x600ULL      /* bytes per harness arena (3 superblocks): an unaligned slab map asks for slab + superblock = 1024 bytes */

/* ------------------------------------------------------------------ memory */
#ifdef VP_REAL
#include <stdlib.h>
#define RD4(a) (*(volatile uint32_t *)(uintptr_t)(a))
#define RD8(a) (*(volatile uint64_t *)(uintptr_t)(a))
#define WR4(a, v) (*(volatile uint32_t *)(uintptr_t)(a) = (v))
static uint64_t pool_mem[64], pol_mem[2];
#define POOL ((addr_t)(uintptr_t)pool_mem)
#define POL ((addr_t)(uintptr_t)pol_mem)
static addr_t arena_base[MAXMAPS + 2];
static addr_t arena(int i) { if(!arena_base[i]) arena_base[i] = (addr_t)(uintptr_t)aligned_alloc(SB, ARENA); return arena_base[i]; }
#else
const uint64_t REG_BASE[NREG] = {0x100, 0x400, 0x800, 0x900,
	0x1000, 0x1100, 0x1200, 0x1300, 0x1400, 0x1500, 0x1600, 0x1700, 0x1800, 0x1900, 0x1A00, 0x1B00, 0x1C00, 0x1D00, 0x1E00, 0x1F00, 0x2000, 0x2100
#if NREG > 22
	, 0x2200, 0x2300
#endif
};
#define RD4(a) ir2c_ldw(a)
#define RD8(a) ((uint64_t)ir2c_ldw(a) | (uint64_t)ir2c_ldw((a) + 4) << 32)
#define WR4(a, v) ir2c_stw((a), (v))
#define POOL 0x800ULL
#define POL 0x900ULL
static addr_t arena(int i) { return 0x1000ULL + (addr_t)i * ARENA; }     /* superblock aligned */
#endif

/* ------------------------------------------------------------------ policy stubs */
struct mapping { addr_t base, len; int live; } maps[MAXMAPS + 1];
int nmaps, map_calls, fail_at[2] = {-1, -1}, locks_held, map_failed_now;
addr_t held_mutex;      /* address of the pool mutex currently held (0 = none) */
/* POLICY 3: the poison state is a log of the hook calls; a byte's state is decided by the newest entry covering it (mapped
 * memory starts poisoned).  No per-byte loops: lengths are symbolic and a data-dependent loop would split the path per value. */
#define MAXSH 160
struct { addr_t p; uint64_t n; int v; } shlog[MAXSH]; int nsh;
static int is_poisoned(addr_t x) { for(int i = nsh - 1; i >= 0; i--) if(x >= shlog[i].p && x - shlog[i].p < shlog[i].n) return shlog[i].v; return 1; }   /* newest covering call decides; mapped memory starts poisoned */
static int arena_of(addr_t a) { for(int i = 0; i < MAXMAPS; i++) if(i < nmaps && a >= arena(i) && a < arena(i) + ARENA) return i; return -1; }
static void policy_entry(const char *unused) { (void)unused; VP_ASSERT(locks_held == 0, "the policy was called while the calling thread holds a pool lock"); }
uint64_t vp_map(uint64_t len, uint64_t align) {
	policy_entry(0);
	int call = map_calls++;
	if(call == fail_at[0] || call == fail_at[1]) { map_failed_now = 1; return 0; }
	VP_ASSERT(nmaps < MAXMAPS, "harness: more mappings than provisioned");
	addr_t base = arena(nmaps);
#if POLICY == 2
	VP_ASSERT(align == 0, "unaligned policy called with an alignment");
	base += PAGE;                              /* page aligned but NOT superblock aligned: the rounding path is exercised */
#else
	VP_ASSERT(align == SB, "aligned map() must be asked for superblock alignment");
#endif
	VP_ASSERT(len > 0 && (len % PAGE) == 0 && base + len <= arena(nmaps) + ARENA, "map() length is not a positive page multiple that fits the harness arena");
	maps[nmaps].base = base; maps[nmaps].len = len; maps[nmaps].live = 1;
	nmaps++;
	return base;
}
int nblk_live_in(addr_t base, addr_t len);
void vp_unmap(uint64_t base, uint64_t len) {
	policy_entry(0);
	int hit = -1;
	for(int i = 0; i < MAXMAPS; i++) if(i < nmaps && maps[i].live && maps[i].base == base) hit = i;
	VP_ASSERT(hit >= 0, "unmap() of a base address that map() did not return or that was already unmapped");
	if(hit < 0) return;
	VP_ASSERT(maps[hit].len == len, "unmap() with a length different from the mapped length");
	VP_ASSERT(nblk_live_in(base, len) == 0, "unmap() of a region that still contains a live block");
	maps[hit].live = 0;
}
#if POLICY == 3
static void shade(uint64_t p, uint64_t n, int v) {
	policy_entry(0);
	VP_ASSERT(arena_of(p) >= 0, "poison hook called on memory outside the mapped regions");
	VP_ASSERT(nsh < MAXSH, "harness: poison log full"); if(nsh >= MAXSH) return;
	shlog[nsh].p = p; shlog[nsh].n = n; shlog[nsh].v = v; nsh++;
}
void vp_poison(uint64_t p, uint64_t n) { shade(p, n, 1); }
void vp_unpoison(uint64_t p, uint64_t n) { shade(p, n, 0); }
void vp_unpoison_expand(uint64_t p, uint64_t n) { shade(p, n, 0); }
void ir2c_access_hook(uint64_t a, uint64_t n, int write) {     /* every load/store of the translated pool code */
	(void)write; if(arena_of(a) < 0) return;
	VP_ASSERT(!is_poisoned(a) && !is_poisoned(a + n - 1), "the pool itself read or wrote a poisoned byte");      /* accesses are at most 8 bytes and poison boundaries are not inside them unless one end is poisoned */
}
#else
void vp_poison(uint64_t p, uint64_t n) { (void)p; (void)n; } void vp_unpoison(uint64_t p, uint64_t n) { (void)p; (void)n; } void vp_unpoison_expand(uint64_t p, uint64_t n) { (void)p; (void)n; }
#ifdef LOCKSET
/* Lock-set discipline (Eraser-style sufficient condition for "no data race on pool state", checked on sequential scenarios: the
 * discipline is a property of each code path, not of an interleaving).  Every load/store of the translated pool code that touches
 *   - the mutable part of a PUBLISHED slab frame header (num_reserved, available, partial_hook: offsets 44..103), or
 *   - a bucket's head_slb / partial_tree (pool + 24 + 32*i + 8 .. +31)            must hold that bucket's mutex;
 *   - the used-page counter (pool + 16)                                          must hold the tree mutex.
 * A slab is published once the call that constructed it has returned (until then it is private to that call). */
int slab_published[MAXMAPS + 1]; int in_api;
void ir2c_access_hook(uint64_t a, uint64_t n, int write) {
	(void)write; (void)n; if(!in_api) return;
	if(a >= POOL + POOL_OFF_USED && a < POOL + POOL_OFF_USED + 8) VP_ASSERT(held_mutex == POOL + POOL_OFF_TREEMX, "lock discipline: used-page counter accessed without the tree mutex (data race under concurrent calls)");
	for(int b = 0; b < 4; b++) { addr_t bk = POOL + POOL_OFF_BKTS + BKT_SIZE * b;
		if(a >= bk + 8 && a < bk + BKT_SIZE) VP_ASSERT(held_mutex == bk, "lock discipline: bucket state (head slab / partial tree) accessed without that bucket's mutex (data race under concurrent calls)"); }
	for(int m = 0; m < MAXMAPS; m++) if(m < nmaps && maps[m].live && slab_published[m]) {
		addr_t fr = (maps[m].base + SB - 1) & ~(addr_t)(SB - 1);
		if(a >= fr + OFF_NRES && a < fr + HDR_SLAB && RD4(fr + OFF_TYPE) == 1) {
			addr_t bk = POOL + POOL_OFF_BKTS + BKT_SIZE * RD4(fr + OFF_INDEX);
			VP_ASSERT(held_mutex == bk, "lock discipline: mutable slab header (free-list head / reserved count / tree hook) of a published slab accessed without its bucket mutex (data race under concurrent calls)");
		}
	}
}
#else
void ir2c_access_hook(uint64_t a, uint64_t n, int write) { (void)a; (void)n; (void)write; }
#endif
#endif
#ifdef PREEMPT
static void maybe_preempt_pool(void);
#define POOL_PREEMPT() maybe_preempt_pool()
#else
#define POOL_PREEMPT() ((void)0)
#endif
void vp_mutex_lock(uint64_t m) { POOL_PREEMPT(); VP_ASSERT(RD4(m) == 0, "lock() of a mutex that is already held (self-deadlock)"); VP_ASSERT(locks_held == 0, "a second pool lock taken while one is held (lock-order risk)"); WR4(m, 1); locks_held++; held_mutex = m; }
void vp_mutex_unlock(uint64_t m) { VP_ASSERT(RD4(m) == 1, "unlock() of a mutex that is not held"); WR4(m, 0); locks_held--; held_mutex = 0; POOL_PREEMPT(); }

/* ------------------------------------------------------------------ reference bookkeeping */
addr_t hp[KH]; uint64_t hreq[KH], hsize[KH]; int hlive[KH], hcls[KH]; uint32_t hpatn;
int peak_live[5], cur_live[5], slab_maps[5];          /* per class 0..3 (+4 = large) */
uint64_t pages_expected; int preempted;       /* a preempting operation ran inside another call: the single-threaded footprint bound does not apply */
static int cls_of_size(uint64_t sz) { return sz == 8 ? 0 : sz == 16 ? 1 : sz == 32 ? 2 : sz == 64 ? 3 : 4; }     /* from the reported size: concrete on every path */
static uint64_t cls_size(int c) { return 8u << c; }
static uint32_t pat(int i, uint64_t w) { return 0xA5000000u ^ ((uint32_t)i << 16) ^ (uint32_t)(w * 2654435761u >> 8); }
int releasing = -1;      /* handle currently being freed / moved by the running call: its region may legitimately be unmapped */
int nblk_live_in(addr_t base, addr_t len) { int n = 0; for(int i = 0; i < KH; i++) if(hlive[i] && i != releasing && hp[i] >= base && hp[i] < base + len) n++; return n; }
static void fill(int i) { for(uint64_t w = 0; w < hsize[i] / 4; w++) WR4(hp[i] + 4 * w, pat(i, w)); }
static void check_content(int i, uint64_t bytes, addr_t at, const char *unused) { (void)unused; for(uint64_t w = 0; w < bytes / 4; w++) VP_ASSERT(RD4(at + 4 * w) == pat(i, w), "contents of a live block changed (bytes owned by the user were modified by the pool)"); }
static int spp[4]; static void init_spp(void) { for(int c = 0; c < 4; c++) { uint64_t it = cls_size(c), ov = 0; while(ov < HDR_SLAB) ov += it; spp[c] = (int)((SB - ov) / it); } }   /* header overhead rounded up to a multiple of the item size */
static int slots_per_slab(int c) { return spp[c]; }

static void check_block(int i) {
	addr_t p = hp[i]; uint64_t req = hreq[i] + (hreq[i] == 0);      /* a request of 0 bytes is a request of 1 */
	uint64_t sz = pool_get_size(POOL, p);
	VP_ASSERT((sz >= req) & (sz >= 1), "reported size is smaller than the requested size");
	VP_ASSERT(sz == hsize[i], "reported size of a live block changed");
	/* required alignment = request rounded up to a power of two, at least 8, capped at the page size.  Branch-free form: the largest
	 * power of two al in {8,16,32,64} with al/2 < req (or 8) */
	uint64_t al = 8 + 8 * (req > 8) + 16 * (req > 16) + 32 * (req > 32);
	if(PAGE > 64) al += 64 * (req > 64) + 128 * (req > 128);     /* cap at the page size */
	VP_ASSERT((p & (al - 1)) == 0, "block is not aligned to the request rounded up to a power of two (min 8, max page size)");
	int m = -1; for(int j = 0; j < MAXMAPS; j++) if(j < nmaps && maps[j].live && p >= maps[j].base && p + sz <= maps[j].base + maps[j].len) m = j;
	VP_ASSERT(m >= 0, "block does not lie wholly inside memory obtained from the policy and not given back");
	addr_t fr = (p - 1) & ~(addr_t)(SB - 1);
	uint32_t ty = RD4(fr + OFF_TYPE);
	VP_ASSERT(ty == 1 || ty == 2, "frame header of a live block is corrupt");
	VP_ASSERT(p >= fr + (ty == 1 ? HDR_SLAB : HDR_FRAME), "block overlaps the allocator's own frame header");
	for(int j = 0; j < KH; j++) if(j < i && hlive[j]) VP_ASSERT(p + sz <= hp[j] || hp[j] + hsize[j] <= p, "two live blocks overlap");
	check_content(i, sz, p, 0);
#if POLICY == 3
	for(uint64_t b = 0; b < sz; b++) VP_ASSERT(!(b < hreq[i]) | !is_poisoned(p + b), "a requested byte of a live block is poisoned");
#endif
}
/* free-list walk straight over the memory of every slab: slots in range, item aligned, no slot twice, none equal to a live block, count adds up */
static void check_slabs(void) {
	for(int m = 0; m < MAXMAPS; m++) if(m < nmaps && maps[m].live) {
		addr_t fr = (maps[m].base + SB - 1) & ~(addr_t)(SB - 1);
		if(RD4(fr + OFF_TYPE) != 1) continue;
		int c = (int)RD4(fr + OFF_INDEX); VP_ASSERT(c >= 0 && c < 4, "slab header: class index corrupt"); if(c < 0 || c >= 4) continue;
		uint64_t it = cls_size(c); addr_t a0 = RD8(fr + OFF_ADDR); uint64_t len = RD8(fr + OFF_LEN);
		VP_ASSERT(a0 >= fr + HDR_SLAB && ((a0 - fr) % it) == 0 && a0 + len <= fr + SB, "slab carving: object area overlaps the header or leaves the slab");
		int nfree = 0; addr_t o = RD8(fr + OFF_AVAIL); uint8_t mark[64]; for(int t = 0; t < 64; t++) mark[t] = 0;
		for(int s = 0; s < 64; s++) { if(!o) break;
			VP_ASSERT(s < slots_per_slab(c), "free list longer than the number of slots (cycle or duplicate)"); if(s >= slots_per_slab(c)) break;
			VP_ASSERT(o >= a0 && o + it <= a0 + len && ((o - a0) % it) == 0, "free-list entry outside the slab's object area or misaligned");
			{ uint64_t ix = (o - a0) / it; if(ix < 64) { VP_ASSERT(!mark[ix], "slot appears twice in the free list"); mark[ix] = 1; } }
			for(int j = 0; j < KH; j++) if(hlive[j]) VP_ASSERT(hp[j] != o, "a live block is also on the free list");
#if POLICY == 3
			for(uint64_t b = 8; b < it; b++) VP_ASSERT(is_poisoned(o + b), "a free small block is not poisoned beyond the allocator's link word");
#endif
			nfree++; o = RD8(o); }
		int nl = nblk_live_in(a0, len);
		VP_ASSERT(nfree + nl == (int)(len / it), "free slots + live blocks of a slab do not add up to its capacity (slot lost or invented)");
	}
}
static void check_all(void) {
	VP_ASSERT(locks_held == 0 && RD4(POOL + POOL_OFF_TREEMX) == 0, "a pool mutex is still held after the call returned");
	for(int b = 0; b < 4; b++) VP_ASSERT(RD4(POOL + POOL_OFF_BKTS + BKT_SIZE * b) == 0, "a bucket mutex is still held after the call returned");
	for(int i = 0; i < KH; i++) if(hlive[i]) check_block(i);
	check_slabs();
	{ uint64_t pages = 0; int nslab[4] = {0, 0, 0, 0};
	  for(int m = 0; m < MAXMAPS; m++) if(m < nmaps && maps[m].live) { addr_t fr = (maps[m].base + SB - 1) & ~(addr_t)(SB - 1); uint32_t ty = RD4(fr + OFF_TYPE);
	    if(ty == 1 || ty == 2) pages += (RD8(fr + OFF_LEN) + PAGE) / PAGE; if(ty == 1 && RD4(fr + OFF_INDEX) < 4) nslab[RD4(fr + OFF_INDEX)]++; }
	  VP_ASSERT(pool_used_pages(POOL) == pages, "used-page counter drifted (it is not the sum over the regions currently taken)");
	  for(int c = 0; c < 4; c++) slab_maps[c] = nslab[c]; }
	int large_live = 0; for(int i = 0; i < KH; i++) if(hlive[i] && hcls[i] == 4) large_live++;
	int large_maps = 0; for(int m = 0; m < MAXMAPS; m++) if(m < nmaps && maps[m].live) { addr_t fr = (maps[m].base + SB - 1) & ~(addr_t)(SB - 1); if(RD4(fr + OFF_TYPE) == 2) large_maps++; }
	VP_ASSERT(large_maps == large_live, "a large block's reservation stayed mapped after the block was freed (or was unmapped while live)");
	if(!preempted) for(int c = 0; c < 4; c++) { int sp = slots_per_slab(c); VP_ASSERT(slab_maps[c] <= (peak_live[c] + sp - 1) / sp, "more slabs mapped for a class than ceil(peak live blocks / blocks per slab): freed memory was not reused"); }
}
static void note_alloc(int i, addr_t p, uint64_t n, int maps_before) {
	hp[i] = p; hreq[i] = n; hlive[i] = 1; hsize[i] = pool_get_size(POOL, p); hcls[i] = cls_of_size(hsize[i]);
	cur_live[hcls[i]]++; if(cur_live[hcls[i]] > peak_live[hcls[i]]) peak_live[hcls[i]] = cur_live[hcls[i]];
	(void)maps_before;
}
static void note_free(int i) { hlive[i] = 0; cur_live[hcls[i]]--; }

static const uint64_t SZ[NSZ] = SIZES;
static const int OS[] = OPSEQ;
static const int HS[] = HSEQ;
/* one pool operation with the reference bookkeeping; s = handle that receives a new block */
#ifdef PREEMPT
int in_outer, lockevt, pre_done, pre_at = -1, pre_sel;
#endif
static void do_op(int s, int op, int h, uint64_t n) {
	int save_failed = map_failed_now, save_rel = releasing;
		int maps_before = nmaps; map_failed_now = 0;
		if(op == 0) {                                              /* allocate(n) into handle s */
			addr_t p = pool_alloc(POOL, n);
			if(map_failed_now) VP_ASSERT(p == 0, "allocate returned a block although map() failed");
			else { VP_ASSERT(p != 0, "allocate returned null although map() succeeded"); if(p) { note_alloc(s, p, n, maps_before); fill(s); } }
		} else if(op == 1 || op == 2) {                             /* free(h) / deallocate(h, requested size); a dead handle stands for the null pointer (no-op) */
			addr_t p = hlive[h] ? hp[h] : 0;
			releasing = h;
			if(op == 1) pool_free(POOL, p); else pool_dealloc(POOL, p, hlive[h] ? hreq[h] : 0);
			releasing = -1;
			if(hlive[h]) note_free(h);
		} else {                                                     /* realloc(h or null, n) */
			addr_t p = hlive[h] ? hp[h] : 0;
			releasing = h;
			addr_t q = pool_realloc(POOL, p, n);
			releasing = -1;
			if(!p) {                                                 /* (null, n) == allocate(n) */
				if(map_failed_now) VP_ASSERT(q == 0, "realloc(null, n) returned a block although map() failed");
				else { VP_ASSERT(q != 0, "realloc(null, n) must behave like allocate(n)"); if(q) { note_alloc(s, q, n, maps_before); fill(s); } }
			} else if(n == 0) { VP_ASSERT(q == 0, "realloc(p, 0) must free and return null"); note_free(h); }
			else if(map_failed_now) { VP_ASSERT(q == 0, "realloc returned a block although the map() it needed failed"); /* the source block must stay valid: check_all */ }
			else {
				VP_ASSERT(q != 0, "realloc returned null although no map() failed");
				int fits = n <= hsize[h];
				VP_ASSERT((q == p) == fits, "realloc must keep the block in place exactly when the new size fits the current class / frame");
				if(q && q != p) {
					uint64_t old = hsize[h];
					check_content(h, old, q, 0);                        /* first min(old, new) bytes equal the old contents */
					note_free(h);
					note_alloc(h, q, n, maps_before); fill(h);
				} else if(q) hreq[h] = n;
			}
		}
	map_failed_now = save_failed; releasing = save_rel;
}
#ifdef PREEMPT
/* PREEMPT scenarios: during the LAST operation of the scenario, at the lock/unlock event number pre_at (a point at which the calling
 * thread holds no pool mutex), a whole operation PRE_OP of "another thread" runs to completion: allocate(SZ[pre_sel]) into handle KP,
 * or free / realloc of handle PRE_H.  This covers two calls of which one is atomic with respect to the other, interleaved at
 * lock-operation granularity: both finding a class empty, freeing into the slab the other allocates from, freeing a block the other allocated. */
static void maybe_preempt_pool(void) {
	if(!in_outer || pre_done) return;
	if(lockevt++ != pre_at) return;
	pre_done = 1; in_outer = 0; preempted = 1;
	do_op(KP, PRE_OP, PRE_H, SZ[pre_sel]);
	in_outer = 1;
}
#endif
/* one scenario: K operations with pinned kinds OPSEQ, sizes SZ[sel[s]], acting on handle HSEQ[s] (free/dealloc/realloc), map failing at call fail0.
 * Under CBMC the scenario parameters are CONCRETE: harness() enumerates them in concrete loops, so symbolic execution interprets the
 * real code on one path and every assertion is decided by constant folding / a trivial solver call.  (A symbolic size or a symbolic
 * choice explored path-wise did not terminate: values that are concrete on each path were no longer folded and every loop split per
 * iteration; measured > 2000 paths for a single allocation.)  Natively (replay, validation) the parameters are inputs. */
static void reset_all(void) {
#ifndef VP_REAL
	for(int w = 0; w < RWORDS; w++) { R0[w] = 0; R1[w] = 0; R2[w] = 0; R3[w] = 0; R4[w] = 0; R5[w] = 0; R6[w] = 0; R7[w] = 0; R8[w] = 0; R9[w] = 0; R10[w] = 0; R11[w] = 0; R12[w] = 0; R13[w] = 0; R14[w] = 0; R15[w] = 0; R16[w] = 0; R17[w] = 0; R18[w] = 0; R19[w] = 0; R20[w] = 0; R21[w] = 0; }
	ir2c_init_globals();
#else
	memset(pool_mem, 0, sizeof pool_mem); for(int i = 0; i < MAXMAPS + 2; i++) if(arena_base[i]) memset((void *)(uintptr_t)arena_base[i], 0, ARENA);
#endif
	for(int i = 0; i < MAXMAPS + 1; i++) { maps[i].base = 0; maps[i].len = 0; maps[i].live = 0; }
#ifdef LOCKSET
	in_api = 0; for(int m = 0; m <= MAXMAPS; m++) slab_published[m] = 0;
#endif
	held_mutex = 0; preempted = 0;
	nmaps = 0; map_calls = 0; locks_held = 0; map_failed_now = 0; nsh = 0; pages_expected = 0;
	for(int i = 0; i < KH; i++) { hp[i] = 0; hreq[i] = 0; hsize[i] = 0; hlive[i] = 0; hcls[i] = 0; }
	for(int c = 0; c < 5; c++) { peak_live[c] = 0; cur_live[c] = 0; slab_maps[c] = 0; }
}
int scenarios_run;
static void scenario(const int *sel, int fail0) {
	reset_all();
	init_spp();
	pool_init(POOL, POL);
	fail_at[0] = -1; fail_at[1] = -1;
	for(int j = 0; j < PREFILL; j++) { int mb = nmaps; addr_t p = pool_alloc(POOL, PRESIZE); VP_ASSERT(p != 0, "prefill allocation failed"); if(p) { note_alloc(K + j, p, PRESIZE, mb); fill(K + j); } }
	if(PREFILL) check_all();
	fail_at[0] = fail0 < 0 ? -1 : fail0 + map_calls;      /* failure positions count from the first operation of the scenario proper */
	for(int s = 0; s < K; s++) {
		int op = OS[s], h = HS[s]; uint64_t n = SZ[sel[s]];
#ifdef LOCKSET
		in_api = 1;
#endif
#ifdef PREEMPT
		if(s == K - 1) { in_outer = 1; lockevt = 0; pre_done = 0; }
#endif
		do_op(s, op, h, n);
#ifdef PREEMPT
		in_outer = 0;
#endif
#ifdef LOCKSET
		in_api = 0; for(int m = 0; m < MAXMAPS; m++) slab_published[m] = m < nmaps;
#endif
		check_all();
		VP_OBSERVE(nmaps * 1000 + (int)pool_used_pages(POOL) * 10 + cur_live[0] + cur_live[4]);
	}
	scenarios_run++;
}
void harness(void) {
	int sel[K + 1], fail0 = -1;
#ifdef VP_NATIVE
	for(int s = 0; s < K; s++) { VP_INPUT(sel[s]); if(getenv("VP_RANDOM")) sel[s] = (unsigned)sel[s] % NSZ; VP_ASSUME(sel[s] >= 0 && sel[s] < NSZ); }
	VP_INPUT(fail0); if(getenv("VP_RANDOM")) fail0 = (unsigned)fail0 % (K + 3) - 1; VP_ASSUME(fail0 >= -1 && fail0 <= K);
#ifdef PREEMPT
	VP_INPUT(pre_at); VP_INPUT(pre_sel); if(getenv("VP_RANDOM")) { pre_at = (unsigned)pre_at % PRE_POINTS; pre_sel = (unsigned)pre_sel % NSZ; } VP_ASSUME(pre_at >= 0 && pre_at < PRE_POINTS && pre_sel >= 0 && pre_sel < NSZ);
#endif
#ifndef FAULTS
	fail0 = -1;
#endif
	scenario(sel, fail0);
#else
	/* concrete enumeration: first size fixed by the query (-DSEL0), the others and the failing map call looped */
	sel[0] = SEL0;
#ifdef FAULTS
	for(fail0 = 0; fail0 <= K; fail0++)
#endif
#if K >= 2 && defined(SEL1)
	sel[1] = SEL1;
#elif K >= 2
	for(sel[1] = 0; sel[1] < NSZ; sel[1]++)
#endif
#if K >= 3
	for(sel[2] = 0; sel[2] < NSZ; sel[2]++)
#endif
#if K >= 4
	for(sel[3] = 0; sel[3] < NSZ; sel[3]++)
#endif
#ifdef PREEMPT
	for(pre_at = 0; pre_at < PRE_POINTS; pre_at++) for(pre_sel = 0; pre_sel < (PRE_OP == 1 || PRE_OP == 2 ? 1 : NSZ); pre_sel++)
#endif
	{
		vp_in_n = 0; for(int s = 0; s < K; s++) vp_in_log[vp_in_n++] = (uint64_t)sel[s];
		vp_in_log[vp_in_n++] = (uint64_t)(int64_t)fail0;
#ifdef PREEMPT
		vp_in_log[vp_in_n++] = (uint64_t)pre_at; vp_in_log[vp_in_n++] = (uint64_t)pre_sel;
#endif
		scenario(sel, fail0);
	}
	VP_WITNESS(scenarios_run == 0, "scenarios were executed");
#endif
}
