/* C06 — red-black tree: inductive step over a solver-chosen valid tree (index view, DESIGN 3.1).
 *  -DM=<nodes in the tree before the operation>; N = M+1 node objects; node N-1 is the one inserted.
 *  entries: harness_insert, harness_remove, harness_order_insert, harness_first, harness_script (native validation) */
#define VP_PANIC_VIOLATION
#include "vp.h"
#include "c06.h"
#ifndef M
#define M 3
#endif
#define N (M + 1)
typedef struct S_struct_node node;
node n0, n1, n2, n3, n4, n5, n6, n7, n8, n9, n10, n11;      /* separate objects, never an array (DESIGN 2.2) */
static node *const NP[12] = {&n0, &n1, &n2, &n3, &n4, &n5, &n6, &n7, &n8, &n9, &n10, &n11};
struct S_struct_frg___redblack__tree_struct tree;
struct S_struct_frg___redblack__tree_order_struct otree;
#define ROOT(ord) (*((ord) ? &otree.f0.f0 : &tree.f0.f0))

static node *ptr(int i) { node *r = 0; for(int k = 0; k < N; k++) if(i == k) r = NP[k]; return r; }
static int idx(uint8_t *p) { int r = -1; for(int k = 0; k < N; k++) if((node *)p == NP[k]) r = k; if(p && r < 0) r = N; return r; }

struct view { int root; int P[N], L[N], R[N], PR[N], SU[N], col[N]; int key[N]; };
static void read_view(struct view *v, int ord) {
	v->root = idx(ROOT(ord));
	for(int i = 0; i < N; i++) {
		node *n = NP[i];
		v->P[i] = idx(n->f2.f0); v->L[i] = idx(n->f2.f1); v->R[i] = idx(n->f2.f2);
		v->PR[i] = idx(n->f2.f3); v->SU[i] = idx(n->f2.f4); v->col[i] = (int)n->f2.f5; v->key[i] = (int32_t)n->f0;
	}
}
static void write_view(const struct view *v, int ord) {
	ROOT(ord) = (uint8_t *)ptr(v->root);
	for(int i = 0; i < N; i++) {
		node *n = NP[i];
		n->f2.f0 = (uint8_t *)ptr(v->P[i]); n->f2.f1 = (uint8_t *)ptr(v->L[i]); n->f2.f2 = (uint8_t *)ptr(v->R[i]);
		n->f2.f3 = (uint8_t *)ptr(v->PR[i]); n->f2.f4 = (uint8_t *)ptr(v->SU[i]); n->f2.f5 = (uint32_t)v->col[i]; n->f0 = (uint32_t)v->key[i];
	}
}
#define AT(a, i) ((i) < 0 ? 0 : (a)[i])
/* valid(v, in, rank, m, keys): v is a red-black tree over exactly the nodes with in[i]; node i has in-order position rank[i];
 * parent/child links consistent; acyclic (size fixpoint); threaded list == in-order; root black, no red-red, equal black height;
 * keys non-decreasing along the order (when keys != 0); nodes outside have all five links null.  Returns the height in *ht. */
static int valid(const struct view *v, const int *in, const int *rank, int m, int keys, int *ht) {
	int sz[N], bh[N], h[N];
	for(int i = 0; i < N; i++) { sz[i] = 1; bh[i] = 0; h[i] = 1; }
	for(int k = 0; k < N; k++) {            /* bottom-up relaxation rounds, no recursion */
		int nsz[N], nbh[N], nh[N];
		for(int i = 0; i < N; i++) {
			int s = 1 + AT(sz, v->L[i]) + AT(sz, v->R[i]); nsz[i] = s > N + 1 ? N + 1 : s;
			int b = AT(bh, v->L[i]) + (v->col[i] == 2); nbh[i] = b > N + 1 ? N + 1 : b;
			int hl = AT(h, v->L[i]), hr = AT(h, v->R[i]); int hh = 1 + (hl > hr ? hl : hr); nh[i] = hh > N + 1 ? N + 1 : hh;
		}
		for(int i = 0; i < N; i++) { sz[i] = nsz[i]; bh[i] = nbh[i]; h[i] = nh[i]; }
	}
	*ht = v->root >= 0 && v->root < N ? h[v->root] : 0;
	if(m == 0) { if(v->root != -1) return 0; }
	else {
		if(v->root < 0 || v->root >= N || !in[v->root] || v->P[v->root] != -1 || v->col[v->root] != 2) return 0;
		if(sz[v->root] != m) return 0;
		if(rank[v->root] - AT(sz, v->L[v->root]) != 0) return 0;
	}
	for(int i = 0; i < N; i++) {
		if(!in[i]) {
			if(v->P[i] != -1 || v->L[i] != -1 || v->R[i] != -1 || v->PR[i] != -1 || v->SU[i] != -1) return 0;
			continue;
		}
		int l = v->L[i], r = v->R[i];
		if(l >= N || r >= N || v->P[i] >= N || v->PR[i] >= N || v->SU[i] >= N) return 0;                  /* escaped pointer */
		if(sz[i] != 1 + AT(sz, l) + AT(sz, r) || sz[i] > N) return 0;           /* fixpoint => acyclic */
		if(bh[i] != AT(bh, l) + (v->col[i] == 2) || AT(bh, l) != AT(bh, r)) return 0;
		if(v->col[i] != 1 && v->col[i] != 2) return 0;
		if(v->col[i] == 1 && ((l >= 0 && v->col[l] != 2) || (r >= 0 && v->col[r] != 2))) return 0;
		if(l >= 0 && (l == r || !in[l] || v->P[l] != i)) return 0;
		if(r >= 0 && (!in[r] || v->P[r] != i)) return 0;
		if(i != v->root) { int p = v->P[i]; if(p < 0 || !in[p] || (v->L[p] != i && v->R[p] != i)) return 0; }
		int lo = rank[i] - AT(sz, l);
		if(l >= 0 && rank[l] - AT(sz, v->L[l]) != lo) return 0;
		if(r >= 0 && rank[r] - AT(sz, v->L[r]) != rank[i] + 1) return 0;
		if(rank[i] < 0 || rank[i] >= m) return 0;
		for(int j = 0; j < N; j++) if(in[j]) {                                  /* threaded list = in-order; successor/predecessor inverse */
			if(rank[j] == rank[i] + 1 && (v->SU[i] != j || v->PR[j] != i)) return 0;
			if(j != i && rank[j] == rank[i]) return 0;
			if(keys && rank[j] > rank[i] && v->key[j] < v->key[i]) return 0;
		}
		if(rank[i] == 0 && v->PR[i] != -1) return 0;
		if(rank[i] == m - 1 && v->SU[i] != -1) return 0;
	}
	return 1;
}
static int log2floor(int x) { int r = 0; while(x > 1) { x >>= 1; r++; } return r; }

struct view V; int in[N], rank[N], m;
static int pick(void) { int i; VP_INPUT(i); VP_ASSUME(i >= -1 && i < N); return i; }
static void havoc(int ord, int keys) {
	int ht;
	V.root = pick(); m = 0;
	for(int i = 0; i < N; i++) {
		V.P[i] = pick(); V.L[i] = pick(); V.R[i] = pick(); V.PR[i] = pick(); V.SU[i] = pick();
		VP_INPUT(V.col[i]); VP_ASSUME(V.col[i] >= 0 && V.col[i] <= 2);
		VP_INPUT(V.key[i]);
		in[i] = i < M; rank[i] = i; m += in[i];      /* symmetry breaking: node i is the i-th element in order */
	}
	VP_ASSUME(valid(&V, in, rank, m, keys, &ht));
	write_view(&V, ord);
}
static void check_height(int ht, int n) { VP_ASSERT(ht <= 2 * log2floor(n + 1), "height exceeds 2*log2(n+1)"); }

void harness_insert(void) {
	havoc(0, 1);
	int x = N - 1, ht;
	rb_insert(&tree, NP[x]);
	struct view W; read_view(&W, 0);
	int in2[N], rank2[N];
	int pos = 0; for(int j = 0; j < N; j++) if(in[j] && V.key[j] <= V.key[x]) pos++;   /* stable: after every key <= the new one */
	for(int j = 0; j < N; j++) { in2[j] = in[j] || j == x; rank2[j] = j == x ? pos : (rank[j] >= pos ? rank[j] + 1 : rank[j]); }
	VP_ASSERT(valid(&W, in2, rank2, m + 1, 1, &ht), "after insert: valid red-black tree holding exactly the old elements plus the new one, in comparator order with equal keys in insertion order, neighbour links exact");
	check_height(ht, m + 1);
	VP_OBSERVE(W.root); VP_WITNESS(0, "insert reached");
}
void harness_remove(void) {
	havoc(0, 1);
	int x, ht; VP_INPUT(x); VP_ASSUME(x >= 0 && x < N && in[x]);
	rb_remove(&tree, NP[x]);
	struct view W; read_view(&W, 0);
	int in2[N], rank2[N];
	for(int j = 0; j < N; j++) { in2[j] = in[j] && j != x; rank2[j] = rank[j] > rank[x] ? rank[j] - 1 : rank[j]; }
	VP_ASSERT(valid(&W, in2, rank2, m - 1, 1, &ht), "after remove: valid red-black tree holding exactly the other elements in unchanged order; removed element's links all reset");
	check_height(ht, m - 1);
	VP_OBSERVE(W.root); VP_WITNESS(0, "remove reached");
}
void harness_order_insert(void) {
	havoc(1, 0);
	int x = N - 1, b, ht; VP_INPUT(b); VP_ASSUME(b >= -1 && b < N && (b < 0 || in[b]));
	rbo_insert(&otree, ptr(b), NP[x]);
	struct view W; read_view(&W, 1);
	int in2[N], rank2[N];
	int pos = b < 0 ? m : rank[b];                  /* immediately before `before`, or last */
	for(int j = 0; j < N; j++) { in2[j] = in[j] || j == x; rank2[j] = j == x ? pos : (rank[j] >= pos ? rank[j] + 1 : rank[j]); }
	VP_ASSERT(valid(&W, in2, rank2, m + 1, 0, &ht), "after insert(before, x): valid red-black tree with x immediately before `before` (or last when null)");
	check_height(ht, m + 1);
	VP_OBSERVE(W.root); VP_WITNESS(0, "order insert reached");
}
void harness_order_remove(void) {
	havoc(1, 0);
	int x, ht; VP_INPUT(x); VP_ASSUME(x >= 0 && x < N && in[x]);
	rbo_remove(&otree, NP[x]);
	struct view W; read_view(&W, 1);
	int in2[N], rank2[N];
	for(int j = 0; j < N; j++) { in2[j] = in[j] && j != x; rank2[j] = rank[j] > rank[x] ? rank[j] - 1 : rank[j]; }
	VP_ASSERT(valid(&W, in2, rank2, m - 1, 0, &ht), "after remove (comparator-less tree): valid tree over the other elements in unchanged order; removed element's links reset");
	VP_WITNESS(0, "order remove reached");
}
void harness_first(void) {       /* navigation API on an arbitrary valid tree */
	havoc(0, 1);
	int want = -1; for(int j = 0; j < N; j++) if(in[j] && rank[j] == 0) want = j;
	VP_ASSERT(idx((uint8_t *)rb_first(&tree)) == want, "first() is the smallest element (null when empty)");
	VP_ASSERT(idx((uint8_t *)rb_root(&tree)) == V.root, "get_root()");
	int i; VP_INPUT(i);
	if(m == 0) { VP_WITNESS(0, "navigation reached (empty tree)"); return; }
	VP_ASSUME(i >= 0 && i < N && in[i]);
	int s = -1, p = -1; for(int j = 0; j < N; j++) if(in[j]) { if(rank[j] == rank[i] + 1) s = j; if(rank[j] == rank[i] - 1) p = j; }
	VP_ASSERT(idx((uint8_t *)rb_succ(NP[i])) == s && idx((uint8_t *)rb_pred(NP[i])) == p, "successor()/predecessor() are the in-order neighbours");
	VP_ASSERT(idx((uint8_t *)rb_left(NP[i])) == V.L[i] && idx((uint8_t *)rb_right(NP[i])) == V.R[i] && idx((uint8_t *)rb_parent(NP[i])) == V.P[i], "get_left/get_right/get_parent");
	VP_WITNESS(0, "navigation reached");
}

/* native validation: pseudo-random insert/remove script from the empty tree; every reachable state must satisfy valid()
 * (so the invariant of the inductive step is not stronger than what real histories produce) and both builds must agree. */
#ifdef VP_NATIVE
void harness_script(void) {
	int ord; VP_INPUT(ord); ord &= 1;
	int seq[N], len = 0, cin[N];
	for(int i = 0; i < N; i++) { cin[i] = 0; memset(NP[i], 0, sizeof(node)); }
	if(ord) otree.f0.f0 = 0; else rb_init(&tree);
	for(int step = 0; step < 40; step++) {
		unsigned r; VP_INPUT(r);
		int x = r % N;
		if(!cin[x]) {
			int k; VP_INPUT(k); k = (k & 7);
			if(ord) { int b = (r >> 8) % (len + 1); node *bp = b < len ? NP[seq[b]] : 0; rbo_insert(&otree, bp, NP[x]); for(int j = len; j > b; j--) seq[j] = seq[j - 1]; seq[b] = x; len++; }
			else { NP[x]->f0 = (uint32_t)k; rb_insert(&tree, NP[x]); int pos = 0; while(pos < len && (int32_t)NP[seq[pos]]->f0 <= k) pos++; for(int j = len; j > pos; j--) seq[j] = seq[j - 1]; seq[pos] = x; len++; }
			cin[x] = 1;
		} else {
			if(ord) rbo_remove(&otree, NP[x]); else rb_remove(&tree, NP[x]);
			int pos = 0; while(seq[pos] != x) pos++; for(int j = pos; j < len - 1; j++) seq[j] = seq[j + 1]; len--; cin[x] = 0;
		}
		struct view W; read_view(&W, ord); int rk[N], ht; for(int j = 0; j < N; j++) rk[j] = -1; for(int j = 0; j < len; j++) rk[seq[j]] = j;
		VP_ASSERT(valid(&W, cin, rk, len, !ord, &ht), "script: reachable state violates the invariant used by the inductive step");
		VP_OBSERVE(W.root * 1000 + ht * 100 + len);
	}
}
#endif
