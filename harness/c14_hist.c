/* C14 / C16 (hash_map part) — bounded history from the constructor with Value = tracked and the tracking allocator.
 *   -DK=k   k solver-chosen operations      -DU=u   key universe: u solver-chosen distinct 64-bit keys, hash = solver-chosen table over them
 * construct (default or initializer list with two entries) ; K x {insert const& / insert && (absent key), operator[], get, find, remove} ;
 * destroy ; vp_end().   After every operation ALL keys of the universe are looked up and compared with the reference map.
 * Lifetime clauses (no value read/destroyed outside its lifetime, nothing constructed over a live value) are asserted by the hooks of
 * vp_track.h on every path; block clauses (released exactly once, with the allocated size) by its allocator; vp_end(): nothing left. */
#define VP_PANIC_VIOLATION
#include "vp.h"
#ifndef K
#define K 3
#endif
#ifndef U
#define U 2
#endif
#ifndef CTOR      /* 0 default constructor, 1 initializer-list constructor with two entries, 2 solver-chosen (native validation) */
#define CTOR 2
#endif
#define MAXCNT(step) ((step) + (CTOR ? 2 : 0))
#ifdef __CPROVER__
#define VP_MAXBLK (3 * (K + 1))
#else
#define VP_MAXBLK (2 * K + 4)
#endif
#define vp_ctor vp_unitdecl_ctor
#define vp_ctor_default vp_unitdecl_ctor_default
#define vp_copy vp_unitdecl_copy
#define vp_move vp_unitdecl_move
#define vp_assign_copy vp_unitdecl_assign_copy
#define vp_assign_move vp_unitdecl_assign_move
#define vp_dtor vp_unitdecl_dtor
#define vp_alloc vp_unitdecl_alloc
#define vp_free vp_unitdecl_free
#define vp_dealloc vp_unitdecl_dealloc
#include "c14_trk.h"
#undef vp_ctor
#undef vp_ctor_default
#undef vp_copy
#undef vp_move
#undef vp_assign_copy
#undef vp_assign_move
#undef vp_dtor
#undef vp_alloc
#undef vp_free
#undef vp_dealloc
#define VP_NO_REAL_FREE      /* native runs without ASan: malloc would reuse a released address and the block registry (keyed by address) would see a stale entry */
#ifdef __CPROVER__
/* Under CBMC the blocks are TYPED pre-declared objects chosen by (phase, allocation number within the phase), registered in the block
 * registry of vp_track.h at a fixed slot (a malloc'ed byte block holding chain pointers costs a byte_update per access: 8 GB for K=2;
 * a running block counter turns symbolic at the first merge).  vp_track.h's own allocate is renamed away, its release side is used as is. */
#define vp_alloc vp_track_alloc_unused
#endif
#include "vp_track.h"
#ifdef __CPROVER__
#undef vp_alloc
#endif
typedef struct S_struct_frg__hash_map_unsigned_long__tracked__vp_hash_functor__vp_allocator___chain chain;
#ifdef __CPROVER__
#if K > 5
#error "typed block pool: K <= 5 under CBMC"
#endif
#define NPH 6
chain nA0, nA1, nA2, nA3, nA4, nA5, nB0, POISON;         /* phase p: first node nAp; the initializer-list constructor (phase 0) allocates a second node nB0 */
chain *tb0[10], *tb1[10], *tb2[10], *tb3[10], *tb4[10], *tb5[10];
static chain *const NA[NPH] = {&nA0, &nA1, &nA2, &nA3, &nA4, &nA5};
static chain **const TB[NPH] = {tb0, tb1, tb2, tb3, tb4, tb5};
int phase, ph_nodes, ph_tabs;                           /* phase = 0 constructor, s+1 = operation s (concrete after loop unrolling) */
static void new_phase(int p) { phase = p; ph_nodes = 0; ph_tabs = 0; }
static void reg(int slot, void *p, size_t size) { vp_blks[slot].p = (char *)p; vp_blks[slot].size = size; vp_blks[slot].live = 1; vp_outstanding++; }   /* slot is a constant at every call */
void *vp_alloc(size_t size) {
	if(size == sizeof(chain)) {
		VP_ASSERT(ph_nodes < (phase == 0 ? 2 : 1), "allocator: more chain nodes allocated by one operation than entries it creates");
		__CPROVER_assume(ph_nodes < (phase == 0 ? 2 : 1));
		chain *n;
		if(ph_nodes == 0) { n = NA[phase]; reg(3 * phase, n, size); } else { n = &nB0; reg(1, n, size); }
		ph_nodes++;
		n->f0.f0.f1.f0.f1 = VP_RAW; n->f1 = &POISON;
		return n;
	}
	VP_ASSERT(size == 80, "allocator: table size other than 10 chain pointers inside this bound");
	__CPROVER_assume(size == 80);
	VP_ASSERT(ph_tabs == 0, "allocator: more than one table allocated by one operation");
	__CPROVER_assume(ph_tabs == 0);
	chain **t = TB[phase]; for(int b = 0; b < 10; b++) t[b] = &POISON;
	ph_tabs++; reg(3 * phase + 2, t, size);
	return t;
}
#else
#define new_phase(p) ((void)0)
#endif
typedef struct S_class_frg__hash_map map_t;
typedef struct S_struct_tracked trk;
typedef struct S_class_frg__hash_map_unsigned_long__tracked__vp_hash_functor__vp_allocator___iterator iter_t;
#define VP_PRE(c) VP_PRE_OR(c, return 0)
map_t map;
uint64_t KV[U]; uint32_t H[U];
int present[U]; int32_t rval[U];
uint32_t vp_hash(uint64_t k) {
	for(int u = 0; u < U; u++) if(k == KV[u]) return H[u];
	VP_ASSERT(0, "hash functor called with a key outside the key universe");
	return 0;
}
static uint64_t keyat(int u) { uint64_t k = 0; for(int i = 0; i < U; i++) if(u == i) k = KV[i]; return k; }
static void check_all(void) {
	int cnt = 0;
	for(int u = 0; u < U; u++) {
		trk *p = ht_get(&map, KV[u]);
		if(present[u]) {
			cnt++;
			VP_ASSERT(p != 0, "get() misses a present key");
			if(p) { VP_ASSERT(p->f1 == VP_ALIVE, "lifetime: stored value is not alive"); VP_ASSERT((int32_t)p->f0 == rval[u], "get() returns a value different from the reference"); }
		} else VP_ASSERT(p == 0, "get() finds an absent key");
	}
	VP_ASSERT(ht_size(&map) == (uint64_t)cnt, "size() differs from the number of entries of the reference map");
	VP_ASSERT((ht_empty(&map) != 0) == (cnt == 0), "empty() differs from the reference");
}
uint64_t rcap;                     /* reference capacity inside the bound of the CBMC runs: 0 until the first entry is created, 10 afterwards */
static int do_op(int op, int ki, int v) {
	uint64_t k = keyat(ki); int pres = 0; int32_t rv = 0;
	for(int u = 0; u < U; u++) if(u == ki) { pres = present[u]; rv = rval[u]; }
	switch(op) {
	case 0: VP_PRE(!pres); ht_insert_copy(&map, k, (uint32_t)v); for(int u = 0; u < U; u++) if(u == ki) { present[u] = 1; rval[u] = v; } rcap = 10; break;
	case 1: VP_PRE(!pres); ht_insert_move(&map, k, (uint32_t)v); for(int u = 0; u < U; u++) if(u == ki) { present[u] = 1; rval[u] = v; } rcap = 10; break;
	case 2: { trk *p = ht_index(&map, k);
		VP_ASSERT(p != 0 && p->f1 == VP_ALIVE, "operator[] must return a live value");
		VP_ASSERT((int32_t)p->f0 == (pres ? rv : 0), "operator[] returns the stored value of a present key and a default value for an absent key");
		p->f0 = (uint32_t)v;                                      /* map[k] = v */
		for(int u = 0; u < U; u++) if(u == ki) { present[u] = 1; rval[u] = v; } rcap = 10; } break;
	case 3: { trk *p = ht_get(&map, k); VP_ASSERT((p != 0) == pres, "get() locates exactly the present keys"); if(p) VP_ASSERT((int32_t)p->f0 == rv, "get() value"); } break;
	case 4: { uint32_t out = 0; int got = ht_remove(&map, k, &out);
		VP_ASSERT((got != 0) == pres, "remove() returns a value exactly for present keys"); if(got) VP_ASSERT((int32_t)out == rv, "remove() returns the stored value");
		for(int u = 0; u < U; u++) if(u == ki) present[u] = 0; } break;
	case 5: { iter_t it, en; ht_find(&map, k, &it); ht_end(&map, &en);
		VP_ASSERT((ht_it_eq(&it, &en) == 0) == pres, "find() locates exactly the present keys");
		if(pres && !ht_it_eq(&it, &en)) { VP_ASSERT(ht_it_key(&it) == k, "find(): key"); VP_ASSERT((int32_t)ht_it_val(&it)->f0 == rv, "find(): value"); } } break;
	}
	return 1;
}
void harness(void) {
	int nops = 0;
	for(int u = 0; u < U; u++) {
		VP_INPUT(KV[u]); VP_INPUT(H[u]);
		VP_NATIVE_ONLY(if(getenv("VP_RANDOM")) { KV[u] = KV[u] * 64 + (unsigned)u; H[u] = (H[u] & 1) ? (H[u] >> 1) % 20 : (H[u] >> 1) % 3; })
		VP_ASSUME(H[u] < 20);
		for(int w = 0; w < u; w++) VP_ASSUME(KV[w] != KV[u]);
		present[u] = 0; rval[u] = 0;
	}
	int c, a, b, va, vb; VP_INPUT(c); VP_INPUT(a); VP_INPUT(b); VP_INPUT(va); VP_INPUT(vb);
	VP_NATIVE_ONLY(if(getenv("VP_RANDOM")) { c = (unsigned)c % 2; a = (unsigned)a % U; b = (unsigned)b % U; if(U < 2 || a == b) c = 0; })
	if(CTOR < 2) c = CTOR;
	VP_ASSUME(c >= 0 && c <= 1 && a >= 0 && a < U && b >= 0 && b < U);
#ifdef __CPROVER__
	vp_nblk = VP_MAXBLK;
#endif
	new_phase(0);
	if(c == 0) ht_ctor(&map);
	else {
		VP_ASSUME(a != b);
		ht_ctor_il2(&map, keyat(a), (uint32_t)va, keyat(b), (uint32_t)vb);
		for(int u = 0; u < U; u++) { if(u == a) { present[u] = 1; rval[u] = va; } if(u == b) { present[u] = 1; rval[u] = vb; } }
		rcap = 10;
	}
	check_all();
	for(int step = 0; step < K; step++) {
		int op, ki, v; VP_INPUT(op); VP_INPUT(ki); VP_INPUT(v);
		VP_NATIVE_ONLY(if(getenv("VP_RANDOM")) { op = (unsigned)op % 6; ki = (unsigned)ki % U; })
		VP_ASSUME(op >= 0 && op <= 5 && ki >= 0 && ki < U);
		new_phase(step + 1);
		int done = 0;
#ifdef __CPROVER__
		/* Concretisation (no-op writes): in a merged history _size/_capacity are symbolic expressions, so rehash() would request a block of
		 * symbolic size (intractable, DESIGN 2.4 (ii)).  The step is therefore executed under a case split over the reference size; in each case
		 * the two fields are first ASSERTED to hold the reference values and then overwritten with the same values as constants. */
		int cnt = 0; for(int u = 0; u < U; u++) cnt += present[u];
		const uint64_t rc0 = rcap;
		VP_ASSERT(cnt <= MAXCNT(step) && (rc0 == 0 || rc0 == 10) && (rc0 != 0 || cnt == 0), "harness: reference size/capacity outside the case split");
		for(int cs = 0; cs <= MAXCNT(step); cs++) for(int cc = 0; cc <= (cs == 0 ? 10 : 0); cc += 10) if(cnt == cs && rc0 == (cs == 0 ? (uint64_t)cc : 10u)) {
			uint64_t capc = cs == 0 ? (uint64_t)cc : 10u;
			VP_ASSERT(map.f4 == (uint64_t)cs && map.f3 == capc, "_size / _capacity differ from the reference (size, capacity in {0,10})");
			map.f4 = (uint64_t)cs; map.f3 = capc;
			done = do_op(op, ki, v);
		}
#else
		done = do_op(op, ki, v);
#endif
		if(done) { check_all(); nops++; }
		VP_OBSERVE(ht_size(&map) * 10 + op);
	}
	ht_dtor(&map);
	vp_end();
	VP_OBSERVE(vp_ctor_count * 1000 + vp_dtor_count);
	VP_WITNESS(nops < K, "K operations executed");
#if CTOR
	VP_WITNESS(c == 0, "initializer-list constructor reached");
#endif
}
