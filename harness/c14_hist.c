/* C14 / C16 (hash_map part) — bounded history from the constructor with Value = tracked and the tracking allocator.
 *   -DK=k   k solver-chosen operations      -DU=u   key universe: u solver-chosen distinct 64-bit keys, hash = solver-chosen table over them
 * construct (default or initializer list with two entries) ; K x {insert const& / insert && (absent key), operator[], get, find, remove} ;
 * destroy ; vp_end().   After every operation ALL keys of the universe are looked up and compared with the reference map.
 * Lifetime clauses (no value read/destroyed outside its lifetime, nothing constructed over a live value) are asserted by the hooks of
 * vp_track.h on every path; block clauses (released exactly once, with the allocated size) by its allocator; vp_end(): nothing left. */
#define VP_PANIC_VIOLATION
#include "vp.h"
#ifndef K
#define K 3
#endif
#ifndef U
#define U 2
#endif
#define VP_MAXBLK (2 * K + 4)
#define vp_ctor vp_unitdecl_ctor
#define vp_ctor_default vp_unitdecl_ctor_default
#define vp_copy vp_unitdecl_copy
#define vp_move vp_unitdecl_move
#define vp_assign_copy vp_unitdecl_assign_copy
#define vp_assign_move vp_unitdecl_assign_move
#define vp_dtor vp_unitdecl_dtor
#define vp_alloc vp_unitdecl_alloc
#define vp_free vp_unitdecl_free
#define vp_dealloc vp_unitdecl_dealloc
#include "c14_trk.h"
#undef vp_ctor
#undef vp_ctor_default
#undef vp_copy
#undef vp_move
#undef vp_assign_copy
#undef vp_assign_move
#undef vp_dtor
#undef vp_alloc
#undef vp_free
#undef vp_dealloc
#ifdef VP_NATIVE
#define VP_NO_REAL_FREE      /* native runs without ASan: malloc would reuse a released address and the block registry (keyed by address) would see a stale entry */
#endif
#include "vp_track.h"
typedef struct S_class_frg__hash_map map_t;
typedef struct S_struct_tracked trk;
typedef struct S_class_frg__hash_map_unsigned_long__tracked__vp_hash_functor__vp_allocator___iterator iter_t;
#define VP_PRE(c) VP_PRE_OR(c, goto skip)
map_t map;
uint64_t KV[U]; uint32_t H[U];
int present[U]; int32_t rval[U];
uint32_t vp_hash(uint64_t k) {
	for(int u = 0; u < U; u++) if(k == KV[u]) return H[u];
	VP_ASSERT(0, "hash functor called with a key outside the key universe");
	return 0;
}
static uint64_t keyat(int u) { uint64_t k = 0; for(int i = 0; i < U; i++) if(u == i) k = KV[i]; return k; }
static void check_all(void) {
	int cnt = 0;
	for(int u = 0; u < U; u++) {
		trk *p = ht_get(&map, KV[u]);
		if(present[u]) {
			cnt++;
			VP_ASSERT(p != 0, "get() misses a present key");
			if(p) { VP_ASSERT(p->f1 == VP_ALIVE, "lifetime: stored value is not alive"); VP_ASSERT((int32_t)p->f0 == rval[u], "get() returns a value different from the reference"); }
		} else VP_ASSERT(p == 0, "get() finds an absent key");
	}
	VP_ASSERT(ht_size(&map) == (uint64_t)cnt, "size() differs from the number of entries of the reference map");
	VP_ASSERT((ht_empty(&map) != 0) == (cnt == 0), "empty() differs from the reference");
}
void harness(void) {
	int nops = 0;
	for(int u = 0; u < U; u++) {
		VP_INPUT(KV[u]); VP_INPUT(H[u]);
		VP_NATIVE_ONLY(if(getenv("VP_RANDOM")) { KV[u] = KV[u] * 64 + (unsigned)u; H[u] = (H[u] & 1) ? (H[u] >> 1) % 20 : (H[u] >> 1) % 3; })
		VP_ASSUME(H[u] < 20);
		for(int w = 0; w < u; w++) VP_ASSUME(KV[w] != KV[u]);
		present[u] = 0; rval[u] = 0;
	}
	int c, a, b, va, vb; VP_INPUT(c); VP_INPUT(a); VP_INPUT(b); VP_INPUT(va); VP_INPUT(vb);
	VP_NATIVE_ONLY(if(getenv("VP_RANDOM")) { c = (unsigned)c % 2; a = (unsigned)a % U; b = (unsigned)b % U; if(U < 2 || a == b) c = 0; })
	VP_ASSUME(c >= 0 && c <= 1 && a >= 0 && a < U && b >= 0 && b < U);
	if(c == 0) ht_ctor(&map);
	else {
		VP_ASSUME(a != b);
		ht_ctor_il2(&map, keyat(a), (uint32_t)va, keyat(b), (uint32_t)vb);
		for(int u = 0; u < U; u++) { if(u == a) { present[u] = 1; rval[u] = va; } if(u == b) { present[u] = 1; rval[u] = vb; } }
	}
	check_all();
	for(int step = 0; step < K; step++) {
		int op, ki, v; VP_INPUT(op); VP_INPUT(ki); VP_INPUT(v);
		VP_NATIVE_ONLY(if(getenv("VP_RANDOM")) { op = (unsigned)op % 6; ki = (unsigned)ki % U; })
		VP_ASSUME(op >= 0 && op <= 5 && ki >= 0 && ki < U);
		uint64_t k = keyat(ki); int pres = 0; int32_t rv = 0;
		for(int u = 0; u < U; u++) if(u == ki) { pres = present[u]; rv = rval[u]; }
		switch(op) {
		case 0: VP_PRE(!pres); ht_insert_copy(&map, k, (uint32_t)v); for(int u = 0; u < U; u++) if(u == ki) { present[u] = 1; rval[u] = v; } break;
		case 1: VP_PRE(!pres); ht_insert_move(&map, k, (uint32_t)v); for(int u = 0; u < U; u++) if(u == ki) { present[u] = 1; rval[u] = v; } break;
		case 2: { trk *p = ht_index(&map, k);
			VP_ASSERT(p != 0 && p->f1 == VP_ALIVE, "operator[] must return a live value");
			VP_ASSERT((int32_t)p->f0 == (pres ? rv : 0), "operator[] returns the stored value of a present key and a default value for an absent key");
			p->f0 = (uint32_t)v;                                      /* map[k] = v */
			for(int u = 0; u < U; u++) if(u == ki) { present[u] = 1; rval[u] = v; } } break;
		case 3: { trk *p = ht_get(&map, k); VP_ASSERT((p != 0) == pres, "get() locates exactly the present keys"); if(p) VP_ASSERT((int32_t)p->f0 == rv, "get() value"); } break;
		case 4: { uint32_t out = 0; int got = ht_remove(&map, k, &out);
			VP_ASSERT((got != 0) == pres, "remove() returns a value exactly for present keys"); if(got) VP_ASSERT((int32_t)out == rv, "remove() returns the stored value");
			for(int u = 0; u < U; u++) if(u == ki) present[u] = 0; } break;
		case 5: { iter_t it, en; ht_find(&map, k, &it); ht_end(&map, &en);
			VP_ASSERT((ht_it_eq(&it, &en) == 0) == pres, "find() locates exactly the present keys");
			if(pres && !ht_it_eq(&it, &en)) { VP_ASSERT(ht_it_key(&it) == k, "find(): key"); VP_ASSERT((int32_t)ht_it_val(&it)->f0 == rv, "find(): value"); } } break;
		}
		check_all(); nops++;
		if(0) { skip: ; }
		VP_OBSERVE(ht_size(&map) * 10 + op);
	}
	ht_dtor(&map);
	vp_end();
	VP_OBSERVE(vp_ctor_count * 1000 + vp_dtor_count);
	VP_WITNESS(nops < K, "K operations executed");
	VP_WITNESS(c == 0, "initializer-list constructor reached");
}
