/* C13 / C16 — array-like sequence containers against a reference sequence.
 *
 *   -DC13_UNIT=<unit name>  generated header to include (one unit per container x element type, wrap/c13_seq.cpp)
 *   -DC13_CONT=1 vector  2 small_vector<.,2>  3 small_vector<.,4>  4 dyn_array  5 stack          -DC13_TRK=0 int / 1 tracked
 *   -DSCRIPT=c1,c2,..,  -DNSCRIPT=n   concrete history prefix from the constructor: operation codes (op + 100*length argument), element
 *                values and victim indices solver-chosen.  The prefix fixes the SHAPE (sizes, capacities, inline/heap, which of A and B
 *                exist) and leaves the contents symbolic; it is how growth thresholds are crossed.
 *   -DK=k        then k solver-chosen operations from the whole public API (operation, values, indices, which length all symbolic)
 *   -DLENS=n1,n2,.. -DNLENS=m   the concrete lengths offered to length-taking operations (resize(n,...), dyn_array(n)) in the symbolic part:
 *                each (operation, length) pair is its own case, so no length is symbolic inside one path (DESIGN 2.4)
 *   -DMAXN=m     no history grows a container beyond m elements (per-step precondition)
 *   -DOPMASK / -DOPMASK0   bit set of operation classes offered to the solver-chosen operations / to the first of them (default: all)
 *
 * Two container slots: A (alive from the constructor to the end) and B (created by copy/move/constructor, may be destroyed);
 * every binary operation is offered in both directions.  After EVERY operation all accessors of every live container are
 * compared with the reference.  The run ends with "destroy B, destroy A, vp_end()": nothing alive, nothing allocated (C16).
 * Standard pointer checks are on: every access outside an exact-size block or outside the container object is a violation. */
#define VP_PANIC_VIOLATION
#include "vp.h"
#include <stdlib.h>
#include <string.h>
#define C13_STR(x) #x
#define C13_XSTR(x) C13_STR(x)
/* the unit header declares the instrumentation hooks with the IR's types; vp_track.h defines them with (void *, int32_t): rename the declarations away */
#define vp_ctor c13_unitdecl_vp_ctor
#define vp_ctor_default c13_unitdecl_vp_ctor_default
#define vp_copy c13_unitdecl_vp_copy
#define vp_move c13_unitdecl_vp_move
#define vp_assign_copy c13_unitdecl_vp_assign_copy
#define vp_assign_move c13_unitdecl_vp_assign_move
#define vp_dtor c13_unitdecl_vp_dtor
#define vp_alloc c13_unitdecl_vp_alloc
#define vp_free c13_unitdecl_vp_free
#define vp_dealloc c13_unitdecl_vp_dealloc
#include C13_XSTR(C13_UNIT.h)
#undef vp_ctor
#undef vp_ctor_default
#undef vp_copy
#undef vp_move
#undef vp_assign_copy
#undef vp_assign_move
#undef vp_dtor
#undef vp_alloc
#undef vp_free
#undef vp_dealloc

#ifndef K
#define K 3
#endif
#ifndef NSCRIPT
#define NSCRIPT 0
#define SCRIPT
#endif
#ifndef NLENS
#define NLENS 1
#define LENS 3
#endif
static const int SCRIPT_[] = { SCRIPT -1 };
#ifndef NLENS2
#define NLENS2 NLENS
#define LENS2 LENS
#endif
static const int LENS_[] = { LENS };      /* resize(n) and dyn_array(n) */
static const int LENS2_[] = { LENS2 };    /* resize(n, const T&), resize(n, T&&), resize(n, ctor-arg): the length classes that construct elements */
#ifndef MAXN
#define MAXN 6
#endif
#ifndef OPMASK
#define OPMASK 0xFFFFFFFFu
#endif
#ifndef EXPECT_OPS
#define EXPECT_OPS 0u
#endif
#ifndef OPMASK0
#define OPMASK0 OPMASK      /* operation classes offered to the FIRST solver-chosen operation (splits deep queries across cores) */
#endif

#if C13_TRK
typedef struct S_struct_tracked elem_t;
#define VAL(p) ((int32_t)(p)->f0)
#define ESIZE 8
#else
typedef uint32_t elem_t;
#define VAL(p) ((int32_t)*(p))
#define ESIZE 4
#endif

#ifndef VP_MAXBLK
#define VP_MAXBLK 16
#endif
/* native run WITHOUT AddressSanitizer (the generated-C side of the translator validation): malloc may hand a freed address out again and
 * vp_release() would then see the stale registry entry of the same address ("released twice"); ASan builds quarantine freed blocks */
#if defined(VP_NATIVE) && !defined(__SANITIZE_ADDRESS__)
#define VP_NO_REAL_FREE
#endif
/* vp_track.h keeps the lifetime state INSIDE the object, so an object whose bytes are copied to another address (no constructor call) carries
 * its "alive" mark along and the registry cannot notice.  For T=tracked the hooks are therefore wrapped here: every constructor also records
 * (in the padding bytes of `tracked`) a tag of the address the object was constructed at, and every later use of the object — as source of a
 * copy/move, as target of an assignment, at destruction, and when the harness reads it through an accessor — checks that it still lives there. */
#if C13_TRK
#define vp_ctor vp_track_ctor
#define vp_ctor_default vp_track_ctor_default
#define vp_copy vp_track_copy
#define vp_move vp_track_move
#define vp_assign_copy vp_track_assign_copy
#define vp_assign_move vp_track_assign_move
#define vp_dtor vp_track_dtor
#endif
#include "vp_track.h"
#if C13_TRK
#undef vp_ctor
#undef vp_ctor_default
#undef vp_copy
#undef vp_move
#undef vp_assign_copy
#undef vp_assign_move
#undef vp_dtor
static uint32_t c13_addr_tag(const void *p) {
#ifdef __CPROVER__
	return ((uint32_t)__CPROVER_POINTER_OBJECT(p) * 256u + (uint32_t)(__CPROVER_POINTER_OFFSET(p) >> 2)) & 0xFFFFFFu;
#else
	return (uint32_t)((uintptr_t)p >> 2) & 0xFFFFFFu;
#endif
}
static void c13_born(void *self) { vp_tracked *t = (vp_tracked *)self; uint32_t g = c13_addr_tag(self); t->pad[0] = (uint8_t)g; t->pad[1] = (uint8_t)(g >> 8); t->pad[2] = (uint8_t)(g >> 16); }
static void c13_here(const void *o) {
	const vp_tracked *t = (const vp_tracked *)o; uint32_t g = c13_addr_tag(o);
	if(t->state == VP_ALIVE || t->state == VP_MOVED)
		VP_ASSERT(t->pad[0] == (uint8_t)g && t->pad[1] == (uint8_t)(g >> 8) && t->pad[2] == (uint8_t)(g >> 16),
		          "lifetime: object used at an address where it was never constructed (its bytes were relocated without a constructor call)");
}
void vp_ctor(void *self, int32_t val) { vp_track_ctor(self, val); c13_born(self); }
void vp_ctor_default(void *self) { vp_track_ctor_default(self); c13_born(self); }
void vp_copy(void *self, void *src) { c13_here(src); vp_track_copy(self, src); c13_born(self); }
void vp_move(void *self, void *src) { c13_here(src); vp_track_move(self, src); c13_born(self); }
void vp_assign_copy(void *self, void *src) { c13_here(src); c13_here(self); vp_track_assign_copy(self, src); }
void vp_assign_move(void *self, void *src) { c13_here(src); c13_here(self); vp_track_assign_move(self, src); }
void vp_dtor(void *self) { c13_here(self); vp_track_dtor(self); }
#endif

#if C13_CONT == 1
typedef struct S_class_frg__vector cont_t;
#elif C13_CONT == 2 || C13_CONT == 3
typedef struct S_class_frg__small_vector cont_t;
#elif C13_CONT == 4
typedef struct S_class_frg__dyn_array cont_t;
#elif C13_CONT == 5
typedef struct S_class_frg__stack cont_t;
#endif
#define IS_VEC (C13_CONT == 1)
#define IS_SV (C13_CONT == 2 || C13_CONT == 3)
#define IS_DYN (C13_CONT == 4)
#define IS_STACK (C13_CONT == 5)

cont_t A, B;                      /* separate global objects */
int aliveB;
int32_t refA[MAXN + 1], refB[MAXN + 1];
int lenA, lenB;
int nops, first_op = -1;
#define VP_PRE(c) VP_PRE_OR(c, goto skip)

static void ref_copy(int32_t *d, int *dl, const int32_t *s, int sl) { for(int i = 0; i < MAXN; i++) d[i] = s[i]; *dl = sl; }
static void ref_swap(void) { for(int i = 0; i < MAXN; i++) { int32_t t = refA[i]; refA[i] = refB[i]; refB[i] = t; } int t = lenA; lenA = lenB; lenB = t; }
static int ref_eq(void) { if(lenA != lenB) return 0; for(int i = 0; i < MAXN; i++) if(i < lenA && refA[i] != refB[i]) return 0; return 1; }

#if C13_TRK
#define ELEM_OK(p) do { VP_ASSERT((p)->f1 == VP_ALIVE, "lifetime: an element the container exposes is not a live object (never constructed, destroyed, or moved-from)"); c13_here(p); } while(0)
#else
#define ELEM_OK(p) ((void)0)
#endif

/* all accessors of one container against its reference.  The contents are compared slot by slot through the buffer; the accessor FUNCTIONS that
 * take an index (operator[] both overloads, the iteration protocol) are called with ONE solver-chosen index k, which the solver quantifies over
 * all valid indices (same strength as a loop over every index, far fewer calls per explored case). */
static void check_one(cont_t *c, const int32_t *r, int n) {
	uint64_t k, cnt = 0; VP_INPUT(k); VP_NATIVE_ONLY(k &= 7;)        /* the solver-chosen index (logged first, so that every counterexample has an input file) */
	VP_ASSERT(c_size(c) == (uint64_t)n, "size() differs from the reference length");
	VP_ASSERT((c_empty(c) != 0) == (n == 0), "empty() is not (size() == 0)");
#if !IS_STACK
	elem_t *b = c_begin(c), *e = c_end(c);
	VP_ASSERT(c_cbegin(c) == b && c_cend(c) == e && c_data(c) == b && c_cdata(c) == b, "begin()/data() overloads disagree");
	VP_ASSERT(e == b + n, "end() - begin() differs from the reference length");
	for(int i = 0; i < MAXN; i++) if(i < n) {
		ELEM_OK(&b[i]);
		VP_ASSERT(VAL(&b[i]) == r[i], "element i of [begin(), end()) differs from the reference sequence");
	}
	{
		if(k < (uint64_t)n) {
			elem_t *p = c_at(c, k);
			VP_ASSERT(p == b + k && c_cat(c, k) == p, "operator[](k) does not address the k-th slot of the buffer");
		}
		/* the container's own iteration protocol (range-for) */
		int32_t got = (int32_t)c_iterate(c, k, &cnt);
		VP_ASSERT(cnt == (uint64_t)n, "iteration visits a number of elements different from the reference length");
		if(k < (uint64_t)n && k < MAXN) VP_ASSERT(got == r[k], "iteration order differs from the reference sequence");
	}
#endif
#if IS_VEC || IS_SV
	if(n > 0) {
		elem_t *f = c_front(c), *l = c_back(c);
		VP_ASSERT(f == b && c_cfront(c) == f, "front() is not the first element");
		VP_ASSERT(l == b + (n - 1) && c_cback(c) == l, "back() is not the last element");
	}
#endif
#if IS_STACK
	if(n > 0) { elem_t *t = c_top(c); ELEM_OK(t); VP_ASSERT(VAL(t) == r[n - 1], "top() differs from the last element of the reference"); }
#endif
}
static void check_all(void) {
	check_one(&A, refA, lenA);
	if(aliveB) check_one(&B, refB, lenB);
#if IS_VEC
	if(aliveB) {
		int eq = ref_eq();
		VP_ASSERT((c_eq(&A, &B) != 0) == eq, "operator== differs from equality of the reference sequences");
		VP_ASSERT((c_ne(&B, &A) != 0) == !eq, "operator!= is not the negation of operator==");
	} else VP_ASSERT(c_eq(&A, &A) && !c_ne(&A, &A), "operator== is not reflexive");
#endif
	VP_OBSERVE(lenA * 100 + (aliveB ? lenB + 10 : 0));
}
/* a moved-from container is "valid but unspecified": whatever it now reports becomes its reference (it must be self-consistent) */
static void resync(cont_t *c, int32_t *r, int *n) {
	uint64_t s = c_size(c);
	VP_ASSERT(s <= (uint64_t)MAXN, "moved-from container reports more elements than it ever held");
	*n = (int)s;
#if !IS_STACK
	for(int i = 0; i < MAXN; i++) if(i < *n) { elem_t *p = c_at(c, (uint64_t)i); ELEM_OK(p); r[i] = VAL(p); }
#else
	VP_ASSERT(s == 0 || 1, "");   /* stack: only top() is readable; a non-empty moved-from stack keeps its old reference */
#endif
}

/* operation classes (bits of OPMASK) */
#define M_PUSH   0x001u   /* push / push_back / emplace_back, all overloads */
#define M_POP    0x002u
#define M_RESIZE 0x004u   /* resize(LEN), resize(LEN, const T&), resize(LEN, T&&), resize(LEN, ctor-arg) */
#define M_CLEAR  0x008u   /* clear, detach */
#define M_SET    0x010u   /* write through operator[] / top() */
#define M_COPY   0x020u   /* copy-construct B from A, copy-assign both directions, self-assignment */
#define M_MOVE   0x040u   /* move-construct B from A, move-assign both directions */
#define M_SWAP   0x080u
#define M_B      0x100u   /* construct / destroy / push to B */
#define M_CTORN  0x200u   /* dyn_array: destroy A and construct it again with LEN elements */

enum { O_PUSH_C, O_PUSH_M, O_PUSH_BACK_C, O_PUSH_BACK_M, O_EMPLACE, O_POP, O_RESIZE, O_RESIZE_C, O_RESIZE_M, O_RESIZE_I, O_CLEAR, O_DETACH, O_SET,
       O_COPY_B, O_ASSIGN_A_B, O_ASSIGN_B_A, O_SELF_ASSIGN, O_MOVE_B, O_MASSIGN_A_B, O_MASSIGN_B_A, O_SWAP, O_CTOR_B, O_DTOR_B, O_PUSH_B, O_CTORN_A, O_CTORN_B, O_CTORDEF_A, O_CTORDEF_B, O_NOPS };

static void fill(int32_t *r, int from, int to, int32_t x) { for(int i = 0; i < MAXN; i++) if(i >= from && i < to) r[i] = x; }

/* Exploration order matters for the solver: every operation case carries its own continuation (check, next operation, teardown), so
 * CBMC never merges states that differ in SHAPE (sizes, capacities, which block a buffer is) — along each case all sizes are constants
 * and only element values, indices and the choice itself are symbolic.  One query = one formula over all K-operation suffixes. */
static void run(int depth);
static void finish(void);
#define DONE do { check_all(); nops++; run(depth + 1); return; } while(0)
#define PUSHED(call) do { elem_t *p = (call); VP_ASSERT(p == c_data(&A) + lenA, "push returns a reference that is not the new last element"); refA[lenA++] = x; DONE; } while(0)
#define U(v) ((uint32_t)(v))
static void run_op(int depth, int op, int32_t x, int idx, int LEN) {
	if(depth == NSCRIPT) first_op = op;
	const unsigned MASK = depth < NSCRIPT ? 0xFFFFFFFFu : depth == NSCRIPT ? OPMASK0 : OPMASK;   /* the prefix may use every operation */
	switch(op) {
#if IS_VEC
	case O_PUSH_C: VP_PRE((MASK & M_PUSH) && lenA < MAXN); PUSHED(c_push_c(&A, U(x)));
	case O_PUSH_M: VP_PRE((MASK & M_PUSH) && lenA < MAXN); PUSHED(c_push_m(&A, U(x)));
#endif
#if IS_VEC || IS_SV
	case O_PUSH_BACK_C: VP_PRE((MASK & M_PUSH) && lenA < MAXN); PUSHED(c_push_back_c(&A, U(x)));
	case O_PUSH_BACK_M: VP_PRE((MASK & M_PUSH) && lenA < MAXN); PUSHED(c_push_back_m(&A, U(x)));
	case O_EMPLACE: VP_PRE((MASK & M_PUSH) && lenA < MAXN); PUSHED(c_emplace_back(&A, U(x)));
#endif
#if IS_STACK
	case O_PUSH_C: VP_PRE((MASK & M_PUSH) && lenA < MAXN); c_push_c(&A, U(x)); refA[lenA++] = x; DONE;
	case O_EMPLACE: VP_PRE((MASK & M_PUSH) && lenA < MAXN); c_emplace(&A, U(x)); refA[lenA++] = x; DONE;
#endif
#if IS_VEC
	case O_POP: { VP_PRE((MASK & M_POP) && lenA > 0);
		int32_t r = (int32_t)c_pop(&A); VP_ASSERT(r == refA[lenA - 1], "pop() returns a value different from the last element of the reference"); lenA--; DONE; }
#elif IS_SV
	case O_POP: VP_PRE((MASK & M_POP) && lenA > 0); c_pop_back(&A); lenA--; DONE;
#elif IS_STACK
	case O_POP: VP_PRE((MASK & M_POP) && lenA > 0); c_pop_void(&A); lenA--; DONE;
#endif
#if IS_VEC || IS_SV
	case O_RESIZE: VP_PRE((MASK & M_RESIZE) && LEN <= MAXN); c_resize(&A, LEN); fill(refA, lenA, LEN, 0); lenA = LEN; DONE;
	case O_RESIZE_C: VP_PRE((MASK & M_RESIZE) && LEN <= MAXN); c_resize_c(&A, LEN, U(x)); fill(refA, lenA, LEN, x); lenA = LEN; DONE;
	case O_RESIZE_M: VP_PRE((MASK & M_RESIZE) && LEN <= MAXN); c_resize_m(&A, LEN, U(x)); fill(refA, lenA, LEN, x); lenA = LEN; DONE;
	case O_RESIZE_I: VP_PRE((MASK & M_RESIZE) && LEN <= MAXN); c_resize_i(&A, LEN, U(x)); fill(refA, lenA, LEN, x); lenA = LEN; DONE;
#endif
#if IS_VEC
	case O_CLEAR: VP_PRE(MASK & M_CLEAR); c_clear(&A); lenA = 0; DONE;
	case O_DETACH: {   /* the caller takes the buffer over: it still holds the elements, and the vector is empty and owns nothing */
		VP_PRE(MASK & M_CLEAR);
		elem_t *p = c_data(&A); int n = lenA;
		c_detach(&A);
		for(int i = 0; i < MAXN; i++) if(i < n) { ELEM_OK(&p[i]); VP_ASSERT(VAL(&p[i]) == refA[i], "detach() changed the elements of the detached buffer"); }
		c_release_detached(p, (uint64_t)n); lenA = 0; DONE; }
#endif
#if !IS_STACK
	case O_SET: VP_PRE((MASK & M_SET) && idx >= 0 && idx < lenA); c_set(&A, (uint64_t)idx, U(x)); refA[idx] = x; DONE;
#else
	case O_SET: VP_PRE((MASK & M_SET) && lenA > 0); c_set_top(&A, U(x)); refA[lenA - 1] = x; DONE;
#endif
	case O_COPY_B: VP_PRE((MASK & M_COPY) && !aliveB); c_copy(&B, &A); aliveB = 1; ref_copy(refB, &lenB, refA, lenA); DONE;
	case O_MOVE_B: VP_PRE((MASK & M_MOVE) && !aliveB); c_move(&B, &A); aliveB = 1; ref_copy(refB, &lenB, refA, lenA); resync(&A, refA, &lenA); DONE;
#if IS_VEC || IS_DYN || IS_STACK
	case O_ASSIGN_A_B: VP_PRE((MASK & M_COPY) && aliveB); c_assign_copy(&A, &B); ref_copy(refA, &lenA, refB, lenB); DONE;
	case O_ASSIGN_B_A: VP_PRE((MASK & M_COPY) && aliveB); c_assign_copy(&B, &A); ref_copy(refB, &lenB, refA, lenA); DONE;
	case O_SELF_ASSIGN: VP_PRE(MASK & M_COPY); c_assign_copy(&A, &A); DONE;
	case O_MASSIGN_A_B: VP_PRE((MASK & M_MOVE) && aliveB); c_assign_move(&A, &B); ref_copy(refA, &lenA, refB, lenB); resync(&B, refB, &lenB); DONE;
	case O_MASSIGN_B_A: VP_PRE((MASK & M_MOVE) && aliveB); c_assign_move(&B, &A); ref_copy(refB, &lenB, refA, lenA); resync(&A, refA, &lenA); DONE;
#endif
#if !IS_STACK
	case O_SWAP: VP_PRE((MASK & M_SWAP) && aliveB); c_swap(&A, &B); ref_swap(); DONE;
#endif
	case O_CTOR_B: VP_PRE((MASK & M_B) && !aliveB); c_ctor(&B); aliveB = 1; lenB = 0; DONE;
	case O_DTOR_B: VP_PRE((MASK & M_B) && aliveB); c_dtor(&B); aliveB = 0; lenB = 0; DONE;
#if IS_VEC || IS_SV
	case O_PUSH_B: VP_PRE((MASK & M_B) && aliveB && lenB < MAXN); c_push_back_c(&B, U(x)); refB[lenB++] = x; DONE;
#elif IS_STACK
	case O_PUSH_B: VP_PRE((MASK & M_B) && aliveB && lenB < MAXN); c_push_c(&B, U(x)); refB[lenB++] = x; DONE;
#endif
#if IS_DYN
	case O_CTORN_A: VP_PRE((MASK & M_CTORN) && LEN <= MAXN); c_dtor(&A); c_ctor_n(&A, LEN); fill(refA, 0, LEN, 0); lenA = LEN; DONE;
	case O_CTORN_B: VP_PRE((MASK & M_CTORN) && LEN <= MAXN && !aliveB); c_ctor_n(&B, LEN); aliveB = 1; fill(refB, 0, LEN, 0); lenB = LEN; DONE;
#endif
#if IS_DYN || IS_STACK
	case O_CTORDEF_A: VP_PRE(MASK & M_B); c_dtor(&A); c_ctor_default(&A); lenA = 0; DONE;
	case O_CTORDEF_B: VP_PRE((MASK & M_B) && !aliveB); c_ctor_default(&B); aliveB = 1; lenB = 0; DONE;
#endif
	default: VP_PRE(0);
	}
	skip: run(depth + 1);          /* native random run only: the operation's precondition was false, it is skipped */
}
#define IS_LEN_OP(op) ((op) == O_RESIZE || (op) == O_RESIZE_C || (op) == O_RESIZE_M || (op) == O_RESIZE_I || (op) == O_CTORN_A || (op) == O_CTORN_B)
static void run(int depth) {
	if(depth == NSCRIPT + K) { finish(); return; }
	int op, idx, li = 0; int32_t x; VP_INPUT(x); VP_INPUT(idx);
	VP_NATIVE_ONLY(if(getenv("VP_RANDOM")) idx = (unsigned)idx % (MAXN + 1);)
	if(depth < NSCRIPT) { run_op(depth, SCRIPT_[depth] % 100, x, idx, SCRIPT_[depth] / 100); return; }     /* concrete prefix: fixes the shape */
	VP_INPUT(op); VP_INPUT(li);
	VP_NATIVE_ONLY(if(getenv("VP_RANDOM")) op = (unsigned)op % O_NOPS;)
	VP_ASSUME(op >= 0 && op < O_NOPS);
	int nl = (op == O_RESIZE_C || op == O_RESIZE_M || op == O_RESIZE_I) ? NLENS2 : NLENS;
	VP_NATIVE_ONLY(if(getenv("VP_RANDOM")) li = (unsigned)li % nl;)
	VP_ASSUME(li >= 0 && li < nl);
	if(op == O_RESIZE_C || op == O_RESIZE_M || op == O_RESIZE_I) { for(int j = 0; j < NLENS2; j++) if(li == j) { run_op(depth, op, x, idx, LENS2_[j]); return; } }
	else if(IS_LEN_OP(op)) { for(int j = 0; j < NLENS; j++) if(li == j) { run_op(depth, op, x, idx, LENS_[j]); return; } }
	else run_op(depth, op, x, idx, 0);
}
#ifdef __CPROVER__
/* --slice-formula drops assignments no assertion depends on — including the input log the runner reads counterexamples from.
 * This (always reachable) witness depends on every logged input and so keeps the log in the formula and in every trace. */
static void c13_keep_inputs(void) { uint64_t h = 0; for(int i = 0; i < vp_in_n; i++) h += vp_in_log[i]; VP_WITNESS(h != 0x5EEDu, "input log kept in the sliced formula"); }
#else
static void c13_keep_inputs(void) { }
#endif
static void finish(void) {
	c13_keep_inputs();
	VP_WITNESS(nops < NSCRIPT + K, "the concrete prefix and K solver-chosen operations were executed");
	/* non-vacuity per operation: every operation the shape model expects to be applicable after the prefix (-DEXPECT_OPS, bit = operation code)
	 * must really be executed by some history; an operation that silently never runs makes the check BROKEN, not green */
#if EXPECT_OPS & (1u << 0)
	VP_WITNESS(first_op != 0, "a history whose first solver-chosen operation is PUSH_C runs to the end");
#endif
#if EXPECT_OPS & (1u << 1)
	VP_WITNESS(first_op != 1, "a history whose first solver-chosen operation is PUSH_M runs to the end");
#endif
#if EXPECT_OPS & (1u << 2)
	VP_WITNESS(first_op != 2, "a history whose first solver-chosen operation is PUSH_BACK_C runs to the end");
#endif
#if EXPECT_OPS & (1u << 3)
	VP_WITNESS(first_op != 3, "a history whose first solver-chosen operation is PUSH_BACK_M runs to the end");
#endif
#if EXPECT_OPS & (1u << 4)
	VP_WITNESS(first_op != 4, "a history whose first solver-chosen operation is EMPLACE runs to the end");
#endif
#if EXPECT_OPS & (1u << 5)
	VP_WITNESS(first_op != 5, "a history whose first solver-chosen operation is POP runs to the end");
#endif
#if EXPECT_OPS & (1u << 6)
	VP_WITNESS(first_op != 6, "a history whose first solver-chosen operation is RESIZE runs to the end");
#endif
#if EXPECT_OPS & (1u << 7)
	VP_WITNESS(first_op != 7, "a history whose first solver-chosen operation is RESIZE_C runs to the end");
#endif
#if EXPECT_OPS & (1u << 8)
	VP_WITNESS(first_op != 8, "a history whose first solver-chosen operation is RESIZE_M runs to the end");
#endif
#if EXPECT_OPS & (1u << 9)
	VP_WITNESS(first_op != 9, "a history whose first solver-chosen operation is RESIZE_I runs to the end");
#endif
#if EXPECT_OPS & (1u << 10)
	VP_WITNESS(first_op != 10, "a history whose first solver-chosen operation is CLEAR runs to the end");
#endif
#if EXPECT_OPS & (1u << 11)
	VP_WITNESS(first_op != 11, "a history whose first solver-chosen operation is DETACH runs to the end");
#endif
#if EXPECT_OPS & (1u << 12)
	VP_WITNESS(first_op != 12, "a history whose first solver-chosen operation is SET runs to the end");
#endif
#if EXPECT_OPS & (1u << 13)
	VP_WITNESS(first_op != 13, "a history whose first solver-chosen operation is COPY_B runs to the end");
#endif
#if EXPECT_OPS & (1u << 14)
	VP_WITNESS(first_op != 14, "a history whose first solver-chosen operation is ASSIGN_A_B runs to the end");
#endif
#if EXPECT_OPS & (1u << 15)
	VP_WITNESS(first_op != 15, "a history whose first solver-chosen operation is ASSIGN_B_A runs to the end");
#endif
#if EXPECT_OPS & (1u << 16)
	VP_WITNESS(first_op != 16, "a history whose first solver-chosen operation is SELF_ASSIGN runs to the end");
#endif
#if EXPECT_OPS & (1u << 17)
	VP_WITNESS(first_op != 17, "a history whose first solver-chosen operation is MOVE_B runs to the end");
#endif
#if EXPECT_OPS & (1u << 18)
	VP_WITNESS(first_op != 18, "a history whose first solver-chosen operation is MASSIGN_A_B runs to the end");
#endif
#if EXPECT_OPS & (1u << 19)
	VP_WITNESS(first_op != 19, "a history whose first solver-chosen operation is MASSIGN_B_A runs to the end");
#endif
#if EXPECT_OPS & (1u << 20)
	VP_WITNESS(first_op != 20, "a history whose first solver-chosen operation is SWAP runs to the end");
#endif
#if EXPECT_OPS & (1u << 21)
	VP_WITNESS(first_op != 21, "a history whose first solver-chosen operation is CTOR_B runs to the end");
#endif
#if EXPECT_OPS & (1u << 22)
	VP_WITNESS(first_op != 22, "a history whose first solver-chosen operation is DTOR_B runs to the end");
#endif
#if EXPECT_OPS & (1u << 23)
	VP_WITNESS(first_op != 23, "a history whose first solver-chosen operation is PUSH_B runs to the end");
#endif
#if EXPECT_OPS & (1u << 24)
	VP_WITNESS(first_op != 24, "a history whose first solver-chosen operation is CTORN_A runs to the end");
#endif
#if EXPECT_OPS & (1u << 25)
	VP_WITNESS(first_op != 25, "a history whose first solver-chosen operation is CTORN_B runs to the end");
#endif
#if EXPECT_OPS & (1u << 26)
	VP_WITNESS(first_op != 26, "a history whose first solver-chosen operation is CTORDEF_A runs to the end");
#endif
#if EXPECT_OPS & (1u << 27)
	VP_WITNESS(first_op != 27, "a history whose first solver-chosen operation is CTORDEF_B runs to the end");
#endif
	/* end of scope: owners are destroyed; nothing they created may remain alive or allocated (C16) */
	if(aliveB) { c_dtor(&B); aliveB = 0; }
	c_dtor(&A);
	vp_end();
#ifdef __CPROVER__
	__CPROVER_assume(0);      /* this history is complete: drop its state instead of merging it with the other cases at the function exits */
#endif
}
void harness(void) {
	vp_region(&A, sizeof A); vp_region(&B, sizeof B);     /* inline storage (small_vector) is tracked raw storage as well */
	c_ctor(&A);
	check_all();
	run(0);
}
