/* C19 — the shared part of the oracle: an output is described as a LAYOUT (pieces of: leading spaces, sign, prefix, zeros, body
 * characters, trailing spaces); the sink of the library under test calls c19_put() for every byte it appends and the byte is
 * compared on the spot with ref_at(position).  No output arrays with solver-chosen indices (measured: 5-20x cheaper). */
#ifndef C19_REF_H
#define C19_REF_H
#ifndef DMAX
#define DMAX 1000        /* radix-10 digit kernel bound: |value| < DMAX (plus the concrete boundary values) */
#endif
/* layout of one piece of output: lead x ' ', sign (0/1), prefix, nzero x '0', nbody body characters, trail x ' ' */
struct piece {
	int lead, nzero, nbody, trail, plen;
	char sign, pfx0, pfx1;
	int kind;            /* body: 0 = body[i], 1 = digits, least significant first: body[nbody-1-i] */
	char body[64];
};
static int piece_len(const struct piece *p) { return p->lead + (p->sign ? 1 : 0) + p->plen + p->nzero + p->nbody + p->trail; }
static void piece_clear(struct piece *p) { p->lead = p->nzero = p->nbody = p->trail = p->plen = 0; p->sign = p->pfx0 = p->pfx1 = 0; p->kind = 0; }
static void piece_char(struct piece *p, char c) { piece_clear(p); p->nbody = 1; p->body[0] = c; }

/* radix-10 digits of a magnitude; its own function so that the loop can be given its own unwinding bound */
static int ref_dec(char *dig, uint64_t mag) { int nd = 0; while(mag) { dig[nd++] = (char)('0' + mag % 10); mag /= 10; } return nd; }
#if DMAX <= 65536
static int ref_dec_small(char *dig, uint16_t mag) { int nd = 0; while(mag) { dig[nd++] = (char)('0' + mag % 10); mag /= 10; } return nd; }
#endif

/* a number given as magnitude + sign: [spaces] [sign] [prefix] [zero padding] [precision zeros] digits [spaces] */
static void ref_number(struct piece *p, uint64_t mag, int small, int radix, int upper, char sign, char pfx0, char pfx1,
		int width, int left, int zeropad, int mindig, int force_octal_zero) {
	const char *lower = "0123456789abcdef", *upperd = "0123456789ABCDEF";
	int nd = 0;
	piece_clear(p); p->kind = 1;
	switch(radix) {
	case 8: while(mag) { p->body[nd++] = lower[mag & 7]; mag >>= 3; } break;
	case 16: while(mag) { p->body[nd++] = (upper ? upperd : lower)[mag & 15]; mag >>= 4; } break;
	case 2: while(mag) { p->body[nd++] = lower[mag & 1]; mag >>= 1; } break;
	default:
#if DMAX <= 65536
		if(small) nd = ref_dec_small(p->body, (uint16_t)mag); else
#endif
		nd = ref_dec(p->body, mag);
		break;
	}
	int zeros = nd < mindig ? mindig - nd : 0;                              /* value 0 has no digits of its own: precision 0 => no characters, default precision 1 => "0" */
	if(force_octal_zero && zeros == 0) zeros = 1;                           /* '#' for o: "increases the precision, if and only if necessary, to force the first digit of the result to be a zero" */
	p->sign = sign; p->pfx0 = pfx0; p->pfx1 = pfx1; p->plen = pfx0 ? 2 : 0;
	int body = (sign ? 1 : 0) + p->plen + zeros + nd;
	int pad = width > body ? width - body : 0;
	p->nbody = nd;
	p->lead = (!left && !zeropad) ? pad : 0;
	p->nzero = zeros + ((!left && zeropad) ? pad : 0);                      /* "leading zeros (following any indication of sign or base) are used to pad to the field width" */
	p->trail = left ? pad : 0;
}

/* the expected output stream: up to 7 pieces (separator, directive, separator, ...).  ref_finish() turns the piece lengths into absolute
 * segment ends (8-bit: every admissible output is shorter than 256 bytes, asserted), so that looking up the byte expected at a
 * solver-chosen position costs six narrow comparisons and one table read */
#define NPIECE 7
static struct piece PC[NPIECE]; static int npiece;
static uint8_t seg_end[NPIECE][6]; static int ref_len;
static int ref_finish(void) {
	int t = 0;
	for(int k = 0; k < NPIECE; k++) if(k < npiece) {
		const struct piece *p = &PC[k];
		t += p->lead; seg_end[k][0] = (uint8_t)t;
		t += p->sign ? 1 : 0; seg_end[k][1] = (uint8_t)t;
		t += p->plen; seg_end[k][2] = (uint8_t)t;
		t += p->nzero; seg_end[k][3] = (uint8_t)t;
		t += p->nbody; seg_end[k][4] = (uint8_t)t;
		t += p->trail; seg_end[k][5] = (uint8_t)t;
	}
	ref_len = t;
	return t;
}
static int ref_total(void) { return ref_len; }
static int ref_at(int pos) {
	if(pos < 0 || pos >= ref_len) return -1;
	uint8_t i = (uint8_t)pos;
	for(int k = 0; k < NPIECE; k++) if(k < npiece && i < seg_end[k][5]) {
		const struct piece *p = &PC[k]; const uint8_t *e = seg_end[k];
		if(i < e[0]) return ' ';
		if(i < e[1]) return (unsigned char)p->sign;
		if(i < e[2]) return (unsigned char)((uint8_t)(i - e[1]) == 0 ? p->pfx0 : p->pfx1);
		if(i < e[3]) return '0';
		if(i < e[4]) { uint8_t j = p->kind ? (uint8_t)(e[4] - 1 - i) : (uint8_t)(i - e[3]); return (unsigned char)p->body[j & 63]; }
		return ' ';
	}
	return -1;
}

#ifndef C19_XCHECK
/* the sink of the library under test: every byte is compared with the oracle's byte at the same position */
static int nput; static uint32_t put_hash;
void c19_put(uint32_t c) {
	VP_ASSERT((int)c == ref_at(nput), "output byte equals the specified byte at its position (and no byte beyond the specified length)");
	nput++; put_hash = put_hash * 31 + c;
}
#define CHECK_LENGTH(n, what) do { VP_ASSERT((n) == nput, "harness: sink saw every byte"); VP_ASSERT(nput == ref_total(), what); } while(0)
#define OBSERVE_OUT() do { VP_OBSERVE(nput); VP_OBSERVE(put_hash); } while(0)

#endif
#endif
