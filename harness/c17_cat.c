/* C17 / C16 — element type categories: move-only and copy-only element types held by optional / expected / variant / tuple /
 * manual_box.  One fixed scenario per holder (-DSCEN=k or solver-chosen), values solver-chosen; the accessor results are compared with
 * the reference values and the lifetime registry must balance when the scenario's holders have gone out of scope. */
#define UNIT_H "c17_cat.h"
#include "c17_common.h"
#define NSCEN 6
void harness(void) {
	int scen; int32_t a, b, c; uint32_t out[12]; int32_t exp[12]; int n = 0, e;
	VP_INPUT(scen); VP_INPUT(a); VP_INPUT(b); VP_INPUT(c);
	VP_NATIVE_ONLY(if(getenv("VP_RANDOM")) scen = (unsigned)scen % NSCEN;)
	VP_ASSUME(scen >= 0 && scen < NSCEN);
#ifdef SCEN
	VP_ASSUME(scen == SCEN);
#endif
	for(int i = 0; i < 12; i++) { out[i] = 0x55555555u; exp[i] = 0; }
	e = 1 + ((uint32_t)c & 1);                 /* an error code: 1 or 2 */
	switch(scen) {
	case 0: cat_optional_mo(a, b, out); n = 9; { int32_t x[9] = {1, a, 1, a, b, 0, b, a, 0}; for(int i = 0; i < 9; i++) exp[i] = x[i]; } VP_WITNESS(0, "optional<move-only>"); break;
	case 1: cat_optional_co(a, b, out); n = 9; { int32_t x[9] = {1, a, a, a, a, b, b, 0, 1}; for(int i = 0; i < 9; i++) exp[i] = x[i]; } VP_WITNESS(0, "optional<copy-only>"); break;
	case 2: cat_expected_mo(a, e, out); n = 9; { int32_t x[9] = {1, a, 0, e, a, 1, a, e, a}; for(int i = 0; i < 9; i++) exp[i] = x[i]; } VP_WITNESS(0, "expected<E, move-only>"); break;
	case 3: cat_variant_mo(a, b, out); n = 9; { int32_t x[9] = {1, a, a, 1, b, b, b, 0, 0}; for(int i = 0; i < 9; i++) exp[i] = x[i]; } VP_WITNESS(0, "variant<move-only, B>"); break;
	case 4: cat_tuple_mixed(a, b, c, out); n = 12; { int32_t x[12] = {a, b, c, a, b, c, c, c, a, b, c, b}; for(int i = 0; i < 12; i++) exp[i] = x[i]; } VP_WITNESS(0, "tuple<move-only, int, copy-only>"); break;
	case 5: cat_box_mo(a, b, out); n = 5; { int32_t x[5] = {0, 1, a, b, 0}; for(int i = 0; i < 5; i++) exp[i] = x[i]; } VP_WITNESS(0, "manual_box<move-only>"); break;
	default: VP_ASSUME(0);
	}
	for(int i = 0; i < 12; i++) if(i < n) { VP_ASSERT((int32_t)out[i] == exp[i], "element-category scenario: an accessor result differs from the reference (state or value lost with a move-only / copy-only element type)"); VP_OBSERVE(out[i]); }
	vp_end();
}
