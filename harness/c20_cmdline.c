/* C20 — frg::parse_arguments (kernel command lines) and frg::string_view::to_number<T>.
 * Inputs live in EXACT-SIZE heap objects without a terminator.  Asserted: every read stays inside the buffer (CBMC pointer
 * checks / ASan), every string_view handed to an option callback lies inside the buffer, only the option targets are
 * written (guard words), no UB ("UB: ..." assertions of ir2c --ub-checks), termination (unwinding assertions).
 * A stop through the library's assertion hook is admissible. */
#include "vp.h"
/* VP_PANIC_STOP of vp.h (a stop through the library's assertion hook is admissible), plus a reachability witness for it */
int vp_stopped;
void frg_panic(uint8_t *m) { (void)m; VP_WITNESS(0, "stop through the assertion hook"); vp_stopped = 1; VP_STOP(); }
void ir2c_trap_hook(void) { vp_stopped = 1; VP_STOP(); }
#include "c20_cmdline.h"
#include "c20_cases.h"
#ifndef VP_NATIVE
void *malloc(__CPROVER_size_t);
#endif
#ifndef LEN
#define LEN 3
#endif
#ifndef TABLE
#define TABLE 1
#endif
#define G_LO 0x1111111111111111ULL
#define G_HI 0x2222222222222222ULL

typedef struct S_struct_c20_targets targets;   /* f0 guard_lo, f1 flag, f2 num, f3 str {f0 ptr, f1 len}, f4 guard_hi */
targets TG;
uint8_t *c20_buf; uint64_t c20_len;
int c20_nviews;

static int c20_inside(const uint8_t *p, uint64_t n) {   /* [p, p+n) lies inside the command-line buffer */
#ifdef VP_NATIVE
	return (uintptr_t)p >= (uintptr_t)c20_buf && n <= c20_len && (uintptr_t)p - (uintptr_t)c20_buf <= c20_len - n;
#else
	return __CPROVER_same_object(p, c20_buf) && n <= c20_len && (uint64_t)__CPROVER_POINTER_OFFSET(p) <= c20_len - n;
#endif
}
void vp_opt_view(uint32_t which, uint8_t *p, uint64_t n) {
	c20_nviews++;
	if(which == 1) VP_ASSERT(n == 0, "a flag option is applied with an empty view");
	else VP_ASSERT(c20_inside(p, n), "string_view handed to an option callback lies inside the command-line buffer");
	VP_OBSERVE(which); VP_OBSERVE(n); VP_NATIVE_ONLY(if(which != 1) VP_OBSERVE(p - c20_buf));
	VP_WITNESS(0, "an option callback was invoked");
}
static void c20_parse(void) {
	TG.f0 = G_LO; TG.f4 = G_HI; TG.f1 = 0; TG.f2 = -1; TG.f3.f0 = 0; TG.f3.f1 = 0;
#if TABLE == 1
	c20_cmdline_t1(c20_buf, c20_len, &TG);
	VP_WITNESS(!TG.f1, "table 1: flag a was set"); VP_WITNESS(TG.f2 == (uint32_t)-1, "table 1: number b was stored");
#elif TABLE == 2
	c20_cmdline_t2(c20_buf, c20_len, &TG);
	VP_ASSERT(TG.f3.f0 == 0 ? TG.f3.f1 == 0 : c20_inside(TG.f3.f0, TG.f3.f1), "string_view stored by as_string_view lies inside the command-line buffer");
	VP_WITNESS(TG.f3.f0 == 0, "table 2: string a was stored"); VP_WITNESS(!TG.f1, "table 2: flag ab was set");
	VP_NATIVE_ONLY(if(TG.f3.f0) { VP_OBSERVE(TG.f3.f0 - c20_buf); }) VP_OBSERVE(TG.f3.f1);
#else
	c20_cmdline_t3(c20_buf, c20_len, &TG);
#endif
	VP_ASSERT(TG.f0 == G_LO && TG.f4 == G_HI, "parse_arguments wrote outside the option targets");
	VP_OBSERVE(TG.f1); VP_OBSERVE(TG.f2); VP_OBSERVE(c20_nviews);
	VP_WITNESS(0, "parse_arguments completed");
}

/* (1) every byte string of length LEN (one query per length and option table) */
void harness_cmdline(void) {
	c20_buf = (uint8_t *)malloc(LEN); c20_len = LEN;
	for(int i = 0; i < LEN; i++) VP_INPUT(c20_buf[i]);
	c20_parse();
}

/* (1b) every string of length LEN over the reduced alphabet of the syntactically relevant characters
 *   '"'  ' '  '='  'a'  'b'  '1' (a digit, for the number option)  'x' (any other byte),
 * each byte made CONCRETE per path (path split in the harness): single-path mode does not prune infeasible branches, and with
 * symbolic bytes every re-read of a byte by find_first/operator==/to_number forks again (LEN 5 symbolic: > 26 000 paths, no
 * verdict in 10 min).  -DB0=k fixes byte 0 to alphabet[k] to spread one length over several queries. */
static int c20_concretize(int v, int lo, int hi) { for(int k = lo; k < hi; k++) if(v == k) return k; return hi; }
void harness_cmdline_alpha(void) {
	static const uint8_t alpha[7] = { '"', ' ', '=', 'a', 'b', '1', 'x' };
	c20_buf = (uint8_t *)malloc(LEN); c20_len = LEN;
	for(int i = 0; i < LEN; i++) {
		int k; VP_INPUT_RANGE(k, 0, 6);
#ifdef B0
		if(i == 0) { VP_ASSUME(k == B0); k = B0; } else
#endif
		k = c20_concretize(k, 0, 6);
		c20_buf[i] = alpha[k];
	}
	c20_parse();
}

/* (1c) concrete command lines of realistic length in exact-size buffers (single path, everything folds) */
#ifndef CASE
#define CASE 0
#endif
void harness_concrete(void) {
	const char *f = c20_cmdline_cases[CASE];      /* table generated from props/C20.py (c20_cases.h) */
	int len = 0; while(f[len]) len++;
	int dummy; VP_INPUT(dummy);
	c20_buf = (uint8_t *)malloc(len); c20_len = (uint64_t)len;
	for(int i = 0; i < len; i++) c20_buf[i] = (uint8_t)f[i];
	c20_parse();
}

/* (2) to_number<T> on every byte string of length LEN; TY 0: int, 1: unsigned, 2: long, 3: uint64_t */
#ifndef TY
#define TY 0
#endif
void harness_tonum(void) {
	c20_buf = (uint8_t *)malloc(LEN); c20_len = LEN;
	for(int i = 0; i < LEN; i++) VP_INPUT(c20_buf[i]);
#ifdef DIGITS_ONLY
	for(int i = 0; i < LEN; i++) VP_ASSUME(c20_buf[i] >= '0' && c20_buf[i] <= '9');
#endif
	uint64_t out = 0; int ok;
#if TY == 0
	uint32_t o32 = 0; ok = (int)c20_tonum_int(c20_buf, LEN, &o32); out = o32;
#elif TY == 1
	uint32_t o32 = 0; ok = (int)c20_tonum_uint(c20_buf, LEN, &o32); out = o32;
#elif TY == 2
	ok = (int)c20_tonum_long(c20_buf, LEN, &out);
#else
	ok = (int)c20_tonum_u64(c20_buf, LEN, &out);
#endif
	VP_OBSERVE(ok); VP_OBSERVE(out);
	VP_WITNESS(!ok, "to_number returned a value"); VP_WITNESS(ok, "to_number returned null_opt");
}

/* translator validation (compares the two builds; PADDED buffers so that a stray read is benign and identical in both) */
void harness_validate_cmdline(void) {
	static const char alpha[] = "\"\"  ==aabb12 x";
	static uint8_t fbuf[64];
	int n; VP_INPUT_RANGE(n, 0, 12);
	for(int i = 0; i < 64; i++) fbuf[i] = (uint8_t)" \"="[i % 3];      /* padding in which any over-reading search stops at once */
	for(int i = 0; i < n; i++) { int k; VP_INPUT_RANGE(k, 0, (int)sizeof alpha - 2); fbuf[i] = (uint8_t)alpha[k]; }
	c20_buf = fbuf; c20_len = (uint64_t)n;
	c20_parse();
}
void harness_validate_tonum(void) {
	static uint8_t fbuf[64];
	int n; VP_INPUT_RANGE(n, 0, 20);
	for(int i = 0; i < 64; i++) fbuf[i] = 'x';
	for(int i = 0; i < n; i++) { int k; VP_INPUT_RANGE(k, 0, 10); fbuf[i] = (uint8_t)(k < 10 ? '0' + k : 'x'); }
	uint32_t a = 0, b = 0; uint64_t c = 0, d = 0;
	int r0 = (int)c20_tonum_int(fbuf, (uint64_t)n, &a); VP_OBSERVE(r0); VP_OBSERVE(a);
	int r1 = (int)c20_tonum_uint(fbuf, (uint64_t)n, &b); VP_OBSERVE(r1); VP_OBSERVE(b);
	int r2 = (int)c20_tonum_long(fbuf, (uint64_t)n, &c); VP_OBSERVE(r2); VP_OBSERVE(c);
	int r3 = (int)c20_tonum_u64(fbuf, (uint64_t)n, &d); VP_OBSERVE(r3); VP_OBSERVE(d);
}
