/* C11 — quiescent-state domain: whole-operation schedules (solver-chosen) with ghost grace-period bookkeeping.
 *  -DNA=<agents 2|3> -DNB=<barrier nodes 1|2> -DK=<steps>; -DLIVENESS: after the symbolic prefix, R full rounds
 *  (every online agent reports a quiescent state, every agent calls run()) must fire every registered callback.
 *  Each barrier node is a heap object that its callback frees: any later library access to it is a use-after-free
 *  for CBMC (and for ASan in the native replay). */
#define VP_PANIC_VIOLATION
#include "vp.h"
#include <stdlib.h>
#include "c11.h"
typedef struct S_struct_frg__qs_domain dom_t; typedef struct S_struct_frg__qs_agent agent_t; typedef struct S_struct_frg__qs_node node_t;
#ifndef NA
#define NA 2
#endif
#ifndef NB
#define NB 1
#endif
#ifndef K
#define K 4
#endif
#ifndef ROUNDS
#define ROUNDS 4
#endif
dom_t D; agent_t A0, A1, A2;
static agent_t *ag(int i) { return i == 0 ? &A0 : i == 1 ? &A1 : &A2; }
node_t *Nd[2];
int online[3], registered[2], fired[2], reg_agent[2], in_run_of = -1;
int need[2][3];        /* need[b][i]: agent i was online when barrier b was registered and has not been in quiescent_state() / offline since */

/* instrumented mutex (non-recursive): protocol assertions + balance */
#ifdef FINE2      /* no CBMC threads in the one-preemption harness: atomic sections are not needed (and must not nest) */
#define __CPROVER_atomic_begin() ((void)0)
#define __CPROVER_atomic_end() ((void)0)
#endif
int concurrent_phase;   /* while two threads run, lock() blocks (assume) instead of flagging a held mutex */
#ifdef FINE2
static void maybe_preempt(void);
#define PREEMPT_POINT() maybe_preempt()      /* lock and unlock operations are preemption points too */
#else
#define PREEMPT_POINT() ((void)0)
#endif
void vp_qs_lock(uint8_t *m) { struct S_struct_qmutex *q = (struct S_struct_qmutex *)m;
	PREEMPT_POINT();
	__CPROVER_atomic_begin();
	if(concurrent_phase) VP_ASSUME(!q->f0); else VP_ASSERT(!q->f0, "lock() on a mutex the caller already holds (self-deadlock on a non-recursive mutex)");
	q->f0 = 1;
	__CPROVER_atomic_end(); }
void vp_qs_unlock(uint8_t *m) { struct S_struct_qmutex *q = (struct S_struct_qmutex *)m; __CPROVER_atomic_begin(); VP_ASSERT(q->f0, "unlock() of a mutex that is not held"); q->f0 = 0; __CPROVER_atomic_end(); PREEMPT_POINT(); }

static int which(node_t *n) { return n == Nd[0] ? 0 : (NB > 1 && n == Nd[1]) ? 1 : -1; }
void cb(node_t *n) {
	int b = which(n);
	VP_ASSERT(b >= 0, "callback invoked with a node that was never registered");
	if(b < 0) return;
	VP_ASSERT(registered[b], "callback of a barrier that is not registered");
	fired[b]++;
	VP_ASSERT(fired[b] == 1, "callback invoked more than once");
	VP_ASSERT(in_run_of == reg_agent[b], "callback invoked outside the registering agent's run()");
	for(int i = 0; i < NA; i++) VP_ASSERT(!need[b][i], "callback before an agent that was online at registration has been in quiescent_state() or gone offline (grace period not complete)");
	free(n);      /* the owner may reclaim the node as soon as the callback starts */
}
static void after_call(void) { if(!concurrent_phase) VP_ASSERT(D.f0.f0 == 0, "domain mutex still held after the call returned (unbalanced lock/unlock)"); }
static void do_qs(int a) { for(int b = 0; b < NB; b++) need[b][a] = 0; agent_qs(ag(a)); after_call(); }      /* ghost: "has been inside quiescent_state()" = entered it */
static void do_run(int a) { in_run_of = a; agent_run(ag(a)); in_run_of = -1; after_call(); }
static int pending_of(int a) { int p = 0; for(int b = 0; b < NB; b++) if(registered[b] && !fired[b] && reg_agent[b] == a) p = 1; return p; }

void harness(void) {
	dom_init(&D);
	for(int i = 0; i < NA; i++) { agent_init(ag(i), &D); online[i] = 1; after_call(); }
	for(int b = 0; b < NB; b++) { Nd[b] = (node_t *)malloc(sizeof(node_t)); VP_ASSUME(Nd[b] != 0); node_init(Nd[b], (fnptr_0)cb); }
	int steps = 0;
	for(int step = 0; step < K; step++) {
		int a, op, b; VP_INPUT(a); VP_INPUT(op); VP_INPUT(b);
		VP_NATIVE_ONLY(if(getenv("VP_RANDOM")) { a = (unsigned)a % NA; op = (unsigned)op % 5; b = (unsigned)b % NB; })
		VP_ASSUME(a >= 0 && a < NA && op >= 0 && op < 5 && b >= 0 && b < NB);
		switch(op) {
		case 0: VP_PRE_OR(online[a], continue); do_qs(a); break;
		case 1: VP_PRE_OR(online[a] && !registered[b], continue);
			agent_await(ag(a), Nd[b]); registered[b] = 1; reg_agent[b] = a; for(int i = 0; i < NA; i++) need[b][i] = online[i]; after_call(); break;
		case 2: do_run(a); break;
		case 3: VP_PRE_OR(online[a] && !pending_of(a) && ag(a)->f2 == 0, continue);      /* offline(): not while this agent deferred a period (library TODO, asserted) */
			for(int bb = 0; bb < NB; bb++) need[bb][a] = 0; agent_offline(ag(a)); online[a] = 0; after_call(); break;
		case 4: VP_PRE_OR(!online[a], continue); agent_online(ag(a)); online[a] = 1; after_call(); break;
		}
		steps++;
		VP_OBSERVE(D.f1.f0.f0 * 100 + fired[0] * 10 + (NB > 1 ? fired[1] : 0));
	}
#ifdef LIVENESS
	/* bounded liveness: all online agents keep reporting quiescent states and everybody keeps calling run() */
	for(int r = 0; r < ROUNDS; r++) {
		for(int i = 0; i < NA; i++) if(online[i]) do_qs(i);
		for(int i = 0; i < NA; i++) do_run(i);
	}
	for(int b = 0; b < NB; b++) if(registered[b]) VP_ASSERT(fired[b] == 1, "a registered callback was not invoked although every online agent kept reporting quiescent states and the registering agent kept calling run() (grace period lost)");
	VP_WITNESS(!(registered[0] && fired[0]), "a barrier was registered and fired in the liveness phase");
#else
	VP_WITNESS(!fired[0], "the callback can fire inside the schedule");
	VP_WITNESS(steps < K, "K steps executed");
#endif
}

/* single-agent quiescent_barrier(): must return (it drives quiescent_state itself) and only after the grace period */
void harness_barrier1(void) {
	dom_init(&D); agent_init(&A0, &D);
	int pre; VP_INPUT(pre); VP_ASSUME(pre >= 0 && pre <= 3);
	for(int i = 0; i < 3; i++) if(i < pre) agent_qs(&A0);
	uint64_t c0 = D.f1.f0.f0;
	agent_barrier(&A0);
	VP_ASSERT(D.f1.f0.f0 >= c0 + 2, "quiescent_barrier returned before two period advances");
	after_call();
	VP_WITNESS(0, "barrier returned");
}

/* ------------------------------------------------------------------------------------------------------------------
 * fine-grained: a solver-chosen sequential prefix, then TWO agents perform one operation each CONCURRENTLY (all
 * interleavings of their atomic accesses and lock operations), then a solver-chosen sequential suffix.
 *  -DNON=<agents initially online> -DK1=<prefix> -DK2=<suffix>
 * Ghost rules for the concurrent pair are lenient (never stricter than the property): a quiescent_state()/offline()
 * concurrent with a registration counts as "since", a concurrently joining agent is not required to quiesce. */
#ifndef K1
#define K1 3
#endif
#ifndef K2
#define K2 3
#endif
#ifndef NON
#define NON NA
#endif
int pa[2], pop[2], pb[2], done1;
static int op_pre(int a, int op, int b) {
	switch(op) {
	case 0: return online[a];
	case 1: return online[a] && !registered[b];
	case 2: return 1;
	case 3: return online[a] && !pending_of(a) && ag(a)->f2 == 0;
	case 4: return !online[a];
	}
	return 0;
}
static void op_do(int a, int op, int b, int other_a, int other_op) {
	switch(op) {
	case 0: do_qs(a); break;
	case 1: registered[b] = 1; reg_agent[b] = a;
		for(int i = 0; i < NA; i++) need[b][i] = online[i] && !(i == other_a && (other_op == 0 || other_op == 3));
		agent_await(ag(a), Nd[b]); after_call(); break;
	case 2: do_run(a); break;
	case 3: for(int bb = 0; bb < NB; bb++) need[bb][a] = 0; agent_offline(ag(a)); online[a] = 0; after_call(); break;
	case 4: agent_online(ag(a)); online[a] = 1; after_call(); break;
	}
}
/* the second thread only performs operations that store no pointers (quiescent_state / offline / online): CBMC's concurrency
 * encoding rejects pointer-typed shared variables written by one thread and read by another ("pointer handling for concurrency is
 * unsound"), and await_barrier/run link and unlink list nodes.  Those two run in the first thread of the pair only. */
static void thread1(void) {
	int a = pa[1], op = pop[1];
	if(op == 0) do_qs(a);
	else if(op == 3) { for(int bb = 0; bb < NB; bb++) need[bb][a] = 0; agent_offline(ag(a)); online[a] = 0; }
	else if(op == 4) { agent_online(ag(a)); online[a] = 1; }
	__CPROVER_atomic_begin(); done1 = 1; __CPROVER_atomic_end(); }
static void seq_steps(int n) {
	for(int step = 0; step < n; step++) {
		int a, op, b; VP_INPUT(a); VP_INPUT(op); VP_INPUT(b);
		VP_ASSUME(a >= 0 && a < NA && op >= 0 && op < 5 && b >= 0 && b < NB);
		VP_ASSUME(op_pre(a, op, b));
		op_do(a, op, b, -1, -1);
	}
}
void harness_fine(void) {
	dom_init(&D);
	for(int i = 0; i < NA; i++) { agent_init(ag(i), &D); online[i] = 1; if(i >= NON) { agent_offline(ag(i)); online[i] = 0; } }
	for(int b = 0; b < NB; b++) { Nd[b] = (node_t *)malloc(sizeof(node_t)); VP_ASSUME(Nd[b] != 0); node_init(Nd[b], (fnptr_0)cb); }
	seq_steps(K1);
	for(int t = 0; t < 2; t++) { VP_INPUT(pa[t]); VP_INPUT(pop[t]); VP_INPUT(pb[t]); VP_ASSUME(pa[t] >= 0 && pa[t] < NA && pop[t] >= 0 && pop[t] < 5 && pb[t] >= 0 && pb[t] < NB); VP_ASSUME(op_pre(pa[t], pop[t], pb[t])); }
	VP_ASSUME(pop[1] == 0 || pop[1] == 3 || pop[1] == 4);
	VP_ASSUME(pa[0] != pa[1]);                                   /* two different agents (an agent object is used by one thread at a time) */
	VP_ASSUME(!(pop[0] == 1 && pop[1] == 1 && pb[0] == pb[1]));  /* not the same node registered twice */
#ifdef PAIR_OPS      /* optional pinning of the concurrent pair: -DPAIR_OPS=op0*10+op1 */
	VP_ASSUME(pop[0] * 10 + pop[1] == PAIR_OPS);
#endif
	concurrent_phase = 1;
#ifndef VP_NATIVE
__CPROVER_ASYNC_1: thread1();
#else
	thread1();
#endif
	op_do(pa[0], pop[0], pb[0], pa[1], pop[1]);
	VP_ASSUME(done1);
	concurrent_phase = 0;
	VP_ASSERT(D.f0.f0 == 0, "domain mutex still held after both concurrent calls returned");
	seq_steps(K2);
	VP_WITNESS(!fired[0], "the callback can fire after a concurrent pair");
	VP_WITNESS(0, "end of the fine-grained schedule");
}

/* ------------------------------------------------------------------------------------------------------------------
 * fine-grained WITHOUT threads ("one preemption"): a solver-chosen sequential prefix; then an OUTER operation of agent X during
 * which, at one solver-chosen atomic access or lock operation (event number pre_at, counted by the event hooks the translator
 * emits at every atomic load/store/RMW), a whole operation of another agent Y runs to completion inside the hook; then a
 * solver-chosen suffix.  This explores every interleaving of two library calls in which one of them is atomic with respect to the
 * other, at the granularity of individual atomic accesses and lock operations of the preempted call — enough to expose a value read
 * before a lock is taken and used after it (time-of-check/time-of-use), and it needs no CBMC threads (which reject this code, A.4).
 * The mutex blocks during the preemption (assume): Y cannot enter a section X is inside.  Ghost rules are the lenient ones of above.
 *   -DOUT_OP=<op of X> -DPRE_OP=<op of Y>  (kinds pinned per query, agents / barrier / position solver-chosen)
 * compile with -DIR2C_EVENTS -DIR2C_NO_ATOMIC_SECTIONS -DFINE2 */
#ifdef FINE2
int evt_no, pre_at = -1, pre_a, pre_b, pre_done, out_a, in_outer;
static void maybe_preempt(void) {
	if(!in_outer || pre_done) return;
	if(evt_no++ != pre_at) return;
	pre_done = 1; in_outer = 0; concurrent_phase = 1;
	op_do(pre_a, PRE_OP, pre_b, out_a, OUT_OP);
	concurrent_phase = 0; in_outer = 1;
}
void ir2c_event_fence(const char *o) { (void)o; }
void ir2c_event_load(const void *p, const char *o) { (void)p; (void)o; maybe_preempt(); }
void ir2c_event_store(const void *p, const char *o) { (void)p; (void)o; maybe_preempt(); }
void ir2c_event_rmw(const void *p, const char *o) { (void)p; (void)o; maybe_preempt(); }
void ir2c_event_stored(const void *p, const char *o) { (void)p; (void)o; }
void harness_fine2(void) {
	dom_init(&D);
	for(int i = 0; i < NA; i++) { agent_init(ag(i), &D); online[i] = 1; if(i >= NON) { agent_offline(ag(i)); online[i] = 0; } }
	for(int b = 0; b < NB; b++) { Nd[b] = (node_t *)malloc(sizeof(node_t)); VP_ASSUME(Nd[b] != 0); node_init(Nd[b], (fnptr_0)cb); }
	seq_steps(K1);
	int ob; VP_INPUT(out_a); VP_INPUT(ob); VP_INPUT(pre_a); VP_INPUT(pre_b); VP_INPUT(pre_at);
	VP_ASSUME(out_a >= 0 && out_a < NA && pre_a >= 0 && pre_a < NA && out_a != pre_a && ob >= 0 && ob < NB && pre_b >= 0 && pre_b < NB && pre_at >= 0 && pre_at < 12);
	VP_ASSUME(op_pre(out_a, OUT_OP, ob) && op_pre(pre_a, PRE_OP, pre_b));
	VP_ASSUME(!(OUT_OP == 1 && PRE_OP == 1 && ob == pre_b));
	in_outer = 1;
	op_do(out_a, OUT_OP, ob, pre_a, PRE_OP);
	in_outer = 0;
	VP_ASSUME(pre_done);                         /* the preemption point existed on this path */
	VP_ASSERT(D.f0.f0 == 0, "domain mutex still held after both calls returned");
	seq_steps(K2);
	VP_WITNESS(!fired[0], "the callback can fire after a preempted call");
	VP_WITNESS(0, "end of the one-preemption schedule");
}
#endif
