/* C11 — quiescent-state domain: whole-operation schedules (solver-chosen) with ghost grace-period bookkeeping.
 *  -DNA=<agents 2|3> -DNB=<barrier nodes 1|2> -DK=<steps>; -DLIVENESS: after the symbolic prefix, R full rounds
 *  (every online agent reports a quiescent state, every agent calls run()) must fire every registered callback.
 *  Each barrier node is a heap object that its callback frees: any later library access to it is a use-after-free
 *  for CBMC (and for ASan in the native replay). */
#define VP_PANIC_VIOLATION
#include "vp.h"
#include <stdlib.h>
#include "c11.h"
typedef struct S_struct_frg__qs_domain dom_t; typedef struct S_struct_frg__qs_agent agent_t; typedef struct S_struct_frg__qs_node node_t;
#ifndef NA
#define NA 2
#endif
#ifndef NB
#define NB 1
#endif
#ifndef K
#define K 4
#endif
#ifndef ROUNDS
#define ROUNDS 4
#endif
dom_t D; agent_t A0, A1, A2;
static agent_t *ag(int i) { return i == 0 ? &A0 : i == 1 ? &A1 : &A2; }
node_t *Nd[2];
int online[3], registered[2], fired[2], reg_agent[2], in_run_of = -1;
int need[2][3];        /* need[b][i]: agent i was online when barrier b was registered and has not been in quiescent_state() / offline since */

/* instrumented mutex (non-recursive): protocol assertions + balance */
void vp_qs_lock(uint8_t *m) { struct S_struct_qmutex *q = (struct S_struct_qmutex *)m; VP_ASSERT(!q->f0, "lock() on a mutex the caller already holds (self-deadlock on a non-recursive mutex)"); q->f0 = 1; }
void vp_qs_unlock(uint8_t *m) { struct S_struct_qmutex *q = (struct S_struct_qmutex *)m; VP_ASSERT(q->f0, "unlock() of a mutex that is not held"); q->f0 = 0; }

static int which(node_t *n) { return n == Nd[0] ? 0 : (NB > 1 && n == Nd[1]) ? 1 : -1; }
void cb(node_t *n) {
	int b = which(n);
	VP_ASSERT(b >= 0, "callback invoked with a node that was never registered");
	if(b < 0) return;
	VP_ASSERT(registered[b], "callback of a barrier that is not registered");
	fired[b]++;
	VP_ASSERT(fired[b] == 1, "callback invoked more than once");
	VP_ASSERT(in_run_of == reg_agent[b], "callback invoked outside the registering agent's run()");
	for(int i = 0; i < NA; i++) VP_ASSERT(!need[b][i], "callback before an agent that was online at registration has been in quiescent_state() or gone offline (grace period not complete)");
	free(n);      /* the owner may reclaim the node as soon as the callback starts */
}
static void after_call(void) { VP_ASSERT(D.f0.f0 == 0, "domain mutex still held after the call returned (unbalanced lock/unlock)"); }
static void do_qs(int a) { agent_qs(ag(a)); for(int b = 0; b < NB; b++) need[b][a] = 0; after_call(); }
static void do_run(int a) { in_run_of = a; agent_run(ag(a)); in_run_of = -1; after_call(); }
static int pending_of(int a) { int p = 0; for(int b = 0; b < NB; b++) if(registered[b] && !fired[b] && reg_agent[b] == a) p = 1; return p; }

void harness(void) {
	dom_init(&D);
	for(int i = 0; i < NA; i++) { agent_init(ag(i), &D); online[i] = 1; after_call(); }
	for(int b = 0; b < NB; b++) { Nd[b] = (node_t *)malloc(sizeof(node_t)); VP_ASSUME(Nd[b] != 0); node_init(Nd[b], (fnptr_0)cb); }
	int steps = 0;
	for(int step = 0; step < K; step++) {
		int a, op, b; VP_INPUT(a); VP_INPUT(op); VP_INPUT(b);
		VP_NATIVE_ONLY(if(getenv("VP_RANDOM")) { a = (unsigned)a % NA; op = (unsigned)op % 5; b = (unsigned)b % NB; })
		VP_ASSUME(a >= 0 && a < NA && op >= 0 && op < 5 && b >= 0 && b < NB);
		switch(op) {
		case 0: VP_PRE_OR(online[a], continue); do_qs(a); break;
		case 1: VP_PRE_OR(online[a] && !registered[b], continue);
			agent_await(ag(a), Nd[b]); registered[b] = 1; reg_agent[b] = a; for(int i = 0; i < NA; i++) need[b][i] = online[i]; after_call(); break;
		case 2: do_run(a); break;
		case 3: VP_PRE_OR(online[a] && !pending_of(a) && ag(a)->f2 == 0, continue);      /* offline(): not while this agent deferred a period (library TODO, asserted) */
			agent_offline(ag(a)); online[a] = 0; for(int bb = 0; bb < NB; bb++) need[bb][a] = 0; after_call(); break;
		case 4: VP_PRE_OR(!online[a], continue); agent_online(ag(a)); online[a] = 1; after_call(); break;
		}
		steps++;
		VP_OBSERVE(D.f1.f0.f0 * 100 + fired[0] * 10 + (NB > 1 ? fired[1] : 0));
	}
#ifdef LIVENESS
	/* bounded liveness: all online agents keep reporting quiescent states and everybody keeps calling run() */
	for(int r = 0; r < ROUNDS; r++) {
		for(int i = 0; i < NA; i++) if(online[i]) do_qs(i);
		for(int i = 0; i < NA; i++) do_run(i);
	}
	for(int b = 0; b < NB; b++) if(registered[b]) VP_ASSERT(fired[b] == 1, "a registered callback was not invoked although every online agent kept reporting quiescent states and the registering agent kept calling run() (grace period lost)");
	VP_WITNESS(!(registered[0] && fired[0]), "a barrier was registered and fired in the liveness phase");
#else
	VP_WITNESS(!fired[0], "the callback can fire inside the schedule");
	VP_WITNESS(steps < K, "K steps executed");
#endif
}

/* single-agent quiescent_barrier(): must return (it drives quiescent_state itself) and only after the grace period */
void harness_barrier1(void) {
	dom_init(&D); agent_init(&A0, &D);
	int pre; VP_INPUT(pre); VP_ASSUME(pre >= 0 && pre <= 3);
	for(int i = 0; i < 3; i++) if(i < pre) agent_qs(&A0);
	uint64_t c0 = D.f1.f0.f0;
	agent_barrier(&A0);
	VP_ASSERT(D.f1.f0.f0 >= c0 + 2, "quiescent_barrier returned before two period advances");
	after_call();
	VP_WITNESS(0, "barrier returned");
}
