/* C17 / C16 — frg::manual_box<tracked> (explicit initialize / destruct) and frg::eternal<tracked> (never destroyed).
 * manual_box: bounded history of K solver-chosen operations over two boxes; reference model = (initialized, value).
 * The box is trivially destructible by design: the caller must destruct() before the box goes away, so histories end with
 * destruct() of every initialized box (caller obligation), then vp_end().   -DK=<ops> */
#define UNIT_H "c17_box.h"
#include "c17_common.h"
#ifndef K
#define K 3
#endif
typedef struct S_class_frg__manual_box box_t;
typedef struct S_class_frg__eternal et_t;
box_t H0, H1; et_t E0;
int alive[2], init[2]; int32_t val[2];
static box_t *hp(int s) { return s ? &H1 : &H0; }
#define STOR(s) ((void *)&hp(s)->f0)
#define NOPS 10

static void check_slot(int s) {
	if(!alive[s]) return;
	box_t *h = hp(s); void *p = STOR(s);
	VP_ASSERT(box_valid(h) == init[s], "manual_box::valid() differs from the reference state");
	VP_ASSERT(box_bool(h) == init[s], "manual_box::operator bool differs from the reference state");
	if(init[s]) {
		VP_ASSERT((void *)box_get(h) == p, "manual_box::get() does not designate the object held inside the box");
		VP_ASSERT((void *)box_arrow(h) == p, "manual_box::operator->() does not designate the held object");
		VP_ASSERT((void *)box_deref(h) == p, "manual_box::operator*() does not designate the held object");
		VP_ASSERT(T_STATE(p) == VP_ALIVE, "manual_box: initialized but the held object is not alive");
		VP_ASSERT(T_VAL(p) == val[s] && (int32_t)box_arrow_val(h) == val[s], "manual_box: held value differs from the reference value");
	} else
		VP_ASSERT(T_STATE(p) != VP_ALIVE && T_STATE(p) != VP_MOVED, "manual_box: not initialized but an object is alive in its storage");
}

void harness(void) {
	vp_region(&H0, sizeof H0); vp_region(&H1, sizeof H1);
	int nops = 0;
	for(int step = 0; step < K; step++) {
		int op, s; int32_t v;
		VP_INPUT(op); VP_INPUT(s); VP_INPUT(v);
		VP_NATIVE_ONLY(if(getenv("VP_RANDOM")) { op = (unsigned)op % NOPS; s = (unsigned)s & 1; })
		VP_ASSUME(op >= 0 && op < NOPS && s >= 0 && s <= 1);
		box_t *d = hp(s);
		switch(op) {
		case 0: VP_PRE(!alive[s]); box_ctor(d); alive[s] = 1; init[s] = 0; VP_WITNESS(0, "manual_box()"); break;
		/* initialize / construct_with: documented precondition = not initialized (asserted by the library) */
		case 1: VP_PRE(alive[s] && !init[s]); box_init(d, v); init[s] = 1; val[s] = v; VP_WITNESS(0, "initialize(int)"); break;
		case 2: VP_PRE(alive[s] && !init[s]); box_init_default(d); init[s] = 1; val[s] = 0; VP_WITNESS(0, "initialize()"); break;
		case 3: VP_PRE(alive[s] && !init[s]); box_init_copy(d, v); init[s] = 1; val[s] = v; VP_WITNESS(0, "initialize(const T &)"); break;
		case 4: VP_PRE(alive[s] && !init[s]); box_init_move(d, v); init[s] = 1; val[s] = v; VP_WITNESS(0, "initialize(T &&)"); break;
		case 5: VP_PRE(alive[s] && !init[s]); box_construct_with(d, v); init[s] = 1; val[s] = v; VP_WITNESS(0, "construct_with(f)"); break;
		case 6: VP_PRE(alive[s] && init[s]); box_destruct(d); init[s] = 0; VP_WITNESS(0, "destruct()"); break;
		case 7: VP_PRE(alive[s] && init[s]); box_store(d, v); val[s] = v; VP_WITNESS(0, "assignment through operator*"); break;
		case 8: VP_PRE(alive[s] && !init[s]); box_dtor(d); alive[s] = 0; VP_WITNESS(0, "~manual_box() of an uninitialized box"); break;
		case 9: VP_PRE(alive[s] && init[s]); box_destruct(d); box_init(d, v); val[s] = v; VP_WITNESS(0, "destruct() + initialize() (re-initialization)"); break;
		default: VP_PRE(0);
		}
		check_slot(0); check_slot(1);
		VP_ASSERT(vp_live == (alive[0] && init[0]) + (alive[1] && init[1]), "lifetime: number of live element objects differs from the number of initialized boxes");
		nops++;
		if(0) { skip: ; }
		VP_OBSERVE(alive[0] * 2 + init[0] + 10 * (alive[1] * 2 + init[1])); VP_OBSERVE(vp_live);
		VP_OBSERVE(alive[0] && init[0] ? T_VAL(STOR(0)) : -1); VP_OBSERVE(alive[1] && init[1] ? T_VAL(STOR(1)) : -1);
	}
	for(int s = 0; s < 2; s++) if(alive[s]) { if(init[s]) box_destruct(hp(s)); box_dtor(hp(s)); alive[s] = 0; }
	vp_end();
	VP_WITNESS(nops < K, "K operations executed");
}

/* eternal<T>: constructs T in place, accessors designate it, the destructor is trivial (the object deliberately stays alive) */
void harness_eternal(void) {
	int dflt; int32_t v; VP_INPUT(dflt); VP_INPUT(v);
	vp_region(&E0, sizeof E0);
	void *p = (void *)&E0.f0;
	if(dflt & 1) { et_ctor_default(&E0); v = 0; } else et_ctor(&E0, v);
	VP_ASSERT((void *)et_get(&E0) == p && (void *)et_deref(&E0) == p && (void *)et_arrow(&E0) == p, "eternal: get()/operator*/operator-> do not designate the object held inside");
	VP_ASSERT(T_STATE(p) == VP_ALIVE && T_VAL(p) == v && vp_live == 1, "eternal: held object not alive or wrong value");
	et_dtor(&E0);
	VP_ASSERT(T_STATE(p) == VP_ALIVE && T_VAL(p) == v && vp_live == 1, "eternal: the destructor must not end the held object's lifetime");
	VP_OBSERVE(T_VAL(p)); VP_OBSERVE(vp_live);
	et_kill(&E0);          /* bookkeeping: end the lifetime by hand so that the registry balances */
	vp_end();
	VP_WITNESS(dflt & 1, "eternal(args...)"); VP_WITNESS(!(dflt & 1), "eternal()");
}
