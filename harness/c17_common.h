/* C17 (and the holder part of C16): shared harness prologue.
 *   #define UNIT_H "c17_xxx.h" before including this file.
 * The generated unit header declares the instrumentation hooks with the IR's types (uint8_t *, uint32_t); vp_track.h defines them
 * with (void *, int32_t).  The unit header's *declarations* of the hooks are renamed away here (the generated C is its own
 * translation unit and keeps calling the real symbols). */
#ifndef C17_COMMON_H
#define C17_COMMON_H
#define VP_PANIC_VIOLATION
#include "vp.h"
#define vp_ctor vp_unitdecl_ctor
#define vp_ctor_default vp_unitdecl_ctor_default
#define vp_copy vp_unitdecl_copy
#define vp_move vp_unitdecl_move
#define vp_assign_copy vp_unitdecl_assign_copy
#define vp_assign_move vp_unitdecl_assign_move
#define vp_dtor vp_unitdecl_dtor
#define vp_alloc vp_unitdecl_alloc
#define vp_free vp_unitdecl_free
#define vp_dealloc vp_unitdecl_dealloc
#include UNIT_H
#undef vp_ctor
#undef vp_ctor_default
#undef vp_copy
#undef vp_move
#undef vp_assign_copy
#undef vp_assign_move
#undef vp_dtor
#undef vp_alloc
#undef vp_free
#undef vp_dealloc
/* native build of the generated C (no ASan quarantine): malloc would hand a released address out again and the block registry,
 * which is keyed by address, would see the old entry; keep released blocks reserved there (CBMC never reuses addresses, ASan quarantines) */
#if !defined(__CPROVER__) && !defined(__SANITIZE_ADDRESS__)
#define VP_NO_REAL_FREE
#endif
#include "vp_track.h"

#define VP_PRE(c) VP_PRE_OR(c, goto skip)
/* the held object, seen through the instrumentation (val, state) */
#define T_VAL(p) (((const vp_tracked *)(p))->val)
#define T_STATE(p) (((const vp_tracked *)(p))->state)
#endif
