/* C17 / C16 — frg::tuple<tracked, int, tracked2>: get<I>, construction, copy/move, converting construction, make_tuple, apply, tuple_cat;
 * tuples of references (address identity).  Bounded history of K solver-chosen operations over two tuple slots; reference model =
 * (a, b, c, moved-from) per slot.  tuple_cat over tuples holding lvalue references is not exercised: it does not compile.
 *   -DK=<ops>  -DOPSET=<mask of operation groups>
 * harness_cat_lvalue / harness_ref_apply_rvalue: the two places where the expected result follows the value categories of
 * std::tuple_cat / std::apply (an lvalue argument of tuple_cat is copied from, a T & member of an rvalue tuple is passed on as an lvalue). */
#define UNIT_H "c17_tuple.h"
#include "c17_common.h"
#ifndef K
#define K 3
#endif
typedef struct S_class_frg__tuple tup_t;            /* frg::tuple<tracked, int, tracked2>: tracked @0, int @8, tracked2 @12, empty tail storage<> @20 */
_Static_assert(sizeof(tup_t) == 24, "layout of tuple<tracked, int, tracked2>");
tup_t H0, H1;
int alive[2], mf[2]; int32_t va[2], vb[2], vc[2];
static tup_t *hp(int s) { return s ? &H1 : &H0; }
#define EL0(s) ((void *)((char *)hp(s) + 0))
#define EL1(s) ((void *)((char *)hp(s) + 8))
#define EL2(s) ((void *)((char *)hp(s) + 12))
#define NOPS 22
/* -DOPSET=<mask>: operation groups compiled in (construction and destruction always): 2 copy/move/assignment, 4 converting construction + make_tuple,
 * 8 tuple_cat, 16 apply on an rvalue tuple.  Default: all. */
#ifndef OPSET
#define OPSET 0xFF
#endif
#define SUM(s) ((int32_t)((uint32_t)va[s] ^ ((uint32_t)vb[s] << 3) ^ ((uint32_t)vc[s] << 7) ^ ((uint32_t)vb[s] >> 5)))      /* = mix3 of the wrapper: order-sensitive, no multipliers */

static void check_slot(int s) {
	if(!alive[s]) return;
	tup_t *h = hp(s); void *out[3] = {0, 0, 0};
	VP_ASSERT((void *)tup_get0(h) == EL0(s) && (void *)tup_get1(h) == EL1(s) && (void *)tup_get2(h) == EL2(s), "tuple::get<I>() does not designate the I-th element inside the tuple");
	VP_ASSERT((void *)tup_cget0(h) == EL0(s) && (void *)tup_cget1(h) == EL1(s) && (void *)tup_cget2(h) == EL2(s), "tuple::get<I>() const does not designate the I-th element inside the tuple");
	VP_ASSERT(tup_apply_addr(h, (uint8_t **)out) == 3 && out[0] == EL0(s) && out[1] == EL1(s) && out[2] == EL2(s), "apply(f, const tuple &) does not pass the tuple's own elements in order");
	VP_ASSERT(T_STATE(EL0(s)) == (mf[s] ? VP_MOVED : VP_ALIVE) && T_STATE(EL2(s)) == (mf[s] ? VP_MOVED : VP_ALIVE), "tuple: an element is not alive (or was moved from although the tuple was not)");
	VP_ASSERT(*(int32_t *)EL1(s) == vb[s], "tuple: element 1 differs from the reference value");
	if(!mf[s]) {
		VP_ASSERT(T_VAL(EL0(s)) == va[s] && T_VAL(EL2(s)) == vc[s], "tuple: element 0 or 2 differs from the reference value (order or value lost)");
		VP_ASSERT((int32_t)tup_apply_sum(h) == SUM(s), "apply(f, const tuple &): result differs from f applied to the reference values in order");
	}
}
#define SETV(s, a_, b_, c_) do { alive[s] = 1; va[s] = (a_); vb[s] = (b_); vc[s] = (c_); mf[s] = 0; } while(0)

void harness(void) {
	vp_region(&H0, sizeof H0); vp_region(&H1, sizeof H1);
	int nops = 0;
	for(int step = 0; step < K; step++) {
		int op, s; int32_t a, b, c;
		VP_INPUT(op); VP_INPUT(s); VP_INPUT(a); VP_INPUT(b); VP_INPUT(c);
		VP_NATIVE_ONLY(if(getenv("VP_RANDOM")) { op = (unsigned)op % NOPS; s = (unsigned)s & 1; })
		VP_ASSUME(op >= 0 && op < NOPS && s >= 0 && s <= 1);
		int o = 1 - s; tup_t *d = hp(s), *src = hp(o), *r = d;
		int src_ok = alive[o] && !mf[o], self_ok = alive[s] && !mf[s], dm = mf[s];
		switch(op) {
		case 0: VP_PRE(!alive[s]); tup_ctor(d, a, b, c); SETV(s, a, b, c); VP_WITNESS(0, "tuple(Types...) from rvalues"); break;
		case 1: VP_PRE(!alive[s]); tup_ctor_lvalues(d, a, b, c); SETV(s, a, b, c); VP_WITNESS(0, "tuple(Types...) from lvalues"); break;
		case 2: VP_PRE(!alive[s]); tup_ctor_default(d); SETV(s, 0, 0, 0); VP_WITNESS(0, "tuple()"); break;
#if OPSET & 2
		case 3: VP_PRE(!alive[s] && src_ok); tup_ctor_copy(d, src); SETV(s, va[o], vb[o], vc[o]); VP_WITNESS(0, "copy construction"); break;
#endif
#if OPSET & 2
		case 4: VP_PRE(!alive[s] && src_ok); tup_ctor_move(d, src); SETV(s, va[o], vb[o], vc[o]); mf[o] = 1; VP_WITNESS(0, "move construction"); break;
#endif
#if OPSET & 4
		case 5: VP_PRE(!alive[s]); tup_ctor_conv_copy(d, a, b, c); SETV(s, a, b, c); VP_WITNESS(0, "tuple(const tuple<U...> &)"); break;
#endif
#if OPSET & 4
		case 6: VP_PRE(!alive[s]); tup_ctor_conv_move(d, a, b, c); SETV(s, a, b, c); VP_WITNESS(0, "tuple(tuple<U...> &&)"); break;
#endif
#if OPSET & 4
		case 7: VP_PRE(!alive[s]); tup_make(d, a, b, c); SETV(s, a, b, c); VP_WITNESS(0, "make_tuple(rvalues)"); break;
#endif
#if OPSET & 4
		case 8: VP_PRE(!alive[s]); tup_make_lvalues(d, a, b, c); SETV(s, a, b, c); VP_WITNESS(0, "make_tuple(lvalues)"); break;
#endif
#if OPSET & 2
		case 9: VP_PRE(alive[s] && src_ok); r = tup_assign_copy(d, src); SETV(s, va[o], vb[o], vc[o]);
			VP_WITNESS(dm, "copy assignment"); VP_WITNESS(!dm, "copy assignment onto a moved-from tuple"); break;
#endif
#if OPSET & 2
		case 10: VP_PRE(alive[s] && src_ok); r = tup_assign_move(d, src); SETV(s, va[o], vb[o], vc[o]); mf[o] = 1;
			VP_WITNESS(dm, "move assignment"); VP_WITNESS(!dm, "move assignment onto a moved-from tuple"); break;
#endif
#if OPSET & 2
		case 11: VP_PRE(self_ok); r = tup_assign_copy(d, d); VP_WITNESS(0, "self copy-assignment"); break;
#endif
#if OPSET & 2
		case 12: VP_PRE(self_ok); r = tup_assign_move(d, d); VP_WITNESS(0, "self move-assignment"); break;
#endif
		case 13: VP_PRE(alive[s]); tup_dtor(d); alive[s] = 0; VP_WITNESS(0, "destruction"); break;
#if OPSET & 2
		case 14: VP_PRE(alive[s]); tup_store(d, a, b, c); SETV(s, a, b, c); VP_WITNESS(0, "assignment through get<I>()"); break;
#endif
#if OPSET & 8
		case 15: VP_PRE(!alive[s]); tup_cat_1_2(d, a, b, c); SETV(s, a, b, c); VP_WITNESS(0, "tuple_cat(tuple<A>, tuple<B, C>)"); break;
#endif
#if OPSET & 8
		case 16: VP_PRE(!alive[s]); tup_cat_2_1(d, a, b, c); SETV(s, a, b, c); VP_WITNESS(0, "tuple_cat(tuple<A, B>, tuple<C>)"); break;
#endif
#if OPSET & 8
		case 17: VP_PRE(!alive[s]); tup_cat_1_1_1(d, a, b, c); SETV(s, a, b, c); VP_WITNESS(0, "tuple_cat(tuple<A>, tuple<B>, tuple<C>)"); break;
#endif
#if OPSET & 8
		case 18: VP_PRE(!alive[s] && src_ok); tup_cat_0_3_0(d, src); SETV(s, va[o], vb[o], vc[o]); mf[o] = 1; VP_WITNESS(0, "tuple_cat(tuple<>, tuple<A, B, C> &&, tuple<>)"); break;
#endif
#if OPSET & 8
		case 19: VP_PRE(!alive[s] && src_ok); tup_cat_rvalue(d, src); SETV(s, va[o], vb[o], vc[o]); mf[o] = 1; VP_WITNESS(0, "tuple_cat(tuple<A, B, C> &&)"); break;
#endif
#if OPSET & 16
		case 20: { VP_PRE(self_ok); void *out[3] = {0, 0, 0}; int n = (int)tup_apply_addr_rvalue(d, (uint8_t **)out);
			VP_ASSERT(n == 3 && out[0] == EL0(s) && out[1] == EL1(s) && out[2] == EL2(s), "apply(f, tuple &&) does not pass the tuple's own elements in order");
			VP_WITNESS(0, "apply(f, tuple &&) with a functor taking references"); break; }
#endif
#if OPSET & 16
		case 21: { VP_PRE(self_ok); int32_t got = (int32_t)tup_apply_consume(d);
			VP_ASSERT(got == SUM(s), "apply(f, tuple &&): result differs from f applied to the reference values in order"); mf[s] = 1;
			VP_WITNESS(0, "apply(f, tuple &&) with a functor taking values"); break; }
#endif
		default: VP_PRE(0);
		}
		VP_ASSERT(r == d, "tuple::operator= does not return *this");
		check_slot(0); check_slot(1);
		VP_ASSERT(vp_live == 2 * alive[0] + 2 * alive[1], "lifetime: number of live element objects differs from twice the number of live tuples (leaked or missing object)");
		nops++;
		if(0) { skip: ; }
		VP_OBSERVE(alive[0] + 10 * alive[1]); VP_OBSERVE(vp_live);
		VP_OBSERVE(alive[0] ? T_VAL(EL0(0)) : -1); VP_OBSERVE(alive[0] ? *(int32_t *)EL1(0) : -1); VP_OBSERVE(alive[0] ? T_VAL(EL2(0)) : -1);
		VP_OBSERVE(alive[1] ? T_VAL(EL0(1)) : -1); VP_OBSERVE(alive[1] ? *(int32_t *)EL1(1) : -1); VP_OBSERVE(alive[1] ? T_VAL(EL2(1)) : -1);
	}
	for(int s = 0; s < 2; s++) if(alive[s]) { tup_dtor(hp(s)); alive[s] = 0; }
	vp_end();
	VP_WITNESS(nops < K, "K operations executed");
}

/* tuple_cat of two three-element tuples: all six elements in argument order */
void harness_cat6(void) {
	int32_t v[6]; uint32_t out[6];
	vp_region(&H0, sizeof H0); vp_region(&H1, sizeof H1);
	for(int i = 0; i < 6; i++) VP_INPUT(v[i]);
	tup_ctor(&H0, v[0], v[1], v[2]); tup_ctor(&H1, v[3], v[4], v[5]);
	int ok = (int)tup_cat_6(&H0, &H1, out);
	VP_ASSERT(ok, "tuple_cat: an element of the result is not alive");
	for(int i = 0; i < 6; i++) { VP_ASSERT((int32_t)out[i] == v[i], "tuple_cat: element order or value not preserved across two arguments"); VP_OBSERVE(out[i]); }
	VP_ASSERT(vp_live == 4, "tuple_cat: the result's elements were not destroyed with it, or an argument lost an element");
	tup_dtor(&H0); tup_dtor(&H1);
	vp_end();
	VP_WITNESS(0, "tuple_cat of two tuples");
}

/* tuples of references: every access path designates the referenced objects themselves, no element object is created */
struct S_struct_tracked Y; struct S_struct_tracked2 Z; uint32_t X;
void harness_ref(void) {
	int32_t x, y, z; void *out[19];
	VP_INPUT(x); VP_INPUT(y); VP_INPUT(z);
	vp_region(&Y, sizeof Y); vp_region(&Z, sizeof Z);
	X = (uint32_t)x; trk_make(&Y, y); trk2_make(&Z, z);
	long ctors = vp_ctor_count;
	for(int i = 0; i < 19; i++) out[i] = 0;
	tref_addrs(&X, &Y, &Z, (uint8_t **)out);
	for(int i = 0; i < 18; i += 3)
		VP_ASSERT(out[i] == (void *)&X && out[i + 1] == (void *)&Y && out[i + 2] == (void *)&Z,
			"tuple of references: get<I>() / copy / move / apply do not designate the referenced objects (reference identity lost)");
	VP_ASSERT(vp_ctor_count == ctors && vp_live == 2, "tuple of references: an element object was created or destroyed");
	VP_ASSERT(T_STATE(&Y) == VP_ALIVE && T_VAL(&Y) == y && T_STATE(&Z) == VP_ALIVE && T_VAL(&Z) == z, "tuple of references: a referenced object was modified");
	VP_ASSERT(X == 41, "tuple of references: a write through get<0>() did not reach the referenced object");
	VP_OBSERVE(X); VP_OBSERVE(T_VAL(&Y)); VP_OBSERVE(T_STATE(&Y));
	trk_kill(&Y); trk2_kill(&Z);
	vp_end();
	VP_WITNESS(0, "tuple of references");
}

/* tuple_cat with an lvalue argument: like std::tuple_cat the result holds copies and the argument keeps its elements */
void harness_cat_lvalue(void) {
	int32_t a, b, c; VP_INPUT(a); VP_INPUT(b); VP_INPUT(c);
	vp_region(&H0, sizeof H0); vp_region(&H1, sizeof H1);
	tup_ctor(&H0, a, b, c); SETV(0, a, b, c);
	tup_cat_lvalue(&H1, &H0); SETV(1, a, b, c);
	VP_ASSERT(T_STATE(EL0(0)) == VP_ALIVE && T_STATE(EL2(0)) == VP_ALIVE, "tuple_cat(lvalue tuple) moved from its argument's elements (std::tuple_cat copies from an lvalue argument)");
	check_slot(0); check_slot(1);
	VP_ASSERT(vp_live == 4, "tuple_cat(lvalue tuple): wrong number of live element objects");
	VP_OBSERVE(T_VAL(EL0(1))); VP_OBSERVE(*(int32_t *)EL1(1)); VP_OBSERVE(T_VAL(EL2(1))); VP_OBSERVE(T_STATE(EL0(0)));
	tup_dtor(&H0); tup_dtor(&H1);
	vp_end();
	VP_WITNESS(0, "tuple_cat(tuple<A, B, C> &)");
}

/* apply on an rvalue tuple<T &>: like std::apply the referenced object is handed on as an lvalue (copied by a by-value parameter, not moved from) */
void harness_ref_apply_rvalue(void) {
	int32_t y; VP_INPUT(y);
	vp_region(&Y, sizeof Y);
	trk_make(&Y, y);
	int32_t got = (int32_t)tref_apply_rvalue_by_value(&Y);
	VP_ASSERT(got == y, "apply(f, tuple<T &> &&): wrong value");
	VP_ASSERT(T_STATE(&Y) == VP_ALIVE, "apply(f, tuple<T &> &&) moved from the referenced object (std::apply passes a T & member on as an lvalue)");
	VP_ASSERT(vp_live == 1, "apply(f, tuple<T &> &&): wrong number of live element objects");
	VP_OBSERVE(got); VP_OBSERVE(T_STATE(&Y));
	trk_kill(&Y);
	vp_end();
	VP_WITNESS(0, "apply(f, tuple<T &> &&)");
}
