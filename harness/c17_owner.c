/* C16 (small owners) — frg::unique_ptr<tracked, vp_allocator>, frg::unique_memory<vp_allocator>, construct/destruct(_n).
 * Bounded histories of K solver-chosen operations over two owner slots with the lifetime and block registries of vp_track.h:
 * every pointee is destroyed exactly once, every block is given back exactly once (with its size where the sized call is used),
 * nothing is alive or allocated after the owners are gone.   -DK=<ops>;  construct_n: -DLEN=<n> */
#define UNIT_H "c17_owner.h"
#include "c17_common.h"
#ifndef K
#define K 3
#endif
#ifndef LEN
#define LEN 2
#endif
typedef struct S_struct_frg__unique_ptr up_t;
typedef struct S_struct_frg__unique_memory um_t;
up_t P0, P1; um_t M0, M1;
int alive[2]; void *ptr[2]; int32_t val[2]; size_t msize[2];
static up_t *pp(int s) { return s ? &P1 : &P0; }
static um_t *mp(int s) { return s ? &M1 : &M0; }
/* registry lookup: live block starting at q, its size (or -1) */
static long blk_size(const void *q) {
	long r = -1;
	for(int i = 0; i < VP_MAXBLK; i++) if(i < vp_nblk && vp_blks[i].live && vp_blks[i].p == (const char *)q) r = (long)vp_blks[i].size;
	return r;
}
#define HAS(s) (alive[s] && ptr[s] != 0)

/* ------------------------------------------------------------------ unique_ptr */
#define UP_NOPS 11
static void up_check(int s) {
	if(!alive[s]) return;
	up_t *h = pp(s);
	VP_ASSERT((void *)up_get(h) == ptr[s], "unique_ptr::get() differs from the reference pointer");
	VP_ASSERT(up_bool(h) == (ptr[s] != 0), "unique_ptr::operator bool differs from the reference state");
	if(ptr[s]) {
		VP_ASSERT((void *)up_deref(h) == ptr[s] && (void *)up_arrow(h) == ptr[s], "unique_ptr::operator* / operator-> do not designate the owned object");
		VP_ASSERT(blk_size(ptr[s]) == 8, "unique_ptr: the owned object is not in a live block of sizeof(T) bytes");
		VP_ASSERT(T_STATE(ptr[s]) == VP_ALIVE && T_VAL(ptr[s]) == val[s], "unique_ptr: the owned object is not alive or lost its value");
	}
}
void harness_unique_ptr(void) {
	vp_region(&P0, sizeof P0); vp_region(&P1, sizeof P1);
	int nops = 0;
	for(int step = 0; step < K; step++) {
		int op, s; int32_t v;
		VP_INPUT(op); VP_INPUT(s); VP_INPUT(v);
		VP_NATIVE_ONLY(if(getenv("VP_RANDOM")) { op = (unsigned)op % UP_NOPS; s = (unsigned)s & 1; })
		VP_ASSUME(op >= 0 && op < UP_NOPS && s >= 0 && s <= 1);
		int o = 1 - s; up_t *d = pp(s), *src = pp(o), *r = d; int dh = ptr[s] != 0, sh = ptr[o] != 0;
		switch(op) {
		case 0: VP_PRE(!alive[s]); up_ctor_null(d); alive[s] = 1; ptr[s] = 0; VP_WITNESS(0, "unique_ptr(allocator)"); break;
		case 1: VP_PRE(!alive[s]); up_ctor_adopt(d, v); alive[s] = 1; ptr[s] = up_get(d); val[s] = v; VP_ASSERT(ptr[s] != 0, "unique_ptr(allocator, p) lost p"); VP_WITNESS(0, "unique_ptr(allocator, p)"); break;
		case 2: VP_PRE(!alive[s]); up_make(d, v); alive[s] = 1; ptr[s] = up_get(d); val[s] = v; VP_ASSERT(ptr[s] != 0, "make_unique returned an empty pointer"); VP_WITNESS(0, "make_unique"); break;
		case 3: VP_PRE(!alive[s] && alive[o]); up_ctor_move(d, src); alive[s] = 1; ptr[s] = ptr[o]; val[s] = val[o]; ptr[o] = 0;
			VP_WITNESS(sh, "move construction from an empty unique_ptr"); VP_WITNESS(!sh, "move construction from an owning unique_ptr"); break;
		case 4: { VP_PRE(alive[s] && alive[o]); r = up_assign_move(d, src);       /* frg semantics: the two owners exchange their pointees (the old pointee dies with the source) */
			void *t = ptr[s]; ptr[s] = ptr[o]; ptr[o] = t; int32_t tv = val[s]; val[s] = val[o]; val[o] = tv;
			VP_WITNESS(!(!dh && !sh), "move assignment empty <- empty"); VP_WITNESS(!(!dh && sh), "move assignment empty <- owning");
			VP_WITNESS(!(dh && !sh), "move assignment owning <- empty"); VP_WITNESS(!(dh && sh), "move assignment owning <- owning"); break; }
		case 5: VP_PRE(alive[s]); r = up_assign_move(d, d); VP_WITNESS(dh, "self move-assignment, empty"); VP_WITNESS(!dh, "self move-assignment, owning"); break;
		case 6: { VP_PRE(alive[s] && alive[o]); up_swap(d, src); void *t = ptr[s]; ptr[s] = ptr[o]; ptr[o] = t; int32_t tv = val[s]; val[s] = val[o]; val[o] = tv; VP_WITNESS(0, "swap"); break; }
		case 7: { VP_PRE(alive[s]); void *p = up_release(d); VP_ASSERT(p == ptr[s], "unique_ptr::release() does not return the owned pointer"); ptr[s] = 0;
			if(p) { VP_ASSERT(T_STATE(p) == VP_ALIVE && T_VAL(p) == val[s] && blk_size(p) == 8, "unique_ptr::release() ended the object's lifetime or released its block"); al_destruct(p); }    /* the caller owns it now */
			VP_WITNESS(dh, "release() of an empty unique_ptr"); VP_WITNESS(!dh, "release() of an owning unique_ptr"); break; }
		case 8: VP_PRE(alive[s]); up_reset(d, v); ptr[s] = up_get(d); val[s] = v; VP_ASSERT(ptr[s] != 0, "reset(p) lost p");
			VP_WITNESS(dh, "reset(p) of an empty unique_ptr"); VP_WITNESS(!dh, "reset(p) of an owning unique_ptr"); break;
		case 9: VP_PRE(alive[s]); up_reset_null(d); ptr[s] = 0; VP_WITNESS(dh, "reset(nullptr) of an empty unique_ptr"); VP_WITNESS(!dh, "reset(nullptr) of an owning unique_ptr"); break;
		case 10: VP_PRE(alive[s]); up_dtor(d); alive[s] = 0; ptr[s] = 0; VP_WITNESS(dh, "destruction of an empty unique_ptr"); VP_WITNESS(!dh, "destruction of an owning unique_ptr"); break;
		default: VP_PRE(0);
		}
		VP_ASSERT(r == d, "unique_ptr::operator= does not return *this");
		up_check(0); up_check(1);
		VP_ASSERT(vp_live == HAS(0) + HAS(1), "lifetime: number of live pointees differs from the number of owning unique_ptrs (destructor not run, or run twice)");
		VP_ASSERT(vp_outstanding == HAS(0) + HAS(1), "allocator: number of outstanding blocks differs from the number of owning unique_ptrs (leak or early release)");
		nops++;
		if(0) { skip: ; }
		VP_OBSERVE(alive[0] * 2 + (ptr[0] != 0) + 10 * (alive[1] * 2 + (ptr[1] != 0))); VP_OBSERVE(vp_live); VP_OBSERVE(vp_outstanding);
		VP_OBSERVE(HAS(0) ? T_VAL(ptr[0]) : -1); VP_OBSERVE(HAS(1) ? T_VAL(ptr[1]) : -1);
	}
	for(int s = 0; s < 2; s++) if(alive[s]) { up_dtor(pp(s)); alive[s] = 0; }
	vp_end();
	VP_WITNESS(nops < K, "K operations executed");
}

/* ------------------------------------------------------------------ unique_memory */
#define UM_NOPS 8
static const size_t um_sizes[3] = {0, 1, 24};
static void um_check(int s) {
	if(!alive[s]) return;
	um_t *h = mp(s);
	VP_ASSERT((void *)um_data(h) == ptr[s], "unique_memory::data() differs from the reference pointer");
	VP_ASSERT(um_bool(h) == (ptr[s] != 0), "unique_memory::operator bool differs from the reference state");
	VP_ASSERT(um_size(h) == msize[s], "unique_memory::size() differs from the reference size");
	if(ptr[s]) VP_ASSERT(blk_size(ptr[s]) == (long)msize[s], "unique_memory: data() is not a live block of size() bytes");
}
void harness_unique_memory(void) {
	int nops = 0;
	for(int step = 0; step < K; step++) {
		int op, s, k;
		VP_INPUT(op); VP_INPUT(s); VP_INPUT(k);
		VP_NATIVE_ONLY(if(getenv("VP_RANDOM")) { op = (unsigned)op % UM_NOPS; s = (unsigned)s & 1; k = (unsigned)k % 3; })
		VP_ASSUME(op >= 0 && op < UM_NOPS && s >= 0 && s <= 1 && k >= 0 && k <= 2);
		int o = 1 - s; um_t *d = mp(s), *src = mp(o), *r = d; int dh = ptr[s] != 0, sh = ptr[o] != 0;
		switch(op) {
		case 0: VP_PRE(!alive[s]); um_ctor_default(d); alive[s] = 1; ptr[s] = 0; msize[s] = 0; VP_WITNESS(0, "unique_memory()"); break;
		case 1: VP_PRE(!alive[s]);      /* the requested length is one of three concrete values (a symbolic length inside malloc is case-split) */
			if(k == 0) um_ctor(d, 0); else if(k == 1) um_ctor(d, 1); else um_ctor(d, 24);
			alive[s] = 1; ptr[s] = um_data(d); msize[s] = um_sizes[k]; VP_ASSERT(ptr[s] != 0, "unique_memory(allocator, size) holds no block");
			VP_WITNESS(k != 0, "unique_memory(allocator, 0)"); VP_WITNESS(k != 2, "unique_memory(allocator, 24)"); break;
		case 2: VP_PRE(!alive[s] && alive[o]); um_ctor_move(d, src); alive[s] = 1; ptr[s] = ptr[o]; msize[s] = msize[o]; ptr[o] = 0; msize[o] = 0;
			VP_WITNESS(sh, "move construction from an empty unique_memory"); VP_WITNESS(!sh, "move construction from an owning unique_memory"); break;
		case 3: VP_PRE(alive[s] && alive[o]); r = um_assign_move(d, src); ptr[s] = ptr[o]; msize[s] = msize[o]; ptr[o] = 0; msize[o] = 0;      /* the old block is released by the by-value parameter */
			VP_WITNESS(!(!dh && !sh), "move assignment empty <- empty"); VP_WITNESS(!(!dh && sh), "move assignment empty <- owning");
			VP_WITNESS(!(dh && !sh), "move assignment owning <- empty"); VP_WITNESS(!(dh && sh), "move assignment owning <- owning"); break;
		case 4: VP_PRE(alive[s]); r = um_assign_move(d, d); VP_WITNESS(dh, "self move-assignment, empty"); VP_WITNESS(!dh, "self move-assignment, owning"); break;
		case 5: VP_PRE(alive[s]);
			if(k == 0) r = um_assign_fresh(d, 0); else if(k == 1) r = um_assign_fresh(d, 1); else r = um_assign_fresh(d, 24);
			ptr[s] = um_data(d); msize[s] = um_sizes[k]; VP_ASSERT(ptr[s] != 0, "assignment of a fresh unique_memory holds no block");
			VP_WITNESS(dh, "assignment of a fresh block to an empty unique_memory"); VP_WITNESS(!dh, "assignment of a fresh block to an owning unique_memory"); break;
		case 6: { VP_PRE(alive[s] && alive[o]); um_swap(d, src); void *t = ptr[s]; ptr[s] = ptr[o]; ptr[o] = t; size_t ts = msize[s]; msize[s] = msize[o]; msize[o] = ts; VP_WITNESS(0, "swap"); break; }
		case 7: VP_PRE(alive[s]); um_dtor(d); alive[s] = 0; ptr[s] = 0; VP_WITNESS(dh, "destruction of an empty unique_memory"); VP_WITNESS(!dh, "destruction of an owning unique_memory"); break;
		default: VP_PRE(0);
		}
		VP_ASSERT(r == d, "unique_memory::operator= does not return *this");
		um_check(0); um_check(1);
		VP_ASSERT(vp_outstanding == HAS(0) + HAS(1), "allocator: number of outstanding blocks differs from the number of owning unique_memory objects (leak or early release)");
		nops++;
		if(0) { skip: ; }
		VP_OBSERVE(alive[0] * 2 + (ptr[0] != 0) + 10 * (alive[1] * 2 + (ptr[1] != 0))); VP_OBSERVE(vp_outstanding); VP_OBSERVE(msize[0]); VP_OBSERVE(msize[1]);
	}
	for(int s = 0; s < 2; s++) if(alive[s]) { um_dtor(mp(s)); alive[s] = 0; }
	vp_end();
	VP_WITNESS(nops < K, "K operations executed");
}

/* ------------------------------------------------------------------ construct / destruct / construct_n / destruct_n (LEN concrete) */
void harness_construct(void) {
	int32_t v; int how; VP_INPUT(v); VP_INPUT(how);
	VP_NATIVE_ONLY(if(getenv("VP_RANDOM")) how = (unsigned)how % 3;)
	VP_ASSUME(how >= 0 && how <= 2);
	/* single object */
	void *p = how == 0 ? (void *)al_construct_default() : (void *)al_construct(v);
	int32_t ev = how == 0 ? 0 : v;
	VP_ASSERT(p != 0 && blk_size(p) == 8, "construct<T>() does not return a block of sizeof(T) bytes");
	VP_ASSERT(T_STATE(p) == VP_ALIVE && T_VAL(p) == ev && vp_live == 1, "construct<T>(args) did not construct exactly one T from args");
	al_destruct(p);                    /* deallocate(p, sizeof(T)): the size is checked by the registry */
	VP_ASSERT(vp_live == 0 && vp_outstanding == 0, "destruct() did not destroy the object and release its block");
	al_destruct(0); al_destruct_n(0, LEN);             /* null: no effect */
	/* LEN objects */
	char *q = how == 2 ? (char *)al_construct_n_copy(LEN, v) : (char *)al_construct_n(LEN, v);
	VP_ASSERT(q != 0 && blk_size(q) == 8 * LEN, "construct_n<T>(n) does not return a block of n * sizeof(T) bytes");
	VP_ASSERT(vp_live == LEN, "construct_n<T>(n) did not construct exactly n objects");
	for(int i = 0; i < LEN; i++) { VP_ASSERT(T_STATE(q + 8 * i) == VP_ALIVE && T_VAL(q + 8 * i) == v, "construct_n: element not alive or wrong value"); VP_OBSERVE(T_VAL(q + 8 * i)); }
	al_destruct_n((void *)q, LEN);
	vp_end();
	VP_WITNESS(how != 0, "construct<T>()"); VP_WITNESS(how != 1, "construct<T>(v), construct_n(n, v)"); VP_WITNESS(how != 2, "construct_n(n, const T &)");
}
