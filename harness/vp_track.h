/* Harness side of wrap/vp_track.hpp: lifetime registry kept INSIDE the instrumented objects (state byte) plus a live counter,
 * and a block registry for the instrumented allocator.  Works under CBMC and natively (replay / validation).
 *
 *   state == VP_ALIVE   constructed, not destroyed
 *   state == VP_MOVED   alive but moved-from (may be assigned to or destroyed, not read)
 *   anything else       raw storage (fresh blocks are filled with VP_RAW, destroyed objects are marked VP_DEAD)
 *
 * Checked: construct only on raw storage *inside tracked regions* (allocator blocks and regions the harness registers with
 * vp_region(); stack temporaries of the library have nondeterministic prior content and are exempt from that one clause),
 * copy/move/assign/destroy only on live objects, nothing constructed over a live object, every block released exactly
 * once with the size it was allocated with, and at vp_end(): no live object, no outstanding block. */
#ifndef VP_TRACK_H
#define VP_TRACK_H
#include <stdlib.h>
#include <string.h>
#define VP_ALIVE 0x5A
#define VP_MOVED 0x3C
#define VP_RAW 0xEE
#define VP_DEAD 0xDD
typedef struct { int32_t val; uint8_t state; uint8_t pad[3]; } vp_tracked;
int vp_live;                 /* objects alive right now */
long vp_ctor_count, vp_dtor_count, vp_copy_count, vp_move_count;
#ifndef VP_MAXBLK
#define VP_MAXBLK 12
#endif
struct vp_blk { char *p; size_t size; int live; } vp_blks[VP_MAXBLK];
int vp_nblk, vp_outstanding;
#ifndef VP_MAXREG
#define VP_MAXREG 4
#endif
struct { char *p; size_t size; } vp_regs[VP_MAXREG]; int vp_nreg;
static void vp_region(void *p, size_t size) { memset(p, VP_RAW, size); vp_regs[vp_nreg].p = (char *)p; vp_regs[vp_nreg].size = size; vp_nreg++; }
static int vp_tracked_addr(const void *q) {
	const char *c = (const char *)q;
#ifdef __CPROVER__
	for(int i = 0; i < VP_MAXBLK; i++) if(i < vp_nblk && vp_blks[i].live && __CPROVER_same_object(c, vp_blks[i].p)) return 1;
	for(int i = 0; i < VP_MAXREG; i++) if(i < vp_nreg && __CPROVER_same_object(c, vp_regs[i].p)) return 1;
#else
	for(int i = 0; i < vp_nblk; i++) if(vp_blks[i].live && c >= vp_blks[i].p && c < vp_blks[i].p + vp_blks[i].size) return 1;
	for(int i = 0; i < vp_nreg; i++) if(c >= vp_regs[i].p && c < vp_regs[i].p + vp_regs[i].size) return 1;
#endif
	return 0;
}
static void vp_begin_life(void *self) {
	vp_tracked *t = (vp_tracked *)self;
	if(vp_tracked_addr(self)) VP_ASSERT(t->state != VP_ALIVE && t->state != VP_MOVED, "lifetime: object constructed over an object that is still alive");
	t->state = VP_ALIVE; vp_live++; vp_ctor_count++;
}
static void vp_need_alive(const void *o, const char *unused) { const vp_tracked *t = (const vp_tracked *)o; (void)unused;
	VP_ASSERT(t->state == VP_ALIVE, "lifetime: object read / copied from / moved from outside its lifetime (never constructed, destroyed, or moved-from)"); }
static void vp_need_live_or_moved(const void *o) { const vp_tracked *t = (const vp_tracked *)o;
	VP_ASSERT(t->state == VP_ALIVE || t->state == VP_MOVED, "lifetime: object assigned to / destroyed outside its lifetime (never constructed or already destroyed)"); }
void vp_ctor(void *self, int32_t val) { vp_begin_life(self); ((vp_tracked *)self)->val = val; }
void vp_ctor_default(void *self) { vp_begin_life(self); ((vp_tracked *)self)->val = 0; }
void vp_copy(void *self, void *src) { vp_need_alive(src, 0); vp_begin_life(self); ((vp_tracked *)self)->val = ((vp_tracked *)src)->val; vp_copy_count++; }
void vp_move(void *self, void *src) { vp_need_alive(src, 0); vp_begin_life(self); ((vp_tracked *)self)->val = ((vp_tracked *)src)->val; ((vp_tracked *)src)->state = VP_MOVED; vp_move_count++; }
void vp_assign_copy(void *self, void *src) { vp_need_alive(src, 0); vp_need_live_or_moved(self); ((vp_tracked *)self)->val = ((vp_tracked *)src)->val; ((vp_tracked *)self)->state = VP_ALIVE; }
void vp_assign_move(void *self, void *src) { vp_need_alive(src, 0); vp_need_live_or_moved(self);
	int32_t v = ((vp_tracked *)src)->val; if(self != src) ((vp_tracked *)src)->state = VP_MOVED; ((vp_tracked *)self)->val = v; ((vp_tracked *)self)->state = VP_ALIVE; }
void vp_dtor(void *self) { vp_need_live_or_moved(self); ((vp_tracked *)self)->state = VP_DEAD; vp_live--; vp_dtor_count++; }

/* allocator: exact-size blocks (one byte past the end is out of bounds for CBMC and for ASan) */
void *vp_alloc(size_t size) {
	VP_ASSERT(vp_nblk < VP_MAXBLK, "harness: block table full (raise VP_MAXBLK)");
	char *p = (char *)malloc(size ? size : 1);
#ifdef __CPROVER__
	__CPROVER_assume(p != 0);
#endif
	memset(p, VP_RAW, size);
	vp_blks[vp_nblk].p = p; vp_blks[vp_nblk].size = size; vp_blks[vp_nblk].live = 1; vp_nblk++; vp_outstanding++;
	return p;
}
static void vp_release(void *q, size_t size, int sized) {
	if(!q) return;
	int found = 0;
	for(int i = 0; i < VP_MAXBLK; i++) if(i < vp_nblk && vp_blks[i].p == (char *)q) {
		found = 1;
		VP_ASSERT(vp_blks[i].live, "allocator: block released twice");
		if(sized) VP_ASSERT(vp_blks[i].size == size, "allocator: deallocate() called with a size different from the allocated size");
		vp_blks[i].live = 0;
	}
	VP_ASSERT(found, "allocator: release of a pointer that no allocate() returned");
	vp_outstanding--;
#ifndef VP_NO_REAL_FREE
	free(q);
#endif
}
void vp_free(void *q) { vp_release(q, 0, 0); }
void vp_dealloc(void *q, size_t size) { vp_release(q, size, 1); }
static void vp_end(void) {
	VP_ASSERT(vp_live == 0, "lifetime: objects still alive after their owner was destroyed (missing destructor call) or destroyed more often than constructed");
	VP_ASSERT(vp_outstanding == 0, "allocator: blocks still allocated after their owner was destroyed (leak)");
}
#endif
