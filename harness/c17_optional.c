/* C17 / C16 — frg::optional<tracked> is a faithful value holder.
 * Bounded history of K solver-chosen state-changing operations over two holder slots (destination x source), reference model =
 * (engaged, value, moved-from) per slot.  After every operation every accessor of every live holder is compared with the model and
 * must designate the storage inside the holder; the lifetime registry (vp_track.h) decides the C16 clauses.
 *   -DK=<ops>   -DLAST_OP=<op> (optional: fixes the last operation, one query per operation) */
#define UNIT_H "c17_optional.h"
#include "c17_common.h"
#ifndef K
#define K 3
#endif
typedef struct S_class_frg__optional opt_t;
opt_t H0, H1;
int alive[2], eng[2], mf[2]; int32_t val[2];
static opt_t *hp(int s) { return s ? &H1 : &H0; }
#define STOR(s) ((void *)&hp(s)->f0)          /* the aligned storage member inside the holder */
#define NOPS 22

static void check_slot(int s) {
	if(!alive[s]) return;
	opt_t *h = hp(s); void *p = STOR(s);
	VP_ASSERT(opt_has_value(h) == eng[s], "optional::has_value() differs from the reference state");
	VP_ASSERT(opt_bool(h) == eng[s], "optional::operator bool differs from the reference state");
	if(eng[s]) {
		VP_ASSERT((void *)opt_deref(h) == p, "optional::operator*() does not designate the object held inside the optional");
		VP_ASSERT((void *)opt_cderef(h) == p, "optional::operator*() const does not designate the held object");
		VP_ASSERT((void *)opt_arrow(h) == p, "optional::operator->() does not designate the held object");
		VP_ASSERT((void *)opt_value(h) == p, "optional::value() & does not designate the held object");
		VP_ASSERT((void *)opt_cvalue(h) == p, "optional::value() const & does not designate the held object");
		VP_ASSERT((void *)opt_value_rr(h) == p, "optional::value() && does not designate the held object");
		VP_ASSERT((void *)opt_cvalue_rr(h) == p, "optional::value() const && does not designate the held object");
		VP_ASSERT(T_STATE(p) == (mf[s] ? VP_MOVED : VP_ALIVE), "optional: engaged but the held object is not alive");
		if(!mf[s]) {
			VP_ASSERT(T_VAL(p) == val[s], "optional: held value differs from the reference value");
			VP_ASSERT((int32_t)opt_arrow_val(h) == val[s], "optional: value read through operator-> differs from the reference value");
			VP_ASSERT(opt_eq_val(h, val[s]) && opt_val_eq(h, val[s]) && !opt_ne_val(h, val[s]) && !opt_val_ne(h, val[s]), "optional ==/!= value: wrong result for the held value");
			VP_ASSERT(!opt_eq_val(h, val[s] ^ 1) && !opt_val_eq(h, val[s] ^ 1) && opt_ne_val(h, val[s] ^ 1) && opt_val_ne(h, val[s] ^ 1), "optional ==/!= value: wrong result for a different value");
		}
	} else {
		VP_ASSERT(T_STATE(p) != VP_ALIVE && T_STATE(p) != VP_MOVED, "optional: disengaged but an object is still alive in its storage");
		VP_ASSERT(!opt_eq_val(h, 0) && !opt_val_eq(h, 0) && opt_ne_val(h, 0) && opt_val_ne(h, 0), "optional ==/!= value: an empty optional equals no value");
	}
}

void harness(void) {
	vp_region(&H0, sizeof H0); vp_region(&H1, sizeof H1);
	int nops = 0;
	for(int step = 0; step < K; step++) {
		int op, s, k; int32_t v;
		VP_INPUT(op); VP_INPUT(s); VP_INPUT(k); VP_INPUT(v);
		VP_NATIVE_ONLY(if(getenv("VP_RANDOM")) { op = (unsigned)op % NOPS; s = (unsigned)s & 1; k = (unsigned)k & 1; })
		VP_ASSUME(op >= 0 && op < NOPS && s >= 0 && s <= 1 && k >= 0 && k <= 1);
#ifdef LAST_OP
		if(step == K - 1) VP_ASSUME(op == LAST_OP);
#endif
		int o = 1 - s; opt_t *d = hp(s), *src = hp(o), *r = d;
		/* a source may be read when it is alive and its value has not been moved out (reading a moved-from value is the caller's business) */
		int src_ok = alive[o] && !(eng[o] && mf[o]), self_ok = alive[s] && !(eng[s] && mf[s]);
		int de = eng[s], se = eng[o];
		switch(op) {
		/* construction */
		case 0: VP_PRE(!alive[s]); opt_ctor_default(d); alive[s] = 1; eng[s] = 0; break;
		case 1: VP_PRE(!alive[s]); opt_ctor_null(d); alive[s] = 1; eng[s] = 0; break;
		case 2: VP_PRE(!alive[s]); opt_ctor_cref(d, v); alive[s] = 1; eng[s] = 1; val[s] = v; mf[s] = 0; break;
		case 3: VP_PRE(!alive[s]); opt_ctor_rref(d, v); alive[s] = 1; eng[s] = 1; val[s] = v; mf[s] = 0; break;
		case 4: VP_PRE(!alive[s]); opt_ctor_conv(d, v); alive[s] = 1; eng[s] = 1; val[s] = v; mf[s] = 0; break;
		case 5: VP_PRE(!alive[s] && src_ok); opt_ctor_copy(d, src); alive[s] = 1; eng[s] = eng[o]; val[s] = val[o]; mf[s] = 0;
			VP_WITNESS(se, "copy construction from an empty optional"); VP_WITNESS(!se, "copy construction from an engaged optional"); break;
		case 6: VP_PRE(!alive[s] && src_ok); opt_ctor_move(d, src); alive[s] = 1; eng[s] = eng[o]; val[s] = val[o]; mf[s] = 0; if(eng[o]) mf[o] = 1;
			VP_WITNESS(se, "move construction from an empty optional"); VP_WITNESS(!se, "move construction from an engaged optional"); break;
		/* assignment: all four (destination, source) engagement combinations */
		case 7: VP_PRE(alive[s] && src_ok); r = opt_assign_copy(d, src); eng[s] = eng[o]; val[s] = val[o]; mf[s] = 0;
			VP_WITNESS(!(!de && !se), "copy assignment empty <- empty"); VP_WITNESS(!(!de && se), "copy assignment empty <- engaged");
			VP_WITNESS(!(de && !se), "copy assignment engaged <- empty"); VP_WITNESS(!(de && se), "copy assignment engaged <- engaged"); break;
		case 8: VP_PRE(alive[s] && src_ok); r = opt_assign_move(d, src); eng[s] = eng[o]; val[s] = val[o]; mf[s] = 0; if(eng[o]) mf[o] = 1;
			VP_WITNESS(!(!de && !se), "move assignment empty <- empty"); VP_WITNESS(!(!de && se), "move assignment empty <- engaged");
			VP_WITNESS(!(de && !se), "move assignment engaged <- empty"); VP_WITNESS(!(de && se), "move assignment engaged <- engaged"); break;
		case 9: VP_PRE(self_ok); r = opt_assign_copy(d, d);       /* self copy-assignment keeps state and value */
			VP_WITNESS(de, "self copy-assignment, empty"); VP_WITNESS(!de, "self copy-assignment, engaged"); break;
		case 10: VP_PRE(self_ok); r = opt_assign_move(d, d);     /* self move-assignment: T's self move-assignment keeps the value (tracked does) */
			VP_WITNESS(de, "self move-assignment, empty"); VP_WITNESS(!de, "self move-assignment, engaged"); break;
		case 11: VP_PRE(alive[s]); r = opt_assign_conv_copy(d, k, v); eng[s] = k; val[s] = v; mf[s] = 0;
			VP_WITNESS(!(!de && !k), "converting copy assignment empty <- empty"); VP_WITNESS(!(!de && k), "converting copy assignment empty <- engaged");
			VP_WITNESS(!(de && !k), "converting copy assignment engaged <- empty"); VP_WITNESS(!(de && k), "converting copy assignment engaged <- engaged"); break;
		case 12: VP_PRE(alive[s]); r = opt_assign_conv_move(d, k, v); eng[s] = k; val[s] = v; mf[s] = 0;
			VP_WITNESS(!(!de && !k), "converting move assignment empty <- empty"); VP_WITNESS(!(!de && k), "converting move assignment empty <- engaged");
			VP_WITNESS(!(de && !k), "converting move assignment engaged <- empty"); VP_WITNESS(!(de && k), "converting move assignment engaged <- engaged"); break;
		case 13: VP_PRE(alive[s]); r = opt_assign_value(d, v); eng[s] = 1; val[s] = v; mf[s] = 0;
			VP_WITNESS(de, "assignment of an rvalue T to an empty optional"); VP_WITNESS(!de, "assignment of an rvalue T to an engaged optional"); break;
		case 14: VP_PRE(alive[s]); r = opt_assign_lvalue(d, v); eng[s] = 1; val[s] = v; mf[s] = 0;
			VP_WITNESS(de, "assignment of an lvalue T to an empty optional"); VP_WITNESS(!de, "assignment of an lvalue T to an engaged optional"); break;
		case 15: VP_PRE(alive[s]); r = opt_assign_null(d); eng[s] = 0;
			VP_WITNESS(de, "reset (= null_opt) of an empty optional"); VP_WITNESS(!de, "reset (= null_opt) of an engaged optional"); break;
		/* emplace */
		case 16: VP_PRE(alive[s]); opt_emplace(d, v); eng[s] = 1; val[s] = v; mf[s] = 0;
			VP_WITNESS(de, "emplace into an empty optional"); VP_WITNESS(!de, "emplace into an engaged optional"); break;
		case 17: VP_PRE(alive[s]); opt_emplace_default(d); eng[s] = 1; val[s] = 0; mf[s] = 0; VP_WITNESS(0, "emplace()"); break;
		case 18: VP_PRE(alive[s]); opt_emplace_copy(d, v); eng[s] = 1; val[s] = v; mf[s] = 0; VP_WITNESS(0, "emplace(const T &)"); break;
		/* destruction */
		case 19: VP_PRE(alive[s]); opt_dtor(d); alive[s] = 0; eng[s] = 0;
			VP_WITNESS(de, "destruction of an empty optional"); VP_WITNESS(!de, "destruction of an engaged optional"); break;
		/* moved-from destination states */
		case 20: VP_PRE(alive[s] && eng[s] && mf[s] && src_ok && eng[o]); r = opt_assign_copy(d, src); val[s] = val[o]; mf[s] = 0; VP_WITNESS(0, "copy assignment onto a moved-from value"); break;
		case 21: VP_PRE(alive[s] && eng[s] && mf[s]); opt_emplace(d, v); val[s] = v; mf[s] = 0; VP_WITNESS(0, "emplace over a moved-from value"); break;
		default: VP_PRE(0);
		}
		VP_ASSERT(r == d, "optional::operator= does not return *this");
		check_slot(0); check_slot(1);
		VP_ASSERT(vp_live == (alive[0] && eng[0]) + (alive[1] && eng[1]), "lifetime: number of live element objects differs from the number of engaged holders (leaked or missing object)");
		nops++;
		if(0) { skip: ; }
		VP_OBSERVE(alive[0] * 2 + eng[0] + 10 * (alive[1] * 2 + eng[1])); VP_OBSERVE(vp_live);
		VP_OBSERVE(alive[0] && eng[0] ? T_VAL(STOR(0)) : -1); VP_OBSERVE(alive[1] && eng[1] ? T_VAL(STOR(1)) : -1);
	}
	/* end of scope: every live holder is destroyed; afterwards no element object is alive */
	for(int s = 0; s < 2; s++) if(alive[s]) { opt_dtor(hp(s)); alive[s] = 0; }
	vp_end();
	VP_WITNESS(nops < K, "K operations executed");
}

/* optional<int>: trivial element type, copy/move round trip and the ordering/equality operators against std::optional's definitions */
void harness_int(void) {
	int e, a, v; VP_INPUT(e); VP_INPUT(a); VP_INPUT(v);
	VP_NATIVE_ONLY(if(getenv("VP_RANDOM")) { e = (unsigned)e & 1; })
	VP_ASSUME(e == 0 || e == 1);
	uint32_t has = 7; int got = (int)oi_roundtrip(e, a, &has);
	VP_ASSERT((int)has == e && (!e || got == a), "optional<int>: copy construction + move assignment lose the state or the value");
	VP_ASSERT(oi_lt_val(e, a, v) == (e ? a < v : 1), "optional < value");
	VP_ASSERT(oi_val_lt(e, a, v) == (e ? v < a : 0), "value < optional");
	VP_ASSERT(oi_eq_val(e, a, v) == (e ? a == v : 0), "optional == value");
	VP_ASSERT(oi_ne_val(e, a, v) == (e ? a != v : 1), "optional != value");
	VP_OBSERVE(got); VP_OBSERVE(has); VP_OBSERVE(oi_lt_val(e, a, v) + 2 * oi_val_lt(e, a, v) + 4 * oi_eq_val(e, a, v));
	VP_WITNESS(e, "empty"); VP_WITNESS(!e, "engaged");
}
