/* C08 — pairing heap: inductive step over a solver-chosen valid heap (index view).
 *  -DM=<elements contained before the operation>; N = M+1 element objects (the extra one is pushed).
 *  -DWIDE=<k>: shape family — the element whose children are collapsed (the root for pop, x for remove) has at least k children
 *  (long child lists with odd/even counts at sizes where the fully solver-chosen shape does not reach a verdict).
 *  The (child, sibling, backlink) representation is a binary tree: left = first child, right = next sibling,
 *  parent pointer = backlink.  Inv = that binary tree is well formed, rooted at _root (which has no sibling),
 *  contains exactly the members, heap order holds between every element and its heap parent, outside hooks are null. */
#define VP_PANIC_VIOLATION
#include "vp.h"
#include "c08.h"
#ifndef M
#define M 3
#endif
#define N (M + 1)
typedef struct S_struct_elem elem;
elem e0, e1, e2, e3, e4, e5, e6, e7, e8, e9;
static elem *const EP[10] = {&e0, &e1, &e2, &e3, &e4, &e5, &e6, &e7, &e8, &e9};
struct S_struct_frg___pairing__pairing_heap heap;
static elem *ptr(int i) { elem *r = 0; for(int k = 0; k < N; k++) if(i == k) r = EP[k]; return r; }
static int idx(elem *p) { int r = -1; for(int k = 0; k < N; k++) if(p == EP[k]) r = k; if(p && r < 0) r = N; return r; }
struct view { int root; int C[N], B[N], S[N]; int prio[N]; };
static void read_view(struct view *v) {
	v->root = idx(heap.f0);
	for(int i = 0; i < N; i++) { v->C[i] = idx(EP[i]->f1.f0); v->B[i] = idx(EP[i]->f1.f1); v->S[i] = idx(EP[i]->f1.f2); v->prio[i] = (int32_t)EP[i]->f0; }
}
static void write_view(const struct view *v) {
	heap.f0 = ptr(v->root);
	for(int i = 0; i < N; i++) { EP[i]->f1.f0 = ptr(v->C[i]); EP[i]->f1.f1 = ptr(v->B[i]); EP[i]->f1.f2 = ptr(v->S[i]); EP[i]->f0 = (uint32_t)v->prio[i]; }
}
#define AT(a, i) ((i) < 0 ? 0 : (a)[i])
static int valid(const struct view *v, const int *in, int m) {
	int sz[N], hp[N];
	for(int i = 0; i < N; i++) { if(v->C[i] >= N || v->B[i] >= N || v->S[i] >= N || v->C[i] < -1 || v->B[i] < -1 || v->S[i] < -1) return 0; sz[i] = 1; hp[i] = -1; }
	if(v->root >= N || v->root < -1) return 0;
	for(int k = 0; k < N; k++) {
		int nsz[N], nhp[N];
		for(int i = 0; i < N; i++) {
			int s = 1 + AT(sz, v->C[i]) + AT(sz, v->S[i]); nsz[i] = s > N + 1 ? N + 1 : s;
			int b = v->B[i];
			nhp[i] = b < 0 ? -1 : (v->C[b] == i ? b : hp[b]);       /* heap parent: through the chain of previous siblings */
		}
		for(int i = 0; i < N; i++) { sz[i] = nsz[i]; hp[i] = nhp[i]; }
	}
	if(m == 0) { if(v->root != -1) return 0; }
	else { if(v->root < 0 || !in[v->root] || v->B[v->root] != -1 || v->S[v->root] != -1 || sz[v->root] != m) return 0; }
	for(int i = 0; i < N; i++) {
		if(!in[i]) { if(v->C[i] != -1 || v->B[i] != -1 || v->S[i] != -1) return 0; continue; }
		int c = v->C[i], s = v->S[i], b = v->B[i];
		if(sz[i] != 1 + AT(sz, c) + AT(sz, s) || sz[i] > N) return 0;                 /* fixpoint => acyclic */
		if(c >= 0 && (!in[c] || v->B[c] != i || c == s)) return 0;
		if(s >= 0 && (!in[s] || v->B[s] != i)) return 0;
		if(i != v->root) {
			if(b < 0 || !in[b] || ((v->C[b] == i) == (v->S[b] == i))) return 0;        /* exactly one of: first child of b / next sibling of b */
			int p = v->C[b] == i ? b : hp[b];
			if(hp[i] != p || p < 0) return 0;                                        /* fixpoint of the heap-parent relaxation */
			if(v->prio[p] < v->prio[i]) return 0;                                    /* heap order: !cmp(parent, child) */
		}
	}
	return 1;
}
struct view V; int in[N], m;
static int pick(void) { int i; VP_INPUT(i); VP_ASSUME(i >= -1 && i < N); return i; }
static void havoc(void) {
	V.root = pick(); m = 0;
	for(int i = 0; i < N; i++) { V.C[i] = pick(); V.B[i] = pick(); V.S[i] = pick(); VP_INPUT(V.prio[i]); in[i] = i < M; m += in[i]; }
	VP_ASSUME(valid(&V, in, m));
	write_view(&V);
}
#ifdef WIDE
static int nchildren(const struct view *v, int i) { int n = 0, c = -1; for(int k = 0; k < N; k++) if(i == k) c = v->C[k]; for(int k = 0; k < N; k++) if(c >= 0) { n++; c = v->S[c]; } return n; }
#endif
static void observable(const struct view *W, const int *in2, int m2) {
	VP_ASSERT((int)ph_empty(&heap) == (m2 == 0), "empty() is true exactly when nothing is contained");
	int t = idx(ph_top(&heap));
	if(m2 == 0) VP_ASSERT(t == -1, "top() of an empty heap is null");
	else {
		VP_ASSERT(t >= 0 && t < N && in2[t], "top() is a contained element");
		for(int j = 0; j < N; j++) if(in2[j]) VP_ASSERT(!(W->prio[t] < W->prio[j]), "the comparator orders top() before no other contained element");
	}
	for(int j = 0; j < N; j++) VP_ASSERT(W->prio[j] == V.prio[j], "element payload changed");
}
void harness_push(void) {
	havoc(); int x = N - 1;
	ph_push(&heap, EP[x]);
	struct view W; read_view(&W); int in2[N]; for(int j = 0; j < N; j++) in2[j] = in[j] || j == x;
	VP_ASSERT(valid(&W, in2, m + 1), "after push: well-formed heap containing exactly the old elements plus the new one");
	observable(&W, in2, m + 1); VP_OBSERVE(W.root); VP_WITNESS(0, "push reached");
}
void harness_pop(void) {
	havoc(); VP_ASSUME(m > 0);
	int t = V.root;
#ifdef WIDE
	VP_ASSUME(nchildren(&V, t) >= WIDE);
#endif
	VP_ASSERT(idx(ph_top(&heap)) == t, "top() is the root");
	ph_pop(&heap);
	struct view W; read_view(&W); int in2[N]; for(int j = 0; j < N; j++) in2[j] = in[j] && j != t;
	VP_ASSERT(valid(&W, in2, m - 1), "after pop: well-formed heap containing exactly the old elements minus the one top() returned; its hook is reset");
	observable(&W, in2, m - 1); VP_OBSERVE(W.root); VP_WITNESS(0, "pop reached");
}
void harness_remove(void) {
	havoc(); int x; VP_INPUT(x); VP_ASSUME(x >= 0 && x < N && in[x]);
#ifdef WIDE
	VP_ASSUME(nchildren(&V, x) >= WIDE);
#endif
	ph_remove(&heap, EP[x]);
	struct view W; read_view(&W); int in2[N]; for(int j = 0; j < N; j++) in2[j] = in[j] && j != x;
	VP_ASSERT(valid(&W, in2, m - 1), "after remove(x): well-formed heap containing exactly the other elements; x's hook is reset");
	observable(&W, in2, m - 1); VP_OBSERVE(W.root); VP_WITNESS(0, "remove reached");
}
#ifdef VP_NATIVE
void harness_script(void) {       /* native validation: random push/pop/remove script; every reachable state must satisfy valid() */
	int cin[N], cnt = 0;
	for(int i = 0; i < N; i++) { cin[i] = 0; memset(EP[i], 0, sizeof(elem)); }
	ph_init(&heap);
	for(int step = 0; step < 40; step++) {
		unsigned r; VP_INPUT(r); int x = r % N;
		if(!cin[x]) { int k; VP_INPUT(k); EP[x]->f0 = (uint32_t)(k & 7); ph_push(&heap, EP[x]); cin[x] = 1; cnt++; }
		else if((r >> 8) & 1) { ph_remove(&heap, EP[x]); cin[x] = 0; cnt--; }
		else { int t = idx(ph_top(&heap)); ph_pop(&heap); cin[t] = 0; cnt--; }
		struct view W; read_view(&W);
		VP_ASSERT(valid(&W, cin, cnt), "script: reachable state violates the invariant used by the inductive step");
		VP_OBSERVE(W.root * 100 + cnt);
	}
}
#endif
