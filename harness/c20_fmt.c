/* C20 — frg::fmt() format strings: detail_::fmt_impl::format_object (brace state machine) + parse_fmt_spec.
 * The format string lives in an EXACT-SIZE heap object that is NOT NUL-terminated: any look-ahead beyond the view is a
 * bounds violation (CBMC pointer checks; ASan in the native replay).  UB assertions come from ir2c --ub-checks,
 * termination from the unwinding assertions; a stop through the assertion hook is admissible. */
#include "vp.h"
/* VP_PANIC_STOP of vp.h (a stop through the library's assertion hook is admissible), plus a reachability witness for it */
int vp_stopped;
void frg_panic(uint8_t *m) { (void)m; VP_WITNESS(0, "stop through the assertion hook"); vp_stopped = 1; VP_STOP(); }
void ir2c_trap_hook(void) { vp_stopped = 1; VP_STOP(); }
#include "c20_fmt.h"
#include "c20_cases.h"
#ifndef VP_NATIVE
void *malloc(__CPROVER_size_t);
#endif
#ifndef LEN
#define LEN 3
#endif
#ifndef VARIANT       /* 0: three probe arguments, 1: (int, unsigned long, char) with the real formatters, 2: no arguments */
#define VARIANT 0
#endif

int c20_nout, c20_nargs;
void vp_out(uint8_t c) { (void)c; c20_nout++; }
void vp_fmt_arg(uint32_t idx, uint32_t width, uint32_t conv, uint32_t fill, uint32_t caps) {
	c20_nargs++;
	VP_OBSERVE(idx); VP_OBSERVE(width); VP_OBSERVE(conv); VP_OBSERVE(fill); VP_OBSERVE(caps);
	VP_WITNESS(0, "a replacement field was parsed and its argument formatted");
}
static void c20_call(uint8_t *buf, uint64_t len) {
#if VARIANT == 0
	c20_fmt_probe(buf, len);
#elif VARIANT == 1
	/* concrete argument values: their digits are not the subject here (C19), the parsed options are */
	c20_fmt_real(buf, len, (uint32_t)-42, 18446744073709551615ULL, 'x');
#else
	c20_fmt_none(buf, len);
#endif
	VP_OBSERVE(c20_nout); VP_OBSERVE(c20_nargs);
	VP_WITNESS(0, "fmt() completed");
}
static int c20_concretize(int v, int lo, int hi) { for(int k = lo; k < hi; k++) if(v == k) return k; return hi; }

/* (1) every byte string of length LEN (one query per length: the buffer has a concrete exact size) */
void harness_bytes(void) {
	uint8_t *buf = (uint8_t *)malloc(LEN);
	for(int i = 0; i < LEN; i++) VP_INPUT(buf[i]);
	c20_call(buf, LEN);
}

/* (2) "{:" + D digits + "}" for the width accumulator.  As in c20_printf.c the leading digits come from boundary families
 * (made concrete per path) and the last KSYM digits are symbolic: single-path mode does not prune infeasible branches and
 * every symbolic digit may "be" a brace syntactically.
 *   family 0: 99..9   1: 10..0   2: 2147483647 cut/extended with 0s   3: 4294967296 likewise */
#ifndef D
#define D 3
#endif
#ifndef KSYM
#define KSYM 1
#endif
void harness_width(void) {
	static const char fam2[] = "2147483647000000", fam3[] = "4294967296000000";
	int fam; VP_INPUT_RANGE(fam, 0, 3); fam = c20_concretize(fam, 0, 3);
	uint8_t *buf = (uint8_t *)malloc(D + 3);
	int k = 0;
	buf[k++] = '{'; buf[k++] = ':';
	for(int i = 0; i < D; i++) {
		uint8_t dg = fam == 0 ? '9' : fam == 1 ? (i == 0 ? '1' : '0') : fam == 2 ? fam2[i] : fam3[i];
		if(i >= D - KSYM) VP_INPUT_RANGE(dg, '0', '9');
		buf[k++] = dg;
	}
	buf[k++] = '}';
	c20_call(buf, D + 3);
}

/* (3) concrete format strings of realistic length in exact-size buffers (single path, everything folds) */
#ifndef CASE
#define CASE 0
#endif
void harness_concrete(void) {
	const char *f = c20_fmt_cases[CASE];      /* table generated from props/C20.py (c20_cases.h) */
	int len = 0; while(f[len]) len++;
	int dummy; VP_INPUT(dummy);
	uint8_t *buf = (uint8_t *)malloc(len);
	for(int i = 0; i < len; i++) buf[i] = (uint8_t)f[i];
	c20_call(buf, (uint64_t)len);
}

/* translator validation: strings over the syntactically relevant alphabet inside a PADDED buffer (compares the two builds) */
void harness_validate(void) {
	static const char alpha[] = "{{{}}}::0019xXcdbioh a";
	static uint8_t fbuf[64];
	int n; VP_INPUT_RANGE(n, 0, 12);
	for(int i = 0; i < 64; i++) fbuf[i] = '}';
	for(int i = 0; i < n; i++) { int k; VP_INPUT_RANGE(k, 0, (int)sizeof alpha - 2); fbuf[i] = (uint8_t)alpha[k]; }
	c20_call(fbuf, (uint64_t)n);
}
