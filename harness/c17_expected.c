/* C17 / C16 — frg::expected<err_enum, tracked> is a faithful value-or-error holder.
 * Bounded history of K solver-chosen operations over two holder slots; reference model = (error code (0 = value), value, moved-from).
 * expected::operator=(const expected &) is not exercised: it cannot be instantiated (does not compile).
 *   -DK=<ops> */
#define UNIT_H "c17_expected.h"
#include "c17_common.h"
#ifndef K
#define K 3
#endif
typedef struct S_struct_frg__expected exp_t;
exp_t H0, H1;
int alive[2], err[2], mf[2]; int32_t val[2];
static exp_t *hp(int s) { return s ? &H1 : &H0; }
#define STOR(s) ((void *)&hp(s)->f0)
#define NOPS 16
#define HASV(s) (alive[s] && err[s] == 0)

static void check_slot(int s) {
	if(!alive[s]) return;
	exp_t *h = hp(s); void *p = STOR(s);
	VP_ASSERT(exp_bool(h) == (err[s] == 0), "expected::operator bool differs from the reference state");
	VP_ASSERT((int)exp_maybe_error(h) == err[s], "expected::maybe_error() differs from the reference error code");
	if(err[s]) {
		VP_ASSERT((int)exp_error(h) == err[s], "expected::error() differs from the reference error code");
		VP_ASSERT(T_STATE(p) != VP_ALIVE && T_STATE(p) != VP_MOVED, "expected: holds an error but an object is still alive in its storage");
	} else {
		VP_ASSERT((void *)exp_value(h) == p, "expected::value() does not designate the object held inside the expected");
		VP_ASSERT((void *)exp_cvalue(h) == p, "expected::value() const does not designate the held object");
		VP_ASSERT(T_STATE(p) == (mf[s] ? VP_MOVED : VP_ALIVE), "expected: holds a value but the held object is not alive");
		if(!mf[s]) VP_ASSERT(T_VAL(p) == val[s], "expected: held value differs from the reference value");
	}
}

void harness(void) {
	vp_region(&H0, sizeof H0); vp_region(&H1, sizeof H1);
	int nops = 0;
	for(int step = 0; step < K; step++) {
		int op, s, e; int32_t v;
		VP_INPUT(op); VP_INPUT(s); VP_INPUT(e); VP_INPUT(v);
		VP_NATIVE_ONLY(if(getenv("VP_RANDOM")) { op = (unsigned)op % NOPS; s = (unsigned)s & 1; e = 1 + (unsigned)e % 3; })
		VP_ASSUME(op >= 0 && op < NOPS && s >= 0 && s <= 1 && e >= 1 && e <= 3);      /* an error code is a non-default E (precondition of expected(E)) */
		int o = 1 - s; exp_t *d = hp(s), *src = hp(o), *r = d;
		int src_ok = alive[o] && !(err[o] == 0 && mf[o]), self_ok = alive[s] && !(err[s] == 0 && mf[s]);
		int dv = err[s] == 0, sv = err[o] == 0;
		switch(op) {
		case 0: VP_PRE(!alive[s]); exp_ctor_default(d); alive[s] = 1; err[s] = 0; val[s] = 0; mf[s] = 0; VP_WITNESS(0, "expected()"); break;
		case 1: VP_PRE(!alive[s]); exp_ctor_success(d); alive[s] = 1; err[s] = 0; val[s] = 0; mf[s] = 0; VP_WITNESS(0, "expected(success)"); break;
		case 2: VP_PRE(!alive[s]); exp_ctor_error(d, e); alive[s] = 1; err[s] = e; VP_WITNESS(0, "expected(E)"); break;
		case 3: VP_PRE(!alive[s]); exp_ctor_value(d, v); alive[s] = 1; err[s] = 0; val[s] = v; mf[s] = 0; VP_WITNESS(0, "expected(T) from an rvalue"); break;
		case 4: VP_PRE(!alive[s]); exp_ctor_lvalue(d, v); alive[s] = 1; err[s] = 0; val[s] = v; mf[s] = 0; VP_WITNESS(0, "expected(T) from an lvalue"); break;
		case 5: VP_PRE(!alive[s] && src_ok); exp_ctor_copy(d, src); alive[s] = 1; err[s] = err[o]; val[s] = val[o]; mf[s] = 0;
			VP_WITNESS(sv, "copy construction from an error"); VP_WITNESS(!sv, "copy construction from a value"); break;
		case 6: VP_PRE(!alive[s] && src_ok); exp_ctor_move(d, src); alive[s] = 1; err[s] = err[o]; val[s] = val[o]; mf[s] = 0; if(sv) mf[o] = 1;
			VP_WITNESS(sv, "move construction from an error"); VP_WITNESS(!sv, "move construction from a value"); break;
		case 7: VP_PRE(alive[s] && src_ok); r = exp_assign_move(d, src); err[s] = err[o]; val[s] = val[o]; mf[s] = 0; if(sv) mf[o] = 1;
			VP_WITNESS(!(!dv && !sv), "move assignment error <- error"); VP_WITNESS(!(!dv && sv), "move assignment error <- value");
			VP_WITNESS(!(dv && !sv), "move assignment value <- error"); VP_WITNESS(!(dv && sv), "move assignment value <- value"); break;
		case 8: VP_PRE(self_ok); r = exp_assign_move(d, d);           /* self move-assignment keeps state and value */
			VP_WITNESS(dv, "self move-assignment, error"); VP_WITNESS(!dv, "self move-assignment, value"); break;
		case 9: VP_PRE(alive[s]); r = exp_assign_value(d, v); err[s] = 0; val[s] = v; mf[s] = 0;
			VP_WITNESS(dv, "assignment of a T over an error"); VP_WITNESS(!dv, "assignment of a T over a value"); break;
		case 10: VP_PRE(alive[s]); r = exp_assign_error(d, e); err[s] = e;
			VP_WITNESS(dv, "assignment of an E over an error"); VP_WITNESS(!dv, "assignment of an E over a value"); break;
		case 11: { VP_PRE(self_ok && dv); uint8_t st = 0; int32_t got = (int32_t)exp_unwrap(d, &st);
			VP_ASSERT(got == val[s] && st == VP_ALIVE, "expected::unwrap() does not return the held value"); mf[s] = 1; VP_WITNESS(0, "unwrap()"); break; }
		case 12: VP_PRE(!alive[s] && src_ok); exp_map(d, src); alive[s] = 1; err[s] = err[o]; val[s] = (int32_t)((uint32_t)val[o] + 7u); mf[s] = 0; if(sv) mf[o] = 1;
			VP_WITNESS(sv, "map() on an error"); VP_WITNESS(!sv, "map() on a value"); break;
		case 13: VP_PRE(!alive[s] && src_ok); exp_map_error(d, src); alive[s] = 1; err[s] = sv ? 0 : err[o] % 3 + 1; val[s] = val[o]; mf[s] = 0; if(sv) mf[o] = 1;
			VP_WITNESS(sv, "map_error() on an error"); VP_WITNESS(!sv, "map_error() on a value"); break;
		case 14: VP_PRE(!alive[s] && src_ok); exp_try(d, src); alive[s] = 1; err[s] = err[o]; val[s] = (int32_t)((uint32_t)val[o] + 1u); mf[s] = 0; if(sv) mf[o] = 1;
			VP_WITNESS(sv, "FRG_TRY on an error"); VP_WITNESS(!sv, "FRG_TRY on a value"); break;
		case 15: VP_PRE(alive[s]); exp_dtor(d); alive[s] = 0;
			VP_WITNESS(dv, "destruction of an error"); VP_WITNESS(!dv, "destruction of a value"); break;
		default: VP_PRE(0);
		}
		VP_ASSERT(r == d, "expected::operator= does not return *this");
		check_slot(0); check_slot(1);
		VP_ASSERT(vp_live == HASV(0) + HASV(1), "lifetime: number of live element objects differs from the number of holders with a value (leaked or missing object)");
		nops++;
		if(0) { skip: ; }
		VP_OBSERVE(alive[0] * 4 + err[0] + 10 * (alive[1] * 4 + err[1])); VP_OBSERVE(vp_live);
		VP_OBSERVE(HASV(0) ? T_VAL(STOR(0)) : -1); VP_OBSERVE(HASV(1) ? T_VAL(STOR(1)) : -1);
	}
	for(int s = 0; s < 2; s++) if(alive[s]) { exp_dtor(hp(s)); alive[s] = 0; }
	vp_end();
	VP_WITNESS(nops < K, "K operations executed");
}

/* expected<E, void> and FRG_TRY on it */
void harness_void(void) {
	int e; VP_INPUT(e);
	VP_NATIVE_ONLY(if(getenv("VP_RANDOM")) { e = (unsigned)e % 4; })
	VP_ASSUME(e >= 0 && e <= 3);
	uint32_t has = 9, maybe = 9, reached = 9;
	int r = (int)xv_make(e, &has, &maybe);
	VP_ASSERT((int)has == (e == 0) && (int)maybe == e, "expected<E, void>: operator bool / maybe_error() differ from the reference");
	VP_ASSERT(r == (e ? 100 + e : 3), "expected<E, void>: error() / default and success construction");
	int m = (int)xv_map_error(e, &has);
	VP_ASSERT(m == e * 10 && (int)has == (e == 0), "expected<E, void>::map_error");
	int t = (int)xv_try(e, &reached);
	VP_ASSERT(t == e && (int)reached == (e == 0), "FRG_TRY on expected<E, void>: propagates the error / continues on success");
	VP_OBSERVE(r); VP_OBSERVE(m); VP_OBSERVE(t);
	VP_WITNESS(e, "success"); VP_WITNESS(!e, "error");
}
