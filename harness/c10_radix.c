/* C10 — rcu_radixtree, what a lock-free reader can observe: the writer's operations are executed sequentially and instrumented at every
 * atomic store (the only points at which the reader-visible graph changes).  Based on the C09 harness (same histories, same reference).
 *  -DK=<ops>; optional -DNIBBLE=j pins the first difference of the first two keys to nibble j (0 = most significant),
 *  -DSAMELEAF pins the first two keys into the same leaf (differ only in the last nibble).
 * Node objects are pre-declared and chosen by (operation number, node kind), never by a running counter (DESIGN 2.4).
 *
 * Obligations asserted at EVERY atomic store of the writer (hook ir2c_event_stored, called inside the store's atomic section):
 *  (P1) publication order: a store that makes a node or a value reachable for readers — a pointer stored into the root or into a link of an
 *       already published inner node, or a mask bit set in a published leaf — carries memory order release (taken from the IR); relaxed
 *       stores are only accepted inside nodes that are not yet reachable;
 *  (P2) instantaneous reader view: immediately after the store, find() — the real reader code, whose own loads must all be acquire (P3) —
 *       returns for every key of the reference either null or the address handed out at insertion with the fully constructed value, finds every
 *       key that was present before the running operation began, and never a value that is not yet constructed (the inserted value is != 0,
 *       fresh node memory is 0);
 *  (P3) every atomic load executed by find() is acquire or stronger.
 * Why this decides C10 within the bound: the writer never unlinks or rewrites a published node except by adding links / mask bits (checked:
 * stores into published nodes are exactly those publications) and by plain writes to fields find() never reads (parent pointers), so the
 * reader-visible graph grows monotonically; a reader traversal that interleaves with the writer therefore sees, at each of its loads, a
 * state that (P2) has checked, and (P1)+(P3) give the happens-before edge from the initialisation of whatever it reaches to its reads.
 * Stated limit: this is a reduction checked on sequential executions, not an exploration of thread interleavings (CBMC rejects
 * pointer-typed shared writes between threads: "pointer handling for concurrency is unsound"). */
#define VP_PANIC_VIOLATION
#include "vp.h"
#include "c09.h"
static int is_rel(const char *o) { return o[0] == 'r' || o[0] == 's' || (o[0] == 'a' && o[3] == '_'); }   /* release, seq_cst, acq_rel */
static int is_acq(const char *o) { return o[0] == 'a' || o[0] == 's'; }
typedef struct S_struct_frg__rcu_radixtree_unsigned_char__rx_alloc___entry_node enode;
typedef struct S_struct_frg__rcu_radixtree_unsigned_char__rx_alloc___link_node lnode;
#ifndef K
#define K 2
#endif
enode e0, e1, e2, e3; lnode l0, l1, l2, l3;
static enode *const EN[4] = {&e0, &e1, &e2, &e3}; static lnode *const LN[4] = {&l0, &l1, &l2, &l3};
int cur_op, n_enodes, n_lnodes, e_used[4], l_used[4], freed_e[4], freed_l[4];
uint8_t *vp_rx_alloc(uint64_t n) {
	if(n == sizeof(enode)) { VP_ASSERT(!e_used[cur_op], "one operation allocated two leaf nodes"); e_used[cur_op] = 1; n_enodes++; return (uint8_t *)EN[cur_op]; }
	VP_ASSERT(n == sizeof(lnode), "allocation size is neither node size");
	VP_ASSERT(!l_used[cur_op], "one operation allocated two inner nodes"); l_used[cur_op] = 1; n_lnodes++; return (uint8_t *)LN[cur_op];
}
void vp_rx_dealloc(uint8_t *p, uint64_t n) {
	int hit = 0;
	for(int i = 0; i < 4; i++) {
		if(p == (uint8_t *)EN[i]) { VP_ASSERT(e_used[i] && !freed_e[i], "leaf node freed twice or never allocated"); VP_ASSERT(n == sizeof(enode), "leaf node deallocated with the wrong size"); freed_e[i] = 1; hit = 1; }
		if(p == (uint8_t *)LN[i]) { VP_ASSERT(l_used[i] && !freed_l[i], "inner node freed twice or never allocated"); VP_ASSERT(n == sizeof(lnode), "inner node deallocated with the wrong size"); freed_l[i] = 1; hit = 1; }
	}
	VP_ASSERT(hit, "deallocate of a pointer the tree did not allocate");
}
struct S_struct_frg__rcu_radixtree T;

/* reference: slots 0..K-1, one per distinct key ever inserted */
uint64_t rk[K + 1]; uint8_t *ra[K + 1]; uint8_t rv[K + 1]; int rp[K + 1], rn;
static int lookup(uint64_t k) { int r = -1; for(int i = 0; i < K; i++) if(i < rn && rk[i] == k) r = i; return r; }

/* structural invariant of the node graph, read directly from the private fields (they are plain struct members in the IR view):
 * every allocated node's parent pointer, depth and prefix are consistent with the slot it hangs in; the root has no parent.
 * Iteration walks these parent pointers, so a wrong one is reported here even where the iteration queries use concrete keys. */
typedef struct S_struct_frg__rcu_radixtree_unsigned_char__rx_alloc___node node_t;
static uint64_t pfx(uint64_t k, unsigned d) { return d == 0 ? 0 : (k & (~0ULL << (64 - 4 * d))); }
static void check_node(node_t *n) {
	node_t *root = T.f1.f0.f0;
	VP_ASSERT(n->f1 <= 15, "node depth out of range");
	VP_ASSERT(pfx(n->f0, n->f1) == n->f0, "node prefix has bits below its depth");
	if(n == root) { VP_ASSERT(n->f2 == 0, "root node has a parent pointer"); return; }
	lnode *p = n->f2;
	VP_ASSERT(p != 0, "non-root node without parent pointer");
	if(!p) return;
	int okp = 0; for(int i = 0; i < 4; i++) if(l_used[i] && p == LN[i]) okp = 1;
	VP_ASSERT(okp, "parent pointer does not designate an inner node of this tree");
	if(!okp) return;
	VP_ASSERT(p->f0.f1 < n->f1, "child depth not below parent depth");
	VP_ASSERT(pfx(n->f0, p->f0.f1) == p->f0.f0, "child prefix does not extend the parent prefix");
	unsigned slot = (unsigned)((n->f0 >> (60 - 4 * p->f0.f1)) & 0xF);
	VP_ASSERT(p->f1.e[slot].f0.f0 == n, "node is not linked from the slot of its parent that its prefix selects (parent pointer / link mismatch)");
}
static void check_structure(void) {
	for(int i = 0; i < 4; i++) { if(e_used[i]) { VP_ASSERT(EN[i]->f0.f1 == 15, "leaf node depth"); check_node(&EN[i]->f0); } if(l_used[i]) { VP_ASSERT(LN[i]->f0.f1 < 15, "inner node depth"); check_node(&LN[i]->f0); } }
}

/* ---- publication instrumentation */
int pub_e[4], pub_l[4];                 /* node objects already reachable for readers */
int in_find, in_writer_op, cur_key_valid, destroying; uint64_t cur_key; uint8_t cur_val; int pre_present[K + 1];
#ifdef __CPROVER__
#define IN_OBJ(p, o) __CPROVER_same_object((p), (o))
#else
#define IN_OBJ(p, o) ((const char *)(p) >= (const char *)(o) && (const char *)(p) < (const char *)((o) + 1))
#endif
static int which_e(const void *p) { for(int i = 0; i < 4; i++) if(IN_OBJ(p, EN[i])) return i; return -1; }
static int which_l(const void *p) { for(int i = 0; i < 4; i++) if(IN_OBJ(p, LN[i])) return i; return -1; }
static void publish_node(node_t *n) {
	if(!n) return;
	for(int i = 0; i < 4; i++) { if((void *)n == (void *)EN[i]) pub_e[i] = 1; if((void *)n == (void *)LN[i]) pub_l[i] = 1; }
}
static void reader_view(void) {        /* P2: what find() returns right now */
	in_find = 1;
	for(int j = 0; j < K; j++) if(j < rn) {
		uint8_t *p = rx_find(&T, rk[j]);
		if(p) { VP_ASSERT(p == ra[j], "reader: find() returned an address that is not the one handed out for that key");
		        if(rp[j] || pre_present[j]) VP_ASSERT(*p == rv[j] || (cur_key_valid && rk[j] == cur_key && *p == cur_val), "reader: find() returned a value that is not (yet) fully constructed"); }
		if(pre_present[j] && !(in_writer_op == 2 && rk[j] == cur_key)) VP_ASSERT(p != 0,      /* the key being erased may already be gone */ "reader: a key that was present before the operation began is not found while the tree is being restructured");
	}
	if(cur_key_valid && lookup(cur_key) < 0) {          /* the key being inserted right now: null, or the constructed value */
		uint8_t *p = rx_find(&T, cur_key);
		if(p) VP_ASSERT(*p == cur_val, "reader: the key being inserted is already reachable but its value is not constructed yet");
	}
	in_find = 0;
}
void ir2c_event_fence(const char *o) { (void)o; }
void ir2c_event_rmw(const void *p, const char *o) { (void)p; (void)o; }
void ir2c_event_store(const void *p, const char *o) { (void)p; (void)o; }
void ir2c_event_load(const void *p, const char *o) { (void)p; if(in_find) VP_ASSERT(is_acq(o), "reader: an atomic load in find() is weaker than acquire"); }
void ir2c_event_stored(const void *p, const char *o) {
	if(in_find || destroying) return;      /* the destructor is not an operation readers may overlap with */
	int e = which_e(p), l = which_l(p);
	int target_published = (p == (const void *)&T.f1) || (e >= 0 && pub_e[e]) || (l >= 0 && pub_l[l]);
	if(!is_rel(o)) {        /* the order is a constant at each call site: relaxed sites only get this cheap obligation */
		VP_ASSERT(!target_published, "publication with a memory order weaker than release (store into the root / a reachable link / a reachable leaf's mask)");
		return;
	}
	if(target_published) {
		if(e < 0) publish_node(*(node_t *const *)p);                 /* a pointer store: the node it designates becomes reachable ... */
		for(int r = 0; r < 3; r++) for(int i = 0; i < 4; i++) if(pub_l[i]) for(int sl = 0; sl < 16; sl++) publish_node(LN[i]->f1.e[sl].f0.f0);   /* ... with everything below it */
		reader_view();
	}
}
void harness(void) {
	rx_init(&T);
	for(int s = 0; s < K; s++) {
		int op; uint64_t k; uint8_t v, ins;
		VP_INPUT(op); VP_INPUT(k); VP_INPUT(v);
#ifdef KEYSET      /* iteration queries: concrete key family (symex folds the 16-way link scans), values stay symbolic */
		{ static const uint64_t ks_[] = KEYSET; static const int os_[] = OPSET; k = ks_[s]; op = os_[s]; }
#endif
	#ifdef PREKEYS     /* concrete first two keys (a concrete pre-state: symex folds the first two operations), the third operation stays fully symbolic */
		if(s < 2) { static const uint64_t pk_[] = PREKEYS; k = pk_[s]; op = 0; }
#endif
	VP_NATIVE_ONLY(if(getenv("VP_RANDOM")) { op = (unsigned)op % 3; if(k & 1) k = (k >> 1) & 0x1F; else if(k & 2) k = (k >> 8) << 56 | ((k >> 2) & 0xFF); })
		VP_ASSUME(op >= 0 && op <= 2);
		if(s == 0) VP_ASSUME(op == 0);
#ifdef NIBBLE
		if(s == 1) { VP_ASSUME(op == 0); VP_ASSUME(((rk[0] ^ k) >> (60 - 4 * NIBBLE)) != 0 && ((rk[0] ^ k) >> (60 - 4 * NIBBLE)) < 16); }   /* first difference exactly at nibble NIBBLE */
#endif
#ifdef THIRD_MASK       /* third operation on a concrete two-key tree (PREKEYS): the nibbles of the key that steer the descent are concrete (THIRD_BITS under THIRD_MASK), the rest of the key is arbitrary */
		if(s == 2) { k = (k & ~THIRD_MASK) | THIRD_BITS;
#ifdef THIRD_DIFF       /* ... and its first difference from the first key is exactly at nibble THIRD_DIFF */
			VP_ASSUME(((rk[0] ^ k) >> (60 - 4 * THIRD_DIFF)) != 0 && ((rk[0] ^ k) >> (60 - 4 * THIRD_DIFF)) < 16);
#endif
		}
#endif
#ifdef SAMELEAF
		if(s == 1) { VP_ASSUME(op == 0); VP_ASSUME((rk[0] ^ k) != 0 && (rk[0] ^ k) < 16); }
#endif
		cur_op = s;
		VP_ASSUME(v != 0);
		int i = lookup(k);
		for(int j = 0; j < K; j++) pre_present[j] = j < rn && rp[j];
		cur_key = k; cur_val = v; cur_key_valid = (op != 2); in_writer_op = op == 2 ? 2 : 1;
		if(op == 0 || op == 1) {                    /* find_or_insert (op 1: through insert() when the key is absent) */
			uint8_t *p;
			int absent = i < 0 || !rp[i];
			if(op == 1 && absent) { p = rx_insert(&T, k, v); ins = 1; }
			else p = rx_foi(&T, k, v, &ins);
			VP_ASSERT(p != 0, "find_or_insert returned null");
			if(i >= 0 && rp[i]) {
				VP_ASSERT(!ins && p == ra[i], "find_or_insert on a present key must return the existing value and report no insertion");
				VP_ASSERT(*p == rv[i], "find_or_insert on a present key changed the stored value");
			} else {
				VP_ASSERT(ins, "find_or_insert on an absent key must report an insertion");
				VP_ASSERT(*p == v, "inserted value differs from the argument");
				if(i >= 0) { VP_ASSERT(p == ra[i], "re-inserted key moved"); rp[i] = 1; rv[i] = v; }
				else { for(int j = 0; j < K; j++) if(j < rn) VP_ASSERT(p != ra[j], "two keys share one value address"); rk[rn] = k; ra[rn] = p; rv[rn] = v; rp[rn] = 1; rn++; }
			}
		} else {                                     /* erase of a present key (documented precondition) */
			VP_PRE_OR(i >= 0 && rp[i], continue);
			rx_erase(&T, k); rp[i] = 0;
		}
		in_writer_op = 0; cur_key_valid = 0;
		for(int j = 0; j < K; j++) pre_present[j] = j < rn && rp[j];
		reader_view();
#ifndef C10_LEAN      /* the structure / stability obligations are C09's; a lean C10 query keeps only the publication obligations */
		check_structure();
#endif
		/* address stability and content of every present value after every operation */
#ifndef C10_LEAN
		for(int j = 0; j < K; j++) if(j < rn && rp[j]) { VP_ASSERT(rx_find(&T, rk[j]) == ra[j], "a present key is no longer found at its address"); VP_ASSERT(*ra[j] == rv[j], "a stored value changed"); }
		for(int j = 0; j < K; j++) if(j < rn && !rp[j]) VP_ASSERT(rx_find(&T, rk[j]) == 0, "an erased key is still found");
#endif
		VP_OBSERVE(rn * 10 + ins);
	}
	/* (i) arbitrary probe key */
	uint64_t q; VP_INPUT(q);
	{ int i = lookup(q); uint8_t *p = rx_find(&T, q);
	  VP_ASSERT((p != 0) == (i >= 0 && rp[i]), "find() of an arbitrary key: non-null exactly for present keys (no phantom, no lost key)");
	  if(p && i >= 0) VP_ASSERT(p == ra[i], "find() returns the address handed out at insertion"); }
#ifndef NO_ITER
	/* (iii) iteration: exactly the present keys' values, once each, ascending key order */
	uint8_t *out[K + 1]; unsigned cnt = rx_iterate(&T, out, K + 1);
	int present = 0; for(int j = 0; j < K; j++) if(j < rn && rp[j]) present++;
	VP_ASSERT((int)cnt == present, "iteration visits a number of values different from the number of present keys");
	uint64_t prev = 0; int have_prev = 0;
	for(unsigned t = 0; t < K; t++) if(t < cnt) {
		int who = -1; for(int j = 0; j < K; j++) if(j < rn && rp[j] && ra[j] == out[t]) who = j;
		VP_ASSERT(who >= 0, "iteration yields an address that is no present value");
		if(who >= 0) { if(have_prev) VP_ASSERT(rk[who] > prev, "iteration is not in ascending key order (or repeats a key)"); prev = rk[who]; have_prev = 1; }
	}
#endif
	VP_WITNESS(0, "end of the history reached");
	VP_WITNESS(n_lnodes == 0, "a prefix split (new inner node) happened");
	VP_WITNESS(rn < K, "K distinct keys were inserted");
	/* destructor: every node returned exactly once */
	destroying = 1;
	rx_destroy(&T);
	for(int j = 0; j < 4; j++) { VP_ASSERT(e_used[j] == freed_e[j], "destructor did not free every leaf node exactly once"); VP_ASSERT(l_used[j] == freed_l[j], "destructor did not free every inner node exactly once"); }
}
