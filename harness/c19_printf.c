/* C19 — printf_format + do_printf_chars/do_printf_ints (and print_digits alone) against an INDEPENDENT ISO C interpreter.
 *
 * The oracle is ref_directive(): ISO C 7.21.6.1 for ONE conversion specification, written from the standard's text and
 * sharing no code with the library.  It does not produce a string but a LAYOUT (struct piece: leading spaces, sign, prefix,
 * zeros, body characters, trailing spaces); the sink of the library under test calls c19_put() for every byte it appends and
 * the byte is compared on the spot with ref_at(position) — no output arrays with solver-chosen indices (measured: 20x cheaper).
 * glibc cannot be called inside the solver; instead the interpreter (and the format assembler put_directive()) is cross-checked
 * natively against glibc snprintf on every run (-DC19_XCHECK, see props/C19.py:prepare).
 *
 *   harness_parse  (A) printf_format alone with a recording agent: directive -> options handed to the agent.  With all pieces solver-chosen this does not
 *                      finish (see props/C19.py); it is kept as a translator-validation entry (native differential runs), not as a solver query
 *   harness_opts   (B) do_printf_ints / do_printf_chars alone with solver-chosen options, conversion and length modifier fixed per query
 *   harness_layout (C) the whole pipeline on formats whose shape is pinned per query (PINS), argument values solver-chosen
 *   harness_poparg     pop_arg histories (sequential / positional cache)
 *   harness_digits     print_digits / print_int alone
 */
#define VP_PANIC_VIOLATION
#include "vp.h"
#ifndef C19_XCHECK
#include "c19_printf.h"
#endif

#ifndef WMAX
#define WMAX 70          /* largest width / precision */
#endif
#ifndef SLEN
#define SLEN 5           /* longest %s argument */
#endif

enum { CV_d, CV_i, CV_u, CV_o, CV_x, CV_X, CV_c, CV_s, CV_p, CV_pct, CV_b, CV_B, CV_N };
static const char cv_chr[CV_N] = { 'd', 'i', 'u', 'o', 'x', 'X', 'c', 's', 'p', '%', 'b', 'B' };
enum { LM_none, LM_hh, LM_h, LM_l, LM_ll, LM_z, LM_t, LM_j, LM_N };

struct dir {
	int left, plus, space, alt, zero, group;   /* flags - + space # 0 ' */
	int wmode, width;                          /* 0 none, 1 literal (1..WMAX), 2 '*' (argument, may be negative) */
	int pmode, prec;                           /* 0 none, 1 literal ".N", 2 ".*" (argument, may be negative), 3 "." alone */
	int lm, conv, pos;                         /* pos: 0 = none, 1..9 = "n$" */
	int rev;                                   /* flags written in reverse order */
};

/* ---------------------------------------------------------------- format assembler */
static int put_num(char *f, int k, int v) {
	if(v >= 10) f[k++] = (char)('0' + v / 10);
	f[k++] = (char)('0' + v % 10);
	return k;
}
static int put_directive(char *f, int k, const struct dir *d) {
	f[k++] = '%';
	if(d->conv == CV_pct) { f[k++] = '%'; return k; }
	if(d->pos) { f[k++] = (char)('0' + d->pos); f[k++] = '$'; }
	if(!d->rev) {
		if(d->left) f[k++] = '-';
		if(d->plus) f[k++] = '+';
		if(d->space) f[k++] = ' ';
		if(d->alt) f[k++] = '#';
		if(d->group) f[k++] = '\'';
		if(d->zero) f[k++] = '0';
	} else {
		if(d->zero) f[k++] = '0';
		if(d->group) f[k++] = '\'';
		if(d->alt) f[k++] = '#';
		if(d->space) f[k++] = ' ';
		if(d->plus) f[k++] = '+';
		if(d->left) f[k++] = '-';
	}
	if(d->wmode == 1) k = put_num(f, k, d->width);
	else if(d->wmode == 2) f[k++] = '*';
	if(d->pmode) f[k++] = '.';
	if(d->pmode == 1) k = put_num(f, k, d->prec);
	else if(d->pmode == 2) f[k++] = '*';
	switch(d->lm) {
	case LM_hh: f[k++] = 'h'; f[k++] = 'h'; break;
	case LM_h: f[k++] = 'h'; break;
	case LM_l: f[k++] = 'l'; break;
	case LM_ll: f[k++] = 'l'; f[k++] = 'l'; break;
	case LM_z: f[k++] = 'z'; break;
	case LM_t: f[k++] = 't'; break;
	case LM_j: f[k++] = 'j'; break;
	default: break;
	}
	f[k++] = cv_chr[d->conv];
	return k;
}

/* ---------------------------------------------------------------- the oracle: ISO C 7.21.6.1, one conversion specification */
#include "c19_ref.h"
/* the normalised meaning of the width / precision part of a directive */
static void dir_norm(const struct dir *d, int *left, int *width, int *has_prec, int *prec) {
	*left = d->left; *width = d->wmode ? d->width : 0;
	if(d->wmode == 2 && *width < 0) { *left = 1; *width = -*width; }      /* "a negative field width argument is taken as a - flag followed by a positive field width" */
	*has_prec = d->pmode != 0; *prec = d->pmode == 3 ? 0 : d->prec;
	if(d->pmode == 2 && *prec < 0) { *has_prec = 0; *prec = 0; }          /* "a negative precision argument is taken as if the precision were omitted" */
	if(!*has_prec) *prec = 0;
}

/* raw: the argument word as passed (upper half arbitrary for int-class arguments); str: the %s argument; small: |value| < DMAX is known */
static void ref_directive(struct piece *p, const struct dir *d, uint64_t raw, const char *str, int small) {
	int left, width, has_prec, prec;
	dir_norm(d, &left, &width, &has_prec, &prec);
	if(d->conv == CV_pct) { piece_char(p, '%'); return; }
	if(d->conv == CV_c) {
		piece_char(p, (char)(unsigned char)(int)raw);                       /* "the int argument is converted to an unsigned char, and the resulting character is written" */
		int pad = width > 1 ? width - 1 : 0;
		if(left) p->trail = pad; else p->lead = pad;
		return;
	}
	if(d->conv == CV_s) {
		int len = 0;
		piece_clear(p);
		while(len <= SLEN && (!has_prec || len < prec) && str[len]) { p->body[len] = str[len]; len++; }   /* "up to (but not including) the terminating null character; if the precision is specified, no more than that many bytes" */
		p->nbody = len;
		int pad = width > len ? width - len : 0;
		if(left) p->trail = pad; else p->lead = pad;
		return;
	}
	if(d->conv == CV_p) {          /* frigg's documented form: "0x" followed by the value in lower-case hex (ISO C: implementation-defined) */
		ref_number(p, raw, 0, 16, 0, 0, '0', 'x', 0, 0, 0, 1, 0);
		return;
	}
	uint64_t mag; int neg = 0, is_signed = d->conv == CV_d || d->conv == CV_i;
	if(is_signed) {
		int64_t v;
		switch(d->lm) { case LM_none: v = (int32_t)raw; break; case LM_hh: v = (int8_t)raw; break; case LM_h: v = (int16_t)raw; break; default: v = (int64_t)raw; }
		neg = v < 0; mag = neg ? 0 - (uint64_t)v : (uint64_t)v;
	} else {
		switch(d->lm) { case LM_none: mag = (uint32_t)raw; break; case LM_hh: mag = (uint8_t)raw; break; case LM_h: mag = (uint16_t)raw; break; default: mag = raw; }
	}
	int radix = d->conv == CV_o ? 8 : (d->conv == CV_x || d->conv == CV_X) ? 16 : (d->conv == CV_b || d->conv == CV_B) ? 2 : 10;
	char pfx0 = 0, pfx1 = 0;
	if(d->alt && mag != 0 && radix != 8 && radix != 10) { pfx0 = '0'; pfx1 = cv_chr[d->conv]; }   /* '#': "a nonzero result has 0x (or 0X) prefixed to it" (0b/0B: C23) */
	char sign = 0;
	if(is_signed) sign = neg ? '-' : d->plus ? '+' : d->space ? ' ' : 0;   /* '+' and space apply to signed conversions only; '+' overrides space */
	int zeropad = d->zero && !left && !has_prec;                            /* "if the 0 and - flags both appear, the 0 flag is ignored; if a precision is specified, the 0 flag is ignored" */
	int force0 = d->conv == CV_o && d->alt && mag != 0;
	int mindig = has_prec ? prec : 1;
	if(d->conv == CV_o && d->alt && mag == 0 && mindig == 0) mindig = 1;   /* "if the value and precision are both 0, a single 0 is printed" */
	ref_number(p, mag, small, radix, d->conv == CV_X, sign, pfx0, pfx1, width, left, zeropad, mindig, force0);
}

/* ranges and syntax of a directive the harness can assemble */
static int dir_syntax(const struct dir *d) {
	if(d->conv < 0 || d->conv >= CV_N || d->lm < 0 || d->lm >= LM_N) return 0;
	if(d->wmode < 0 || d->wmode > 2 || d->pmode < 0 || d->pmode > 3) return 0;
	if(d->wmode == 1 && (d->width < 1 || d->width > WMAX)) return 0;
	if(d->wmode == 2 && (d->width < -WMAX || d->width > WMAX)) return 0;
	if(d->pmode == 1 && (d->prec < 0 || d->prec > WMAX)) return 0;
	if(d->pmode == 2 && (d->prec < -2 || d->prec > WMAX)) return 0;
	if(d->pos < 0 || d->pos > 9) return 0;
	if(d->pos && (d->wmode == 2 || d->pmode == 2)) return 0;              /* POSIX: numbered directives take "*m$", which frigg does not implement and the property's grammar does not contain */
	return 1;
}
/* which combinations ISO C defines: '#' not with d i u c s p, '0' not with c s p, no precision with c p, no length modifier with
 * c s p ("%ls"/"%lc" are wide-character conversions: outside), only '-' with c s; frigg documents the bare %p and %% only */
static int dir_defined(const struct dir *d) {
	int is_int = d->conv <= CV_X || d->conv == CV_b || d->conv == CV_B;
	if(!dir_syntax(d)) return 0;
	if(is_int) {
		if(d->alt && (d->conv == CV_d || d->conv == CV_i || d->conv == CV_u)) return 0;
		if(d->group && !(d->conv == CV_d || d->conv == CV_i || d->conv == CV_u)) return 0;   /* ' is POSIX, defined for decimal conversions; "C" locale: no grouping */
		return 1;
	}
	if(d->lm != LM_none) return 0;
	if(d->plus || d->space || d->alt || d->zero || d->group) return 0;
	if(d->conv == CV_c) return d->pmode == 0;
	if(d->conv == CV_s) return 1;
	return !d->left && d->wmode != 1 && d->width == 0 && d->pmode == 0;      /* (a * width whose argument is 0 is the bare form too) */
}

#ifndef C19_XCHECK
/* ---------------------------------------------------------------- the library under test */
typedef struct S_struct___va_list_tag va_tag;
typedef struct S_union_frg__arg frg_arg;
#ifndef NDIR
#define NDIR 1
#endif
#define NSLOT 10
static frg_arg arg_cache[12];
static uint64_t slots[NSLOT];
static char fmt[100], strarg[3][SLEN + 3];

/* the System V x86-64 va_list after the register save area is exhausted: every variadic argument occupies one 8-byte slot
 * of the overflow area (int-class arguments in the low bytes, upper bytes unspecified) */
static void mk_va(va_tag *ap) { ap->f0 = 48; ap->f1 = 304; ap->f2 = (uint8_t *)slots; ap->f3 = 0; }

static int in_bit(void) { int b; VP_INPUT(b); VP_NATIVE_ONLY(if(getenv("VP_RANDOM")) b &= 1;) VP_ASSUME(b == 0 || b == 1); return b; }
static int in_range(int lo, int hi) { int v; VP_INPUT_RANGE(v, lo, hi); return v; }

/* case split: a query may pin any field of directive j to a constant (the format string then has a concrete shape and symbolic
 * execution follows one parse path); NOPIN leaves the field to the solver */
#define NOPIN (-1000)
#ifndef PINS
#define PINS { { NOPIN, NOPIN, NOPIN, NOPIN, NOPIN, NOPIN, NOPIN, NOPIN, NOPIN }, { NOPIN, NOPIN, NOPIN, NOPIN, NOPIN, NOPIN, NOPIN, NOPIN, NOPIN }, { NOPIN, NOPIN, NOPIN, NOPIN, NOPIN, NOPIN, NOPIN, NOPIN, NOPIN } }
#endif
enum { P_FLAGS, P_WMODE, P_WIDTH, P_PMODE, P_PREC, P_LM, P_CONV, P_POS, P_VCLASS, P_N };
static const int pins[3][P_N] = PINS;
#define PIN(v, j, k) do { if(pins[j][k] != NOPIN) { VP_ASSUME((v) == pins[j][k]); (v) = pins[j][k]; } } while(0)

/* boundary values of every length modifier: 0, +-1, min, max of the converted type, and neighbours that differ only in bits the conversion must discard */
#define NBOUND 8
static const uint64_t sbound[LM_N][NBOUND] = {
	/* none */ { 0, 1, 0xFFFFFFFFu, 0x80000000u, 0x7FFFFFFFu, 0xFFFFFFFF00000000ull, 0x0000000180000000ull, 0x00000000FFFFFFFEull },
	/* hh   */ { 0, 1, 0xFFu, 0x80u, 0x7Fu, 0x100u, 0xFFFFFF80u, 0x17Fu },
	/* h    */ { 0, 1, 0xFFFFu, 0x8000u, 0x7FFFu, 0x10000u, 0xFFFF8000u, 0x17FFFu },
	/* l    */ { 0, 1, ~0ull, 0x8000000000000000ull, 0x7FFFFFFFFFFFFFFFull, 0x80000000ull, 0xFFFFFFFFull, 0x100000000ull },
	/* ll   */ { 0, 1, ~0ull, 0x8000000000000000ull, 0x7FFFFFFFFFFFFFFFull, 0x80000000ull, 0xFFFFFFFFull, 0x100000000ull },
	/* z    */ { 0, 1, ~0ull, 0x8000000000000000ull, 0x7FFFFFFFFFFFFFFFull, 0x80000000ull, 0xFFFFFFFFull, 0x100000000ull },
	/* t    */ { 0, 1, ~0ull, 0x8000000000000000ull, 0x7FFFFFFFFFFFFFFFull, 0x80000000ull, 0xFFFFFFFFull, 0x100000000ull },
	/* j    */ { 0, 1, ~0ull, 0x8000000000000000ull, 0x7FFFFFFFFFFFFFFFull, 0x80000000ull, 0xFFFFFFFFull, 0x100000000ull },
};

/* solver-chosen directive j; star width / precision values are filled in later from the argument words */
static void choose_dir(struct dir *d, int j) {
	int flags = in_range(0, 127);
	PIN(flags, j, P_FLAGS);
	d->left = flags & 1; d->plus = (flags >> 1) & 1; d->space = (flags >> 2) & 1; d->alt = (flags >> 3) & 1; d->zero = (flags >> 4) & 1; d->group = (flags >> 5) & 1; d->rev = (flags >> 6) & 1;
	d->wmode = in_range(0, 2); d->width = in_range(1, WMAX); d->pmode = in_range(0, 3); d->prec = in_range(0, WMAX); d->lm = in_range(0, LM_N - 1); d->conv = in_range(0, CV_N - 1);
	d->pos = in_range(0, 3);
	PIN(d->wmode, j, P_WMODE); if(d->wmode == 1) PIN(d->width, j, P_WIDTH); PIN(d->pmode, j, P_PMODE); if(d->pmode == 1) PIN(d->prec, j, P_PREC); PIN(d->lm, j, P_LM); PIN(d->conv, j, P_CONV); PIN(d->pos, j, P_POS);
#ifdef VP_NATIVE
	if(getenv("VP_RANDOM")) {      /* random validation vectors: fold into the combinations ISO C defines */
		if(d->conv == CV_d || d->conv == CV_i || d->conv == CV_u) d->alt = 0; else d->group = 0;
		if(d->conv >= CV_c && d->conv <= CV_pct) { d->lm = 0; d->plus = d->space = d->alt = d->zero = d->group = 0; if(d->conv != CV_s) d->pmode = 0; if(d->conv >= CV_p) { d->left = 0; d->wmode = 0; } }
		if(d->pos) { if(d->wmode == 2) d->wmode = 1; if(d->pmode == 2) d->pmode = 1; }
	}
#endif
	if(d->wmode != 1) d->width = 0;
	if(d->pmode != 1) d->prec = 0;
}

/* constrain the argument word of an integer conversion to its value class; returns the (possibly concretised) word */
static uint64_t constrain_value(const struct dir *d, uint64_t raw, int j, int *small) {
	int vclass = 0;
	*small = 0;
	if(pins[j][P_VCLASS] != NOPIN) vclass = pins[j][P_VCLASS];
	if(vclass > 0) {          /* concrete boundary value: the digit loop constant-folds */
		VP_NATIVE_ONLY(if(getenv("VP_RANDOM")) raw = sbound[d->lm][vclass - 1];)
		VP_ASSUME(raw == sbound[d->lm][vclass - 1]);
		return sbound[d->lm][vclass - 1];
	}
	if(d->conv == CV_d || d->conv == CV_i || d->conv == CV_u) {   /* bounded radix-10 digit kernel: |converted value| < DMAX; any upper half for int-class arguments */
		int narrow = d->lm == LM_none || d->lm == LM_hh || d->lm == LM_h;
		VP_NATIVE_ONLY(if(getenv("VP_RANDOM")) { int64_t v = (int64_t)((raw >> 8) % DMAX); if((raw & 4) && d->conv != CV_u) v = -v; raw = narrow ? ((raw & 0xFFFFFFFF00000000ull) | (uint32_t)v) : (uint64_t)v; })
#ifdef VPOS    /* experiment: non-negative, syntactically zero-extended */
		{ uint64_t keep = raw; raw = raw & 0x3FF; if(narrow) raw |= keep & 0xFFFFFFFF00000000ull; VP_ASSUME((raw & 0x3FF) < DMAX); }
#endif
		if(d->conv == CV_u) {
			uint64_t u = d->lm == LM_none ? (uint32_t)raw : d->lm == LM_hh ? (uint8_t)raw : d->lm == LM_h ? (uint16_t)raw : raw;
			VP_ASSUME(u < DMAX);
		} else {
			int64_t v = d->lm == LM_none ? (int32_t)raw : d->lm == LM_hh ? (int8_t)raw : d->lm == LM_h ? (int16_t)raw : (int64_t)raw;
			VP_ASSUME(v > -(int64_t)DMAX && v < (int64_t)DMAX);
		}
		*small = 1;
	}
	return raw;
}

/* everything a run over NDIR directives needs: the directives, the literal bytes around them, where each one's arguments live */
static struct dir D[3];
static int sep_on[4]; static char sep_ch[4];
static int arg_w[3], arg_p[3], arg_v[3], nargs;       /* slot indices of the star width, star precision and value of each directive (-1: none) */

static void choose_format(int need_defined) {
	int positional = in_bit();
	for(int i = 0; i < NSLOT; i++) VP_INPUT(slots[i]);
	for(int j = 0; j <= NDIR; j++) {
		sep_on[j] = in_bit(); VP_INPUT(sep_ch[j]);
#ifdef SEPS     /* case split: which of the literal bytes before / between / after the directives are present (bit j) */
		VP_NATIVE_ONLY(if(getenv("VP_RANDOM")) sep_on[j] = ((SEPS) >> j) & 1;)
		VP_ASSUME(sep_on[j] == (((SEPS) >> j) & 1)); sep_on[j] = ((SEPS) >> j) & 1;
		/* and their content: a solver-chosen byte would make "is this byte a %?" a symbolic branch of the parser (does not finish) */
		VP_NATIVE_ONLY(if(getenv("VP_RANDOM")) sep_ch[j] = (char)("x:-."[j & 3]);)
		VP_ASSUME(sep_ch[j] == "x:-."[j & 3]); sep_ch[j] = "x:-."[j & 3];
#endif
		VP_NATIVE_ONLY(if(getenv("VP_RANDOM") && (sep_ch[j] == 0 || sep_ch[j] == '%')) sep_ch[j] = 'a' + j;)
		VP_ASSUME(sep_ch[j] != 0 && sep_ch[j] != '%');
	}
	nargs = 0;
	for(int j = 0; j < NDIR; j++) {
		struct dir *d = &D[j];
		choose_dir(d, j);
		VP_NATIVE_ONLY(if(getenv("VP_RANDOM")) { if(!positional) d->pos = 0; else { if(d->pos == 0) d->pos = 1 + j; if(d->conv == CV_pct) d->conv = CV_d; } })
		VP_ASSUME(positional ? (d->pos >= 1 || d->conv == CV_pct) : d->pos == 0);     /* numbered and unnumbered directives must not be mixed (POSIX) */
		arg_w[j] = arg_p[j] = arg_v[j] = -1;
		/* a * argument may be pinned too (PINS width / prec with wmode / pmode 2): the sign test the parser performs on it is then decided during symbolic execution */
		if(d->wmode == 2 && pins[j][P_WIDTH] != NOPIN) { VP_NATIVE_ONLY(if(getenv("VP_RANDOM")) slots[nargs] = (uint32_t)pins[j][P_WIDTH];) VP_ASSUME(slots[nargs] == (uint32_t)pins[j][P_WIDTH]); slots[nargs] = (uint32_t)pins[j][P_WIDTH]; }
		if(d->wmode == 2) { arg_w[j] = nargs++; d->width = pins[j][P_WIDTH] != NOPIN ? pins[j][P_WIDTH] : (int)(int32_t)slots[arg_w[j]];
			VP_NATIVE_ONLY(if(getenv("VP_RANDOM")) { d->width = (int)(slots[arg_w[j]] % (2 * WMAX + 1)) - WMAX; slots[arg_w[j]] = (slots[arg_w[j]] & 0xFFFFFFFF00000000ull) | (uint32_t)d->width; }) }
		if(d->pmode == 2 && pins[j][P_PREC] != NOPIN) { VP_NATIVE_ONLY(if(getenv("VP_RANDOM")) slots[nargs] = (uint32_t)pins[j][P_PREC];) VP_ASSUME(slots[nargs] == (uint32_t)pins[j][P_PREC]); slots[nargs] = (uint32_t)pins[j][P_PREC]; }
		if(d->pmode == 2) { arg_p[j] = nargs++; d->prec = pins[j][P_PREC] != NOPIN ? pins[j][P_PREC] : (int)(int32_t)slots[arg_p[j]];
			VP_NATIVE_ONLY(if(getenv("VP_RANDOM")) { d->prec = (int)(slots[arg_p[j]] % (WMAX + 3)) - 2; slots[arg_p[j]] = (slots[arg_p[j]] & 0xFFFFFFFF00000000ull) | (uint32_t)d->prec; }) }
		if(d->conv != CV_pct) arg_v[j] = d->pos ? d->pos - 1 : nargs++;
		VP_ASSUME(need_defined ? dir_defined(d) : dir_syntax(d));
	}
}
static int put_format(void) {
	int k = 0;
	for(int j = 0; j <= NDIR; j++) {
		if(sep_on[j]) fmt[k++] = sep_ch[j];
		if(j < NDIR) k = put_directive(fmt, k, &D[j]);
	}
	fmt[k] = 0;
	return k;
}

/* ================================================================ (C) the whole pipeline: printf_format + do_printf_* */
void harness_layout(void) {
	int small[3] = { 0, 0, 0 };
	choose_format(1);
	for(int j = 0; j < NDIR; j++) {
		struct dir *d = &D[j];
		if(d->conv == CV_s) {
			for(int i = 0; i < SLEN; i++) VP_INPUT(strarg[j][i]);
			strarg[j][SLEN] = 0; strarg[j][SLEN + 1] = 'X';    /* terminated within SLEN+1 bytes; a precision may stop the read earlier */
			slots[arg_v[j]] = (uint64_t)(uintptr_t)strarg[j];
		} else if(d->conv <= CV_X || d->conv >= CV_b)
			slots[arg_v[j]] = constrain_value(d, slots[arg_v[j]], j, &small[j]);
	}
	put_format();
	npiece = 0;
	for(int j = 0; j <= NDIR; j++) {
		if(sep_on[j]) piece_char(&PC[npiece++], sep_ch[j]);
		if(j < NDIR) ref_directive(&PC[npiece++], &D[j], arg_v[j] >= 0 ? slots[arg_v[j]] : 0, strarg[j], small[j]);
	}
	VP_ASSERT(ref_finish() < 256, "harness: bounds keep every output shorter than 256 bytes");
	va_tag ap; mk_va(&ap);
	nput = 0;
	int n = (int)c19_vprintf(arg_cache, (uint8_t *)fmt, &ap);
	VP_ASSERT(n >= 0, "printf_format reports success on a well-formed format");
	CHECK_LENGTH(n, "printf: number of bytes produced equals ISO C");
	VP_WITNESS(0, "format processed and compared");
	OBSERVE_OUT(); VP_NATIVE_ONLY(if(!vp_quiet) printf("fmt=[%s]\n", fmt);)
}

/* ================================================================ (A) the parser alone: what printf_format hands to the agent */
#define NEV 24
static int ev_n, ev_kind[NEV]; static uint64_t ev_a[NEV], ev_b[NEV], ev_v[NEV];
static void ev_add(int kind, uint64_t a, uint64_t b, uint64_t v) { if(ev_n < NEV) { ev_kind[ev_n] = kind; ev_a[ev_n] = a; ev_b[ev_n] = b; ev_v[ev_n] = v; } ev_n++; }
void c19_lit(uint32_t c) { ev_add(1, c, 0, 0); }
void c19_rec(uint32_t t, uint32_t szmod, uint32_t width, uint32_t has_prec, uint32_t prec, uint32_t flags, uint32_t arg_pos, uint32_t dollar, uint32_t other, uint64_t value) {
	/* pack: a = t | szmod<<8 | flags<<16 | has_prec<<24 | dollar<<25 | other<<26;  b = width | prec<<32 (prec only if present); v = value; arg_pos separately */
	ev_add(2, t | (szmod << 8) | (flags << 16) | (has_prec << 24) | (dollar << 25) | (other << 26), (uint64_t)width | ((uint64_t)(has_prec ? prec : 0) << 32), value);
	ev_add(3, arg_pos, 0, 0);
}
static const int lm_szmod[LM_N] = { 0, 1, 2, 3, 4, 6, 6, 7 };     /* printf_size_mod: default, char, short, long, longlong, (longdouble = 5), native, intmax; z and t both map to native */

void harness_parse(void) {
	choose_format(0);
	put_format();
	/* the positional cache keeps sizeof(T) bytes of the type each argument was FIRST fetched with (known finding printf-positional-widening, checked
	 * by the poparg queries); this query stays inside "no later directive reads an argument with a wider type than it was cached with" */
	int num = 0, cw[NSLOT];
	for(int j = 0; j < NDIR; j++) if(D[j].pos && D[j].conv != CV_pct) {
		int sz = D[j].conv == CV_c ? 1 : (D[j].conv == CV_s || D[j].conv == CV_p || D[j].lm >= LM_l) ? 8 : 4;
		for(int i = num; i <= arg_v[j]; i++) cw[i] = sz;
		if(num <= arg_v[j]) num = arg_v[j] + 1;
		VP_PRE_OR(cw[arg_v[j]] >= sz, return);
	}
	va_tag ap; mk_va(&ap);
	ev_n = 0;
	int r = (int)c19_parse(arg_cache, (uint8_t *)fmt, &ap);
	VP_ASSERT(r == 0, "printf_format reports success on a well-formed format");
	int e = 0, dollar = 0;
	for(int j = 0; j <= NDIR; j++) {
		if(sep_on[j]) { VP_ASSERT(e < ev_n && ev_kind[e] == 1 && ev_a[e] == (uint8_t)sep_ch[j], "parser: literal text is passed to the agent unchanged and in order"); e++; }
		if(j == NDIR) break;
		const struct dir *d = &D[j];
		if(d->conv == CV_pct) { VP_ASSERT(e < ev_n && ev_kind[e] == 1 && ev_a[e] == '%', "parser: %% yields one literal %"); e++; continue; }
		int left, width, has_prec, prec;
		dir_norm(d, &left, &width, &has_prec, &prec);
		if(d->pos) dollar = 1;
		uint32_t flags = (uint32_t)(left | (d->plus << 1) | (d->space << 2) | (d->alt << 3) | (d->zero << 4) | (d->group << 5));
		uint64_t a = (uint8_t)cv_chr[d->conv] | ((uint32_t)lm_szmod[d->lm] << 8) | (flags << 16) | ((uint32_t)has_prec << 24) | ((uint32_t)dollar << 25);
		uint64_t b = (uint64_t)(uint32_t)width | ((uint64_t)(uint32_t)prec << 32);
		uint64_t raw = slots[arg_v[j]];
		uint64_t v = d->conv == CV_c ? (uint8_t)raw : (d->conv == CV_s || d->conv == CV_p || d->lm >= LM_l) ? raw : (uint32_t)raw;
		VP_ASSERT(e + 1 < ev_n && ev_kind[e] == 2, "parser: one agent call per directive, in order");
		VP_ASSERT((ev_a[e] & 0xFF) == (a & 0xFF), "parser: conversion character handed to the agent");
		VP_ASSERT(((ev_a[e] >> 8) & 0xFF) == ((a >> 8) & 0xFF), "parser: length modifier handed to the agent");
		VP_ASSERT(((ev_a[e] >> 16) & 0xFF) == ((a >> 16) & 0xFF), "parser: flags - + space # 0 ' (and '-' from a negative * width) handed to the agent");
		VP_ASSERT((ev_a[e] >> 24) == (a >> 24), "parser: precision presence / positional mode / untouched option fields");
		VP_ASSERT(ev_b[e] == b, "parser: width and precision values (literal or * argument) handed to the agent");
		VP_ASSERT(ev_v[e] == v, "parser: the agent's pop_arg fetches the directive's own argument (after the * arguments, or by position)");
		VP_ASSERT(ev_kind[e + 1] == 3 && (int)(int32_t)ev_a[e + 1] == (d->pos ? d->pos - 1 : -1), "parser: n$ position handed to the agent");
		e += 2;
	}
	VP_ASSERT(e == ev_n, "parser: no further output or agent calls");
	VP_WITNESS(0, "format parsed and compared");
	VP_WITNESS(!(D[0].wmode == 2 && D[0].width < 0), "negative * width reachable");
	VP_OBSERVE(ev_n); VP_NATIVE_ONLY(for(int i = 0; i < ev_n && i < NEV; i++) { VP_OBSERVE(ev_kind[i]); VP_OBSERVE(ev_a[i]); VP_OBSERVE(ev_b[i]); VP_OBSERVE(ev_v[i]); } if(!vp_quiet) printf("fmt=[%s]\n", fmt);)
}

/* ================================================================ (B) the conversion back ends alone: do_printf_ints / do_printf_chars with explicit options */
void harness_opts(void) {
	struct dir *d = &D[0];
	int small = 0;
	choose_dir(d, 0);
	d->pos = 0;
	/* the options a correct parser produces: width >= 0 (a negative * width has become '-'), precision absent or >= 0 */
	d->wmode = 2; d->width = in_range(0, WMAX); d->pmode = in_bit() ? 2 : 0; d->prec = in_range(0, WMAX); if(!d->pmode) d->prec = 0;
	VP_ASSUME(dir_defined(d) && d->conv != CV_pct);
	VP_INPUT(slots[0]);
	if(d->conv == CV_s) {
		for(int i = 0; i < SLEN; i++) VP_INPUT(strarg[0][i]);
		strarg[0][SLEN] = 0; strarg[0][SLEN + 1] = 'X';
		slots[0] = (uint64_t)(uintptr_t)strarg[0];
	} else if(d->conv <= CV_X || d->conv >= CV_b)
		slots[0] = constrain_value(d, slots[0], 0, &small);
	npiece = 1; ref_directive(&PC[0], d, slots[0], strarg[0], small);
	VP_ASSERT(ref_finish() < 256, "harness: bounds keep every output shorter than 256 bytes");
	va_tag ap; mk_va(&ap);
	uint32_t flags = (uint32_t)(d->left | (d->plus << 1) | (d->space << 2) | (d->alt << 3) | (d->zero << 4) | (d->group << 5));
	int n;
	nput = 0;
	if(d->conv >= CV_c && d->conv <= CV_p) n = (int)c19_chars((uint8_t)cv_chr[d->conv], lm_szmod[d->lm], flags, d->width, d->pmode != 0, d->prec, arg_cache, &ap);
	else n = (int)c19_ints((uint8_t)cv_chr[d->conv], lm_szmod[d->lm], flags, d->width, d->pmode != 0, d->prec, arg_cache, &ap);
	CHECK_LENGTH(n, "do_printf_*: number of bytes produced equals ISO C");
	VP_WITNESS(0, "conversion formatted and compared");
	VP_WITNESS(nput == 0, "a non-empty output is reachable");
	OBSERVE_OUT(); VP_NATIVE_ONLY(if(!vp_quiet) printf("conv=%c\n", cv_chr[d->conv]);)
}

/* ================================================================ pop_arg alone: K fetches over one va_struct, sequential or positional */
#ifndef K
#define K 3
#endif
#define NA 4
static struct S_struct_frg__va_struct VS;
static const int kind_size[9] = { 4, 8, 8, 1, 2, 1, 2, 4, 8 };
static uint64_t kind_conv(int kind, uint64_t raw) {      /* what va_arg(T) (after the default promotions) yields for the argument word */
	switch(kind) {
	case 0: return (uint64_t)(int64_t)(int32_t)raw; case 1: case 2: case 8: return raw;
	case 3: return (uint64_t)(int64_t)(int8_t)(int32_t)raw; case 4: return (uint64_t)(int64_t)(int16_t)(int32_t)raw;
	case 5: return (uint8_t)raw; case 6: return (uint16_t)raw; default: return (uint32_t)raw;
	}
}
void harness_poparg(void) {
	int positional = in_bit();
#ifdef KF_WIDENING
	VP_ASSUME(positional);
#endif
	for(int i = 0; i < NA + 1; i++) VP_INPUT(slots[i]);
	va_tag ap; mk_va(&ap);
	c19_pop_init(&VS, arg_cache, &ap);
	int seq = 0, num = 0, cw[NA], widened = 0;
	for(int step = 0; step < K; step++) {
		int kind = in_range(0, 8), pos = in_range(0, NA - 1);
#ifdef KINDS    /* case split: the type requested at every step (a solver-chosen type makes every step a 9-way dispatch over pop_arg instantiations) */
		{ static const int kinds[] = KINDS; VP_ASSUME(kind == kinds[step]); kind = kinds[step]; }
#endif
		uint64_t got, want;
		if(!positional) {
			VP_PRE_OR(seq < NA, break);
			got = c19_pop(&VS, kind, -1, 0); want = kind_conv(kind, slots[seq++]);
		} else {
			/* model of "which type was argument i first fetched (cached) with" */
			for(int i = num; i <= pos; i++) cw[i] = kind_size[kind];
			if(num <= pos) num = pos + 1;
			int widening = cw[pos] < kind_size[kind];
#ifdef KF_WIDENING       /* known finding: this query must FAIL, on exactly the excluded class */
			if(step == K - 1) VP_ASSUME(widening); else VP_PRE_OR(!widening, break);
#else
			VP_PRE_OR(!widening, break);      /* known finding printf-positional-widening: excluded here, shown by the known-finding query */
#endif
			got = c19_pop(&VS, kind, pos, 1); want = kind_conv(kind, slots[pos]);
		}
		VP_ASSERT(got == want, "pop_arg yields the argument the directive designates (next in order, or the n-th), converted to the requested type");
		VP_OBSERVE(got);
	}
	VP_WITNESS(0, "K arguments fetched");
}

/* ================================================================ print_digits / print_int alone */
#ifndef RADIX
#define RADIX 16
#endif
void harness_digits(void) {
	uint64_t number; VP_INPUT(number);
	int negative = in_bit(), zero = in_bit(), left = in_bit(), plus = in_bit(), space = in_bit(), caps = in_bit();
	int width = in_range(0, WMAX), precision = in_range(0, WMAX), via = in_range(0, 2);
#ifdef VIA
	VP_ASSUME(via == VIA); via = VIA;
#endif
#if RADIX == 10
	VP_NATIVE_ONLY(if(getenv("VP_RANDOM")) number %= DMAX;)
	VP_ASSUME(number < DMAX);
#endif
	char sign = negative ? '-' : plus ? '+' : space ? ' ' : 0;
	int n;
	npiece = 1; nput = 0;
	if(via == 0) {            /* print_digits: magnitude and sign given separately */
		ref_number(&PC[0], number, RADIX == 10, RADIX, caps, sign, 0, 0, width, left, zero && !left, precision, 0);
		ref_finish();
		n = (int)c19_digits(number, negative, RADIX, width, precision, zero, left, plus, space, caps);
	} else if(via == 1) {     /* print_int<int64_t>: the magnitude of the most negative value must not overflow */
		int64_t v = (int64_t)number; if(negative) v = (int64_t)(0 - number);
		ref_number(&PC[0], v < 0 ? 0 - (uint64_t)v : (uint64_t)v, RADIX == 10, RADIX, 0, v < 0 ? '-' : 0, 0, 0, width, 0, 0, precision, 0);
		ref_finish();
		n = (int)c19_int64((uint64_t)v, RADIX, width, precision);
	} else {
		int32_t v = (int32_t)number; if(negative) v = (int32_t)(0 - (uint32_t)number);
		ref_number(&PC[0], v < 0 ? (uint64_t)(0 - (uint32_t)v) : (uint64_t)v, RADIX == 10, RADIX, 0, v < 0 ? '-' : 0, 0, 0, width, 0, 0, precision, 0);
		ref_finish();
		n = (int)c19_int32((uint32_t)v, RADIX, width, precision);
	}
	CHECK_LENGTH(n, "print_digits/print_int: number of bytes equals the reference");
	VP_WITNESS(0, "number printed and compared");
	OBSERVE_OUT();
}
#endif /* !C19_XCHECK */

#ifdef C19_XCHECK
/* ================================================================ cross-check of the oracle (and of the format assembler) against glibc snprintf.
 * Built and run natively by props/C19.py:prepare() on every run; any difference makes the check BROKEN. */
#include <stdio.h>
#include <string.h>
int main(void) {
	static const int widths[][2] = { {0, 0}, {1, 1}, {1, 2}, {1, 3}, {1, 9}, {1, 10}, {1, 12}, {1, WMAX}, {2, -WMAX}, {2, -4}, {2, -1}, {2, 0}, {2, 1}, {2, 6}, {2, WMAX} };
	static const int precs[][2] = { {0, 0}, {3, 0}, {1, 0}, {1, 1}, {1, 2}, {1, 3}, {1, 10}, {1, 23}, {1, WMAX}, {2, -2}, {2, -1}, {2, 0}, {2, 1}, {2, 5}, {2, WMAX} };
	static const uint64_t vals[] = { 0, 1, 2, 7, 8, 9, 10, 99, 100, 999, 1000, 12345, 0x7F, 0x80, 0xFF, 0x100, 0x7FFF, 0x8000, 0xFFFF, 0x10000, 0x7FFFFFFF, 0x80000000u, 0xFFFFFFFFu,
		0x100000000ull, 0xFFFFFFFF00000000ull, 0x7FFFFFFFFFFFFFFFull, 0x8000000000000000ull, ~0ull, ~0ull - 4, 0xFFFFFFFFFFFFFF80ull, 0xFFFFFFFFFFFF8000ull, 0xFFFFFFFF80000000ull, 0xDEADBEEFCAFEF00Dull, 1234567890123456789ull };
	static const char *strs[] = { "", "a", "hello", "hi\0zz" };
	long total = 0, bad = 0;
	for(int conv = 0; conv < CV_N; conv++) for(int lm = 0; lm < LM_N; lm++) for(int flags = 0; flags < 128; flags++)
	for(unsigned wi = 0; wi < sizeof widths / sizeof widths[0]; wi++) for(unsigned pi = 0; pi < sizeof precs / sizeof precs[0]; pi++) {
		struct dir d = { flags & 1, (flags >> 1) & 1, (flags >> 2) & 1, (flags >> 3) & 1, (flags >> 4) & 1, (flags >> 5) & 1, widths[wi][0], widths[wi][1], precs[pi][0], precs[pi][1], lm, conv, 0, (flags >> 6) & 1 };
		if(!dir_defined(&d)) continue;
		if(d.rev && (flags & 63) != 63 && (flags & 63) != 21 && (flags & 63) != 17) continue;       /* reversed flag order: a few subsets */
		char f[64]; int k = 0; f[k++] = '<'; k = put_directive(f, k, &d); f[k++] = '>'; f[k] = 0;
		unsigned nv = conv == CV_s ? 4 : conv == CV_pct ? 1 : sizeof vals / sizeof vals[0];
		for(unsigned vi = 0; vi < nv; vi++) {
			uint64_t raw = vals[vi]; const char *str = strs[vi & 3];
			if(conv == CV_p && raw == 0) continue;                 /* glibc prints "(nil)"; frigg documents 0x0 */
			char mine[256], libc[256]; int m, g;
			npiece = 3; piece_char(&PC[0], '<'); ref_directive(&PC[1], &d, raw, str, vals[vi] < DMAX && vi < 10); piece_char(&PC[2], '>');
			m = ref_finish(); for(int i = 0; i < m && i < 255; i++) mine[i] = (char)ref_at(i); mine[m < 255 ? m : 255] = 0;
#define CALL(arg) (d.wmode == 2 ? (d.pmode == 2 ? snprintf(libc, sizeof libc, f, d.width, d.prec, arg) : snprintf(libc, sizeof libc, f, d.width, arg)) \
                                : (d.pmode == 2 ? snprintf(libc, sizeof libc, f, d.prec, arg) : snprintf(libc, sizeof libc, f, arg)))
			if(conv == CV_s) g = CALL(str);
			else if(conv == CV_p) g = CALL((void *)(uintptr_t)raw);
			else if(conv == CV_pct) g = snprintf(libc, sizeof libc, "%s", "<%>");
			else if(conv == CV_c || lm == LM_none || lm == LM_hh || lm == LM_h) g = CALL((int)(uint32_t)raw);
			else g = CALL((long)raw);
			total++;
			if(g != m || memcmp(mine, libc, (size_t)m) != 0) { if(bad++ < 20) printf("MISMATCH fmt=[%s] raw=%#llx width=%d prec=%d  interpreter=[%s] (%d)  glibc=[%s] (%d)\n", f, (unsigned long long)raw, d.width, d.prec, mine, m, libc, g); }
		}
	}
	printf("xcheck: %ld directive/value combinations compared with glibc snprintf, %ld mismatches\n", total, bad);
	return bad ? 1 : 0;
}
#endif
