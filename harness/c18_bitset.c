/* C18 — frg::bitset<NB> against a bit-array reference (what std::bitset<NB> prescribes).
 * One step from an ARBITRARY valid state (all bits < NB arbitrary, bits >= NB clear): a bitset has no hidden
 * state, so one step from every valid state + the constructors as base case covers histories of any length.
 * -DNB=<bits> -DNW=<words> ; the unit is wrap/c18_bitset.cpp lowered with -DVP_NBITS=NB. */
#define VP_PANIC_VIOLATION
#include "vp.h"
#include UNIT_H

#define CAT_(a, b, c) a##b##c
#define CAT(a, b, c) CAT_(a, b, c)
#define F(name) CAT(bs, NB, _##name)
typedef struct S_struct_box box;
#define W(x, i) ((x).f1.f0.e[i])

box A, B, C;
static int bit(const box *x, uint64_t i) { return (W(*x, i / 64) >> (i % 64)) & 1; }
static void havoc_box(box *x) {
	x->f0 = 0x1111111111111111ULL; x->f2 = 0x2222222222222222ULL;
	for(int i = 0; i < NW; i++) VP_INPUT(W(*x, i));
	if(NB % 64) VP_ASSUME((W(*x, NW - 1) >> (NB % 64)) == 0);
}
static void check_frame(const box *x, const char *unused) {
	VP_ASSERT(x->f0 == 0x1111111111111111ULL && x->f2 == 0x2222222222222222ULL, "bitset wrote memory outside itself (guard words changed)");
	if(NB % 64) VP_ASSERT((W(*x, NW - 1) >> (NB % 64)) == 0, "bitset changed bits at or beyond N");
}
static int same(const box *x, const box *y) { int r = 1; for(int i = 0; i < NW; i++) if(W(*x, i) != W(*y, i)) r = 0; return r; }

void harness(void) {
	int op; uint64_t p, q, n, val; uint8_t v;
	box A0, B0, C0;
	havoc_box(&A); havoc_box(&B); havoc_box(&C);
	VP_INPUT(op); VP_INPUT(p); VP_INPUT(q); VP_INPUT(n); VP_INPUT(val); VP_INPUT(v);
	VP_ASSUME(p < NB && q < NB && v <= 1);
#ifdef OP
	VP_ASSUME(op == OP);
#endif
#ifdef SHIFT_IN_RANGE
	VP_ASSUME(n < NB);
#endif
	A0 = A; B0 = B; C0 = C;
	uint64_t cnt = 0; int any = 0, all = 1;
	for(uint64_t i = 0; i < NB; i++) { any |= bit(&A0, i); all &= bit(&A0, i); }
	for(int i = 0; i < NW; i++) cnt += ir2c_ctpop64(W(A0, i));   /* popcount itself is the compiler builtin (trusted runtime), the word loop is frigg's */
#define EACH(exp, msg) do { for(uint64_t i = 0; i < NB; i++) VP_ASSERT(bit(&A, i) == (exp), msg); check_frame(&A, 0); \
	VP_ASSERT(same(&B, &B0) && same(&C, &C0), "bitset modified a const operand"); VP_OBSERVE(W(A, 0)); VP_WITNESS(0, msg); } while(0)
#define RET(got, exp, msg) do { int g_ = (got); VP_ASSERT(g_ == (exp), msg); VP_ASSERT(same(&A, &A0), "const query modified the bitset"); check_frame(&A, 0); VP_OBSERVE(g_); VP_WITNESS(0, msg); } while(0)
	switch(op) {
	case 0: F(ctor0)(&A); EACH(0, "bitset(): all bits clear"); break;
	case 1: F(ctor)(&A, val); EACH(i < 64 ? (int)((val >> i) & 1) : 0, "bitset(unsigned long long) equals std::bitset (low bits of val, rest clear)"); break;
	case 2: F(set_all)(&A); EACH(1, "set() sets every bit below N"); break;
	case 3: F(reset_all)(&A); EACH(0, "reset() clears every bit"); break;
	case 4: F(flip_all)(&A); EACH(!bit(&A0, i), "flip() inverts every bit below N"); break;
	case 5: F(set)(&A, p, v); EACH(i == p ? v : bit(&A0, i), "set(pos,val) changes exactly bit pos"); break;
	case 6: F(reset)(&A, p); EACH(i == p ? 0 : bit(&A0, i), "reset(pos) clears exactly bit pos"); break;
	case 7: F(flip)(&A, p); EACH(i == p ? !bit(&A0, i) : bit(&A0, i), "flip(pos) inverts exactly bit pos"); break;
	case 8: RET(F(test)(&A, p), bit(&A0, p), "test(pos) returns bit pos"); break;
	case 9: RET(F(index_const)(&A, p), bit(&A0, p), "const operator[] returns bit pos"); break;
	case 10: RET(F(ref_read)(&A, p), bit(&A0, p), "reference converts to the bit's value"); break;
	case 11: F(ref_assign_bool)(&A, p, v); EACH(i == p ? v : bit(&A0, i), "ref = bool changes exactly bit pos"); break;
	case 12: F(ref_assign_ref)(&A, p, &B, q); EACH(i == p ? bit(&B0, q) : bit(&A0, i), "ref = ref (other bitset) copies the referenced bit's value"); break;
	case 13: F(ref_assign_ref)(&A, p, &A, q); EACH(i == p ? bit(&A0, q) : bit(&A0, i), "ref = ref (same bitset) copies the referenced bit's value"); break;
	case 14: RET(F(ref_not)(&A, p), !bit(&A0, p), "~ref returns the inverted bit"); break;
	case 15: F(ref_flip)(&A, p); EACH(i == p ? !bit(&A0, i) : bit(&A0, i), "ref.flip() inverts exactly bit pos"); break;
	case 16: F(and_assign)(&A, &B); EACH(bit(&A0, i) & bit(&B0, i), "&= is bitwise and"); break;
	case 17: F(or_assign)(&A, &B); EACH(bit(&A0, i) | bit(&B0, i), "|= is bitwise or"); break;
	case 18: F(xor_assign)(&A, &B); EACH(bit(&A0, i) ^ bit(&B0, i), "^= is bitwise xor"); break;
	case 19: F(not)(&A, &B); EACH(!bit(&B0, i), "operator~ inverts every bit below N"); break;
	case 20: F(and)(&A, &B, &C); EACH(bit(&B0, i) & bit(&C0, i), "operator& is bitwise and"); break;
	case 21: F(or)(&A, &B, &C); EACH(bit(&B0, i) | bit(&C0, i), "operator| is bitwise or"); break;
	case 22: F(xor)(&A, &B, &C); EACH(bit(&B0, i) ^ bit(&C0, i), "operator^ is bitwise xor"); break;
	case 23: F(shl_assign)(&A, n); EACH(i >= n ? bit(&A0, i - n) : 0, "<<= by any amount equals std::bitset (zero once the amount reaches N)"); break;
	case 24: F(shr_assign)(&A, n); EACH((n < NB && i < NB - n) ? bit(&A0, i + n) : 0, ">>= by any amount equals std::bitset (zero once the amount reaches N)"); break;
	case 25: F(shl)(&A, &B, n); EACH(i >= n ? bit(&B0, i - n) : 0, "operator<< by any amount equals std::bitset"); break;
	case 26: F(shr)(&A, &B, n); EACH((n < NB && i < NB - n) ? bit(&B0, i + n) : 0, "operator>> by any amount equals std::bitset"); break;
	case 27: RET(F(count)(&A), cnt, "count() is the number of set bits"); break;
	case 28: RET(F(any)(&A), any, "any()"); break;
	case 29: RET(F(all)(&A), all, "all()"); break;
	case 30: RET(F(none)(&A), !any, "none()"); break;
	case 31: RET(F(eq)(&A, &B), same(&A0, &B0), "operator== compares all bits"); break;
	case 32: RET(F(size)(&A), NB, "size() is N"); break;
	default: VP_ASSUME(0);
	}
}
