/* C18 — frg::array<int,4>, pcg_basic32, mt19937, insertion_sort against their references. */
#define VP_PANIC_VIOLATION
#include "vp.h"
#include "c18_misc.h"
#ifndef PCG_DRAWS
#define PCG_DRAWS 2
#endif

typedef struct S_struct_abox abox;
#define EL(x, i) ((x).f1.f0.e[i])
#define G_LO 0x1111111111111111ULL
#define G_HI 0x2222222222222222ULL

/* ---------------------------------------------------------------- array */
abox A, B;
void harness_array(void) {
	int op; uint64_t i;
	A.f0 = B.f0 = G_LO; A.f2 = B.f2 = G_HI;
	for(int k = 0; k < 4; k++) { VP_INPUT(EL(A, k)); VP_INPUT(EL(B, k)); }
	VP_INPUT(op); VP_INPUT(i); VP_ASSUME(i < 4);
#ifdef OP
	VP_ASSUME(op == OP);
#endif
	abox A0 = A, B0 = B;
	uint32_t h = 0; for(int k = 0; k < 4; k++) h = ((h << 5) | (h >> 27)) ^ (uint32_t)EL(A0, k);
	int eq = 1; for(int k = 0; k < 4; k++) if(EL(A0, k) != EL(B0, k)) eq = 0;
#define PTR(call, exp, msg) do { uint32_t *p_ = (uint32_t *)(call); VP_ASSERT(p_ == (uint32_t *)(exp), msg); VP_OBSERVE(p_ - (uint32_t *)&EL(A, 0)); VP_WITNESS(0, msg); } while(0)
#define VAL(call, exp, msg) do { long g_ = (long)(call); VP_ASSERT(g_ == (long)(exp), msg); VP_OBSERVE(g_); VP_WITNESS(0, msg); } while(0)
	switch(op) {
	case 0: PTR(arr_front(&A), &EL(A, 0), "array::front() designates element 0"); break;
	case 1: PTR(arr_back(&A), &EL(A, 3), "array::back() designates element N-1"); break;
	case 2: PTR(arr_cfront(&A), &EL(A, 0), "array::front() const designates element 0"); break;
	case 3: PTR(arr_cback(&A), &EL(A, 3), "array::back() const designates element N-1"); break;
	case 4: PTR(arr_at(&A, i), &EL(A, i), "array::operator[](i) designates element i"); break;
	case 5: PTR(arr_begin(&A), &EL(A, 0), "array::begin()"); break;
	case 6: PTR(arr_end(&A), &EL(A, 0) + 4, "array::end() is one past element N-1"); break;
	case 7: PTR(arr_cbegin(&A), &EL(A, 0), "array::cbegin()"); break;
	case 8: PTR(arr_cend(&A), &EL(A, 0) + 4, "array::cend()"); break;
	case 9: PTR(arr_data(&A), &EL(A, 0), "array::data()"); break;
	case 10: VAL(arr_size(&A), 4, "array::size() == N"); break;
	case 11: VAL(arr_max_size(&A), 4, "array::max_size() == N"); break;
	case 12: VAL(arr_empty(&A), 0, "array::empty() is false for N > 0"); break;
	case 13: VAL(arr_eq(&A, &B), eq, "array::operator== compares element-wise"); break;
	case 14: VAL((uint32_t)arr_sum_iter(&A), (uint32_t)h, "iteration begin()..end() visits elements 0..N-1 in order"); break;
	case 15: PTR(arr_get0(&A), &EL(A, 0), "get<0>(array)"); break;
	case 16: PTR(arr_get3(&A), &EL(A, 3), "get<3>(array)"); break;
	case 17: arr_swap(&A, &B);
		for(int k = 0; k < 4; k++) VP_ASSERT(EL(A, k) == EL(B0, k) && EL(B, k) == EL(A0, k), "swap(array, array) exchanges all elements");
		VP_WITNESS(0, "swap"); break;
	case 18: {
		uint32_t out[7], q3[3];
		for(int k = 0; k < 3; k++) VP_INPUT(q3[k]);
		arr_concat(out, &A, q3);
		for(int k = 0; k < 7; k++) VP_ASSERT(out[k] == (k < 4 ? EL(A0, k) : q3[k - 4]), "array_concat keeps order and values");
		VP_WITNESS(0, "concat"); break; }
	default: VP_ASSUME(0);
	}
	if(op != 17) for(int k = 0; k < 4; k++) VP_ASSERT(EL(A, k) == EL(A0, k) && EL(B, k) == EL(B0, k), "array accessor modified the elements");
	VP_ASSERT(A.f0 == G_LO && A.f2 == G_HI && B.f0 == G_LO && B.f2 == G_HI, "array wrote outside itself");
}

/* ---------------------------------------------------------------- pcg_basic32 (reference: pcg-c-basic, O'Neill 2014) */
static uint32_t ref_pcg_next(uint64_t *state, uint64_t inc) {
	uint64_t old = *state;
	*state = old * 6364136223846793005ULL + inc;
	uint32_t xorshifted = (uint32_t)(((old >> 18u) ^ old) >> 27u);
	uint32_t rot = (uint32_t)(old >> 59u);
	return (xorshifted >> rot) | (xorshifted << ((-rot) & 31));
}
struct S_struct_frg__pcg_basic32 G;
void harness_pcg_step(void) {           /* one draw from an arbitrary generator state */
	VP_INPUT(G.f0); VP_INPUT(G.f1);
	uint64_t st = G.f0, inc = G.f1;
	uint32_t want = ref_pcg_next(&st, inc);
	uint32_t got = pcg_next(&G);
	VP_ASSERT(got == want, "pcg_basic32::operator() output equals the reference pcg32_random_r");
	VP_ASSERT(G.f0 == st && G.f1 == inc, "pcg_basic32::operator() state update equals the reference (LCG step, increment unchanged)");
	VP_OBSERVE(got); VP_WITNESS(0, "pcg step");
}
void harness_pcg_seed(void) {           /* seeding (constructor and seed()) from arbitrary seed/seq, from an arbitrary prior state */
	uint64_t seed, seq; int via_ctor;
	VP_INPUT(G.f0); VP_INPUT(G.f1); VP_INPUT(seed); VP_INPUT(seq); VP_INPUT(via_ctor);
	uint64_t st = 0, inc = (seq << 1) | 1;
	ref_pcg_next(&st, inc); st += seed; ref_pcg_next(&st, inc);
	if(via_ctor) pcg_ctor(&G, seed, seq); else pcg_seed(&G, seed, seq);
	VP_ASSERT(G.f0 == st && G.f1 == inc, "pcg_basic32 seeding equals the reference pcg32_srandom_r for every seed and sequence");
	VP_OBSERVE(G.f0); VP_WITNESS(0, "pcg seed");
}
int vp_draws;
void harness_pcg_bounded(void) {        /* bounded draw: result of the FIRST accepted draw of the reference rejection loop, inside [0,bound) */
	uint32_t bound;
	VP_INPUT(G.f0); VP_INPUT(G.f1); VP_INPUT(bound); VP_ASSUME(bound != 0);
#ifdef PCG_BOUND
	bound = PCG_BOUND;   /* concrete bound family: a symbolic bound gives no verdict (two symbolic-divisor dividers) */
#endif
	uint64_t st = G.f0, inc = G.f1;
	uint32_t threshold = (uint32_t)(-bound) % bound;
	uint32_t r, want = 0; int done = 0, k;
	for(k = 0; k < PCG_DRAWS; k++) { r = ref_pcg_next(&st, inc); if(r >= threshold) { want = r % bound; done = 1; break; } }
	VP_ASSUME(done);                       /* bound on the rejection loop: accepted within PCG_DRAWS draws (stated bound) */
	uint32_t got = pcg_bounded(&G, bound);
	VP_ASSERT(got < bound, "bounded draw lies inside [0, bound)");
	VP_ASSERT(got == want, "bounded draw equals the reference pcg32_boundedrand_r");
	VP_ASSERT(G.f0 == st, "bounded draw consumed exactly the rejected + accepted raw draws");
	VP_OBSERVE(got); VP_WITNESS(0, "pcg bounded");
}

/* ---------------------------------------------------------------- mt19937 (reference: Matsumoto & Nishimura mt19937ar.c) */
#define MT_N 624
#define MT_M 397
struct S_struct_frg__mt19937 MT;
#define ST(i) (MT.f0.e[i])
void harness_mt_seed(void) {            /* init_genrand(s): recurrence checked word by word, for every 32-bit s, from an arbitrary prior state */
	uint32_t s; int via_ctor;
	VP_INPUT(s); VP_INPUT(MT.f1); VP_INPUT(via_ctor);
#ifdef MT_SEED_HIGH   /* fallback bound: only the MT_SEED_BITS low bits of the seed are symbolic */
	VP_ASSUME((s >> MT_SEED_BITS) == ((uint32_t)MT_SEED_HIGH >> MT_SEED_BITS));
	if(MT_SEED_BITS == 0) s = MT_SEED_HIGH;
#endif
	VP_INPUT(ST(0)); VP_INPUT(ST(1)); VP_INPUT(ST(623));
	if(via_ctor) { mt_ctor(&MT); s = 5489; } else mt_seed(&MT, s);
	VP_ASSERT(ST(0) == s, "mt19937::seed: word 0 is the seed");
	for(int i = 1; i < MT_N; i++)
		VP_ASSERT(ST(i) == (uint32_t)(((ST(i - 1) >> 30) ^ ST(i - 1)) * 1812433253u + (uint32_t)i), "mt19937::seed: word i follows the init_genrand recurrence");
	VP_ASSERT(MT.f1 == MT_N, "mt19937::seed: the next draw regenerates the state (position == N)");
	VP_OBSERVE(ST(623)); VP_WITNESS(0, "mt seed");
}
uint32_t ref_st[MT_N];
void harness_mt_next(void) {            /* genrand_int32 from an ARBITRARY state and position: twist + tempering */
	int ctr;
	for(int i = 0; i < MT_N; i++) { VP_INPUT(ST(i)); ref_st[i] = ST(i); }
	VP_INPUT(ctr); VP_ASSUME(ctr >= 0 && ctr <= MT_N);
#ifdef MT_TWIST
	VP_ASSUME(ctr == MT_N);
#else
	VP_ASSUME(ctr < MT_N);
#endif
	MT.f1 = (uint32_t)ctr;
	static const uint32_t mag01[2] = {0x0u, 0x9908b0dfu};
	int rc = ctr;
	if(rc >= MT_N) {
		int kk; uint32_t y;
		for(kk = 0; kk < MT_N - MT_M; kk++) { y = (ref_st[kk] & 0x80000000u) | (ref_st[kk + 1] & 0x7fffffffu); ref_st[kk] = ref_st[kk + MT_M] ^ (y >> 1) ^ mag01[y & 1]; }
		for(; kk < MT_N - 1; kk++) { y = (ref_st[kk] & 0x80000000u) | (ref_st[kk + 1] & 0x7fffffffu); ref_st[kk] = ref_st[kk + (MT_M - MT_N)] ^ (y >> 1) ^ mag01[y & 1]; }
		y = (ref_st[MT_N - 1] & 0x80000000u) | (ref_st[0] & 0x7fffffffu); ref_st[MT_N - 1] = ref_st[MT_M - 1] ^ (y >> 1) ^ mag01[y & 1];
		rc = 0;
	}
	uint32_t y = ref_st[rc++];
	y ^= (y >> 11); y ^= (y << 7) & 0x9d2c5680u; y ^= (y << 15) & 0xefc60000u; y ^= (y >> 18);
	uint32_t got = mt_next(&MT);
	VP_ASSERT(got == y, "mt19937::operator() equals the reference genrand_int32 (twist + tempering)");
	VP_ASSERT((int)MT.f1 == rc, "mt19937::operator() advances the position like the reference");
	for(int i = 0; i < MT_N; i++) VP_ASSERT(ST(i) == ref_st[i], "mt19937 state after the draw equals the reference state");
	VP_OBSERVE(got); VP_WITNESS(0, "mt next");
}

/* ---------------------------------------------------------------- insertion_sort */
#ifndef SORT_N
#define SORT_N 5
#endif
int32_t S[SORT_N + 2], S0[SORT_N + 2];
void harness_sort(void) {
	int n, desc;
	VP_INPUT(n); VP_INPUT(desc); VP_ASSUME(n >= 0 && n <= SORT_N);
#ifdef SORT_LEN
	VP_ASSUME(n == SORT_LEN);
#endif
	for(int i = 0; i < SORT_N + 2; i++) { VP_INPUT(S[i]); S0[i] = S[i]; }
	/* elements 1..n are sorted; S[0] and S[n+1..] are guards */
	if(desc) sort_gt((uint32_t *)&S[1], (uint32_t *)&S[1 + n]); else sort_lt((uint32_t *)&S[1], (uint32_t *)&S[1 + n]);
	for(int i = 1; i <= SORT_N; i++) for(int j = i + 1; j <= SORT_N; j++) if(j <= n)
		VP_ASSERT(!(desc ? S[i] > S[j] : S[i] < S[j]), "insertion_sort: no earlier element satisfies comp(earlier, later)");
	for(int i = 1; i <= SORT_N; i++) if(i <= n) {
		int c0 = 0, c1 = 0;
		for(int j = 1; j <= SORT_N; j++) if(j <= n) { c0 += S0[j] == S0[i]; c1 += S[j] == S0[i]; }
		VP_ASSERT(c0 == c1, "insertion_sort: output is a permutation of the input");
	}
	VP_ASSERT(S[0] == S0[0], "insertion_sort wrote before the range");
	for(int i = 1; i < SORT_N + 2; i++) if(i > n) VP_ASSERT(S[i] == S0[i], "insertion_sort wrote past the range");
	VP_OBSERVE(S[1]); VP_WITNESS(0, "sort");
}
