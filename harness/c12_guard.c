/* C12 — lock guards keep a mutex's acquire/release calls balanced.
 * Bounded history of K solver-chosen guard operations over two guard slots and two instrumented mutexes.
 *   -DKIND=1 unique_lock, 2 shared_lock, 3 qs lock_guard;  -DK=<ops> */
#define VP_PANIC_VIOLATION
#include "vp.h"
#include "c12.h"
typedef struct S_struct_vp_mutex mutex_t;
#define VP_PRE(c) VP_PRE_OR(c, goto skip)
#if KIND == 1
typedef struct S_class_frg__unique_lock guard_t;
#define G(f) ul_##f
#elif KIND == 2
typedef struct S_class_frg__shared_lock guard_t;
#define G(f) sl_##f
#else
typedef struct S_struct_frg__lock_guard guard_t;
#endif

mutex_t M0 = {0}, M1 = {1};
guard_t G0, G1;
/* instrumented mutex: exclusive and shared hold counts, with protocol assertions */
int ex[2], shd[2];
void vp_mx_lock(uint32_t id) { VP_ASSERT(id < 2, "mutex id"); VP_ASSERT(ex[id] == 0, "lock() on a mutex that is already held (double acquire / self-deadlock)"); ex[id]++; }
void vp_mx_unlock(uint32_t id) { VP_ASSERT(id < 2, "mutex id"); VP_ASSERT(ex[id] == 1, "unlock() on a mutex that is not held (double or unmatched release)"); ex[id]--; }
void vp_mx_lock_shared(uint32_t id) { VP_ASSERT(id < 2, "mutex id"); shd[id]++; }
void vp_mx_unlock_shared(uint32_t id) { VP_ASSERT(id < 2, "mutex id"); VP_ASSERT(shd[id] > 0, "unlock_shared() without a matching lock_shared()"); shd[id]--; }
#if KIND == 2
#define HELD(k) shd[k]
#define EXT_ACQ(k) vp_mx_lock_shared(k)
#define WRONG(k) ex[k]
#else
#define HELD(k) ex[k]
#define EXT_ACQ(k) vp_mx_lock(k)
#define WRONG(k) shd[k]
#endif

/* model */
int alive[2], mx[2], locked[2];
static guard_t *gp(int s) { return s ? &G1 : &G0; }
static mutex_t *mp(int k) { return k ? &M1 : &M0; }
static int model_held(int k) { return (alive[0] && locked[0] && mx[0] == k) + (alive[1] && locked[1] && mx[1] == k); }
static void check(void) {
	for(int k = 0; k < 2; k++) {
		VP_ASSERT(HELD(k) == model_held(k), "mutex hold count differs from the number of guards that say they own it");
		VP_ASSERT(WRONG(k) == 0, "guard used the wrong kind of acquire/release call");
	}
#if KIND != 3
	for(int s = 0; s < 2; s++) if(alive[s]) {
		VP_ASSERT(G(is_locked)(gp(s)) == locked[s], "is_locked() disagrees with the reference state");
		for(int k = 0; k < 2; k++) VP_ASSERT(G(protects)(gp(s), mp(k)) == (locked[s] && mx[s] == k), "protects() disagrees with the reference state");
	}
#endif
}

void harness(void) {
	int nops = 0;
	for(int step = 0; step < K; step++) {
		int op, s, k; VP_INPUT(op); VP_INPUT(s); VP_INPUT(k);
		VP_NATIVE_ONLY(if(getenv("VP_RANDOM")) { op = (unsigned)op % 13; s = (unsigned)s & 1; k = (unsigned)k & 1; })
		VP_ASSUME(s >= 0 && s <= 1 && k >= 0 && k <= 1 && op >= 0 && op <= 12);
		int o = 1 - s;
#if KIND != 3
		switch(op) {
		case 0: VP_PRE(!alive[s]); G(ctor_default)(gp(s)); alive[s] = 1; mx[s] = -1; locked[s] = 0; break;
		case 1: VP_PRE(!alive[s] && (KIND == 2 || model_held(k) == 0)); G(ctor_lock)(gp(s), mp(k)); alive[s] = 1; mx[s] = k; locked[s] = 1; break;
		case 2: VP_PRE(!alive[s]); G(ctor_defer)(gp(s), mp(k)); alive[s] = 1; mx[s] = k; locked[s] = 0; break;
		case 3: VP_PRE(!alive[s] && (KIND == 2 || model_held(k) == 0)); EXT_ACQ(k); G(ctor_adopt)(gp(s), mp(k)); alive[s] = 1; mx[s] = k; locked[s] = 1; break;
		case 4: VP_PRE(alive[s] && !locked[s] && mx[s] >= 0 && (KIND == 2 || model_held(mx[s]) == 0)); G(lock)(gp(s)); locked[s] = 1; break;
		case 5: VP_PRE(alive[s] && locked[s]); G(unlock)(gp(s)); locked[s] = 0; break;
		case 6: VP_PRE(alive[s] && !alive[o]); G(ctor_move)(gp(o), gp(s)); alive[o] = 1; mx[o] = mx[s]; locked[o] = locked[s]; mx[s] = -1; locked[s] = 0; break;
		case 7: VP_PRE(alive[s] && alive[o]); G(assign_move)(gp(s), gp(o));      /* s = std::move(o): s's old lock is released, o is left empty */
			mx[s] = mx[o]; locked[s] = locked[o]; mx[o] = -1; locked[o] = 0; break;
		case 8: VP_PRE(alive[s] && alive[o]); G(swap)(gp(s), gp(o)); { int t = mx[s]; mx[s] = mx[o]; mx[o] = t; t = locked[s]; locked[s] = locked[o]; locked[o] = t; } break;
		case 9: VP_PRE(alive[s]); G(dtor)(gp(s)); alive[s] = 0; locked[s] = 0; break;
		case 10: VP_PRE(alive[s]); G(assign_move)(gp(s), gp(s)); break;      /* self move-assignment keeps ownership */
#if KIND == 1
		case 11: VP_PRE(!alive[s] && model_held(k) == 0); ul_factory(gp(s), mp(k)); alive[s] = 1; mx[s] = k; locked[s] = 1; break;
		case 12: VP_PRE(!alive[s]); ul_factory_defer(gp(s), mp(k)); alive[s] = 1; mx[s] = k; locked[s] = 0; break;
#endif
		default: VP_PRE(0);
		}
#else
		switch(op) {
		case 1: VP_PRE(!alive[s] && model_held(k) == 0); qg_ctor(gp(s), mp(k)); alive[s] = 1; mx[s] = k; locked[s] = 1; break;
		case 4: VP_PRE(alive[s] && !locked[s] && model_held(mx[s]) == 0); qg_lock(gp(s)); locked[s] = 1; break;
		case 5: VP_PRE(alive[s] && locked[s]); qg_unlock(gp(s)); locked[s] = 0; break;
		case 9: VP_PRE(alive[s]); qg_dtor(gp(s)); alive[s] = 0; locked[s] = 0; break;
		default: VP_PRE(0);
		}
#endif
		check(); nops++;
		if(0) { skip: ; }
		VP_OBSERVE(ex[0] + 10 * ex[1] + 100 * shd[0] + 1000 * shd[1]);
	}
	/* end of scope: every live guard is destroyed; afterwards nothing is held */
	for(int s = 0; s < 2; s++) if(alive[s]) {
#if KIND != 3
		G(dtor)(gp(s));
#else
		qg_dtor(gp(s));
#endif
		alive[s] = 0; locked[s] = 0; }
	VP_ASSERT(ex[0] == 0 && ex[1] == 0 && shd[0] == 0 && shd[1] == 0, "a mutex is still held after every guard was destroyed (missing release)");
	VP_WITNESS(nops < K, "K guard operations executed");
}
