/* C15 (+ string part of C16) — frg::basic_string_view<char> and frg::basic_string<char, vp_allocator> against a (bytes,len) reference.
 *
 * Source buffers are exact-size malloc'ed objects with ARBITRARY bytes (0 included); C-string sources are exact-size too
 * (LA arbitrary bytes + terminator; the string ends at the first 0).  One byte past any of them is out of bounds for CBMC and for ASan.
 * Lengths are compile-time constants of a query (-DLA, -DLB, ...), contents and scalar arguments are solver-chosen.
 * Owned strings use vp_allocator: every block is exact-size, registered, and must be released exactly once; every history
 * ends with destroying all strings and vp_end().
 *
 * Entry points:  harness_view   one view operation (-DOP=k) or a set of them (-DOPSET=bitmask)
 *                harness_str    one string constructor / observer / C-string mutator from constructed strings  (-DOP=k or -DOPSET=bitmask)
 *                harness_sub    sub_string with arbitrary (from,size): stops through FRG_ASSERT or returns a view inside the source
 *                harness_hist   histories of K mutating operations over two owned strings (-DK, -DH1/-DH2/-DH3: op code or -1 = all)
 * Without the -D constants (translator validation, native random runs) lengths and op codes are inputs. */
#include "vp.h"
/* the generated header declares the allocator hooks with the IR's types (uint8_t *); the definitions live in vp_track.h */
#define vp_alloc c15_decl_vp_alloc
#define vp_free c15_decl_vp_free
#include "c15.h"
#undef vp_alloc
#undef vp_free
#ifndef VP_MAXBLK
#define VP_MAXBLK 16
#endif
/* single-path queries keep released blocks allocated (see SRC_FREE below) */
#if defined(__CPROVER__) && defined(C15_PATHS)
#define VP_NO_REAL_FREE
#endif
#ifdef __CPROVER__
/* vp_alloc fills fresh blocks with memset: CBMC's built-in model turns that into whole-array operations (5 M variables for 19 histories);
 * a byte loop over the (constant) block size is equivalent and folds during symbolic execution */
#include <string.h>
static inline void *c15_memset(void *d, int c, size_t n) { uint8_t *p = (uint8_t *)d; for(size_t i = 0; i < n; i++) p[i] = (uint8_t)c; return d; }
#define memset c15_memset
#else
/* random translator-validation runs only ($VP_RANDOM): allocator blocks get 8 defined slack bytes, like the source buffers (see mk() below), so that
 * an off-by-one on the string's own buffer makes generated C and real C++ behave alike there and is reported by the solver + ASan replay instead */
static void *c15_malloc(size_t n) { size_t slack = getenv("VP_RANDOM") ? 8 : 0; unsigned char *p = (unsigned char *)malloc(n + slack); if(p) for(size_t i = 0; i < slack; i++) p[n + i] = 0xA5; return p; }
#define malloc(n) c15_malloc(n)
/* ... and released blocks stay allocated in those runs: glibc would hand a freed address out again at once (the block registry of vp_track.h looks
 * blocks up by address: a recycled address reads as "released twice"), and a use-after-free must not make the two builds die differently either.
 * CBMC and the native replay of a counterexample (ASan build of the real C++) free for real: use-after-free stays observable there. */
static void c15_free(void *p) { if(!getenv("VP_RANDOM")) free(p); }
#define free(p) c15_free(p)
#endif
#include "vp_track.h"
#ifdef __CPROVER__
#undef memset
#else
#undef malloc
#undef free
#endif

typedef struct S_class_frg__basic_string str_t;
typedef struct S_class_frg__basic_string_view view_t;
#define NPOS ((uint64_t)-1)
#ifndef LMAX
#define LMAX 4            /* largest source length */
#endif
#define CAP (8 * LMAX + 8)  /* capacity of a reference string: three doublings of LMAX fit */

/* assertion hook: sub_string's FRG_ASSERT is an admissible stop only where the harness announces it */
int vp_expect_panic, vp_panicked;
void frg_panic(uint8_t *m) { (void)m; vp_panicked = 1; if(vp_expect_panic) VP_STOP();
	VP_ASSERT(0, "library assertion (FRG_ASSERT) fired on an input inside the property's preconditions"); }
void ir2c_trap_hook(void) { vp_panicked = 1; if(vp_expect_panic) VP_STOP(); VP_ASSERT(0, "trap reached"); }

/* ---------------------------------------------------------------- sources */
size_t la, lb;
uint8_t a[LMAX], b[LMAX], ca[LMAX], cb[LMAX];   /* solver-chosen contents */
uint8_t *A, *B, *A2, *CA, *CB;                    /* exact-size objects: A,A2 = a[0..la), B = b[0..lb), CA = ca[0..la)+NUL, CB = cb[0..lb)+NUL */
size_t lca, lcb;                                  /* the C strings CA / CB denote ca[0..lca) / cb[0..lcb): up to the FIRST NUL (lca <= la: an early NUL is allowed) */
view_t VA, VB, VA2;
int nulla, nullb;                                 /* length 0 only: the view is the default-constructed (nullptr, 0) one */

/* CBMC's model of free() branches on a nondeterministic choice (which freed pointer to remember): in single-path mode every free doubles the
 * number of paths, so the single-path queries (-DC15_PATHS) keep the source buffers and the released blocks allocated */
#ifdef C15_PATHS
#define SRC_FREE(p) ((void)0)
#else
#define SRC_FREE(p) free(p)
#endif
/* Exact-size objects under CBMC and in the native replay of a counterexample (ASan).  Only the random translator-validation runs
 * ($VP_RANDOM) append 8 defined slack bytes: there the generated C (no sanitizer) and the real C++ (ASan) must BEHAVE alike, and a
 * one-byte over-read would otherwise make the two builds differ in how they die instead of being reported by the solver + replay. */
static uint8_t *mk(const uint8_t *src, size_t n, int cstr) {
	size_t slack = 0;
	VP_NATIVE_ONLY(if(getenv("VP_RANDOM")) slack = 8;)
	uint8_t *p = (uint8_t *)malloc(n + (cstr ? 1 : 0) + slack);
#ifdef __CPROVER__
	__CPROVER_assume(p != 0);
#endif
	for(size_t i = 0; i < n; i++) p[i] = src[i];
	if(cstr) p[n] = 0;
	for(size_t i = 0; i < slack; i++) p[n + (cstr ? 1 : 0) + i] = 0xA5;
	return p;
}
static void sources(void) {
#ifdef LA
	la = LA;
#else
	VP_INPUT_RANGE(la, 0, LMAX);
#endif
#ifdef LB
	lb = LB;
#else
	VP_INPUT_RANGE(lb, 0, LMAX);
#endif
#ifdef NULLA
	nulla = NULLA;
#else
	VP_INPUT_RANGE(nulla, 0, 1);
#endif
#ifdef NULLB
	nullb = NULLB;
#else
	VP_INPUT_RANGE(nullb, 0, 1);
#endif
	if(la) nulla = 0;
	if(lb) nullb = 0;
	int digits; VP_INPUT(digits);   /* native random runs only: make digit strings frequent (to_number) */
	for(size_t i = 0; i < LMAX; i++) {
		VP_INPUT(a[i]); VP_INPUT(b[i]); VP_INPUT(ca[i]); VP_INPUT(cb[i]);
		VP_NATIVE_ONLY(if(getenv("VP_RANDOM")) { if(digits & 1) a[i] = '0' + a[i] % 10; if((digits & 6) == 2 && i < 2) b[i] = a[i]; })
	}
	A = mk(a, la, 0); A2 = mk(a, la, 0); B = mk(b, lb, 0); CA = mk(ca, la, 1); CB = mk(cb, lb, 1);
	if(nulla) { v_ctor_default(&VA); v_ctor_default(&VA2); } else { v_ctor_ptrlen(&VA, A, la); v_ctor_ptrlen(&VA2, A2, la); }
	if(nullb) v_ctor_default(&VB); else v_ctor_ptrlen(&VB, B, lb);
}
static void sources_unchanged_and_free(void) {
	for(size_t i = 0; i < LMAX; i++) {
		if(i < la) { VP_ASSERT(A[i] == a[i], "a source buffer was modified"); VP_ASSERT(A2[i] == a[i], "a source buffer was modified"); }
		if(i < lb) VP_ASSERT(B[i] == b[i], "a source buffer was modified");
	}
	SRC_FREE(A); SRC_FREE(A2); SRC_FREE(B);
}
/* C strings: LA (LB) arbitrary bytes + terminator in an exact-size object; the string ends at the FIRST 0, so an early NUL (buffer longer than
 * the string) is included.  The library finds the length from the CONTENT: under path merging that length stays symbolic and the next allocation
 * has a symbolic size (no verdict within 2 GB even for one constructor), so the queries of the operations that take a C string run in CBMC's
 * single-path mode (--paths lifo), where the length is a constant on every path.  The reference length is found the same way, by branching. */
static size_t ref_strlen(const uint8_t *x, size_t n) { for(size_t i = 0; i < LMAX; i++) if(i < n && x[i] == 0) return i; return n; }

static void cstrings_unchanged_and_free(void) {
	for(size_t i = 0; i < LMAX; i++) {
		if(i < la) VP_ASSERT(CA[i] == ca[i], "a C-string source was modified");
		if(i < lb) VP_ASSERT(CB[i] == cb[i], "a C-string source was modified");
	}
	VP_ASSERT(CA[la] == 0, "a C-string source lost its terminator"); VP_ASSERT(CB[lb] == 0, "a C-string source lost its terminator");
	SRC_FREE(CA); SRC_FREE(CB);
}


/* ---------------------------------------------------------------- reference helpers (plain loops over constant bounds) */
static int ref_eq(const uint8_t *x, size_t nx, const uint8_t *y, size_t ny) {
	if(nx != ny) return 0;
	for(size_t i = 0; i < nx; i++) if(x[i] != y[i]) return 0;
	return 1;
}
/* length first, then the first differing element, elements ordered as `char` (the library's Char; signed on x86-64) */
static int ref_cmp(const uint8_t *x, size_t nx, const uint8_t *y, size_t ny) {
	if(nx != ny) return nx < ny ? -1 : 1;
	for(size_t i = 0; i < nx; i++) if(x[i] != y[i]) return (int8_t)x[i] < (int8_t)y[i] ? -1 : 1;
	return 0;
}
static uint64_t ref_find_first(const uint8_t *x, size_t nx, uint8_t c, uint64_t from) {
	for(size_t i = 0; i < LMAX; i++) if(i < nx && i >= from && x[i] == c) return i;
	return NPOS;
}
static uint64_t ref_find_first_of(const uint8_t *x, size_t nx, const uint8_t *set, size_t ns, uint64_t from) {
	for(size_t i = 0; i < LMAX; i++) if(i < nx && i >= from)
		for(size_t j = 0; j < LMAX; j++) if(j < ns && x[i] == set[j]) return i;
	return NPOS;
}
static uint64_t ref_find_last(const uint8_t *x, size_t nx, uint8_t c) {
	uint64_t r = NPOS;
	for(size_t i = 0; i < LMAX; i++) if(i < nx && x[i] == c) r = i;
	return r;
}
static int ref_starts(const uint8_t *x, size_t nx, const uint8_t *y, size_t ny) {
	if(ny > nx) return 0;
	for(size_t i = 0; i < LMAX; i++) if(i < ny && x[i] != y[i]) return 0;
	return 1;
}
static int ref_ends(const uint8_t *x, size_t nx, const uint8_t *y, size_t ny) {
	if(ny > nx) return 0;
	for(size_t i = 0; i < LMAX; i++) if(i < ny && x[nx - ny + i] != y[i]) return 0;
	return 1;
}
static int ref_all_digits(const uint8_t *x, size_t nx) {
	for(size_t i = 0; i < LMAX; i++) if(i < nx && !(x[i] >= '0' && x[i] <= '9')) return 0;
	return 1;
}
static uint64_t ref_value(const uint8_t *x, size_t nx) {   /* exact (LMAX <= 18 digits fit 64 bits) */
	uint64_t v = 0;
	for(size_t i = 0; i < LMAX; i++) if(i < nx) v = v * 10 + (uint64_t)(x[i] - '0');
	return v;
}

/* ---------------------------------------------------------------- view operations */
enum { V_DEFAULT, V_CSTR, V_PTRLEN, V_COPY, V_ASSIGN, V_INDEX, V_EQ, V_EQ_SAME, V_EQ_CSTR, V_FIND_FIRST, V_FIND_FIRST0, V_FIND_FIRST_OF, V_FIND_FIRST_OF0,
       V_FIND_LAST, V_SUB_STRING, V_STARTS_WITH, V_ENDS_WITH, V_TO_UNSIGNED, V_TO_INT, V_HASH, V_NOPS };
#define RET(call, exp, msg) do { long long g_ = (long long)(call); VP_OBSERVE(g_); VP_ASSERT(g_ == (long long)(exp), msg); } while(0)
#define RETI(call, exp, msg) do { long long g_ = (long long)(int32_t)(call); VP_OBSERVE(g_); VP_ASSERT(g_ == (long long)(exp), msg); } while(0)   /* int results (the generated C types them uint32_t) */
#define VIEW_IS(v, p, n, msg) do { VP_ASSERT(v_size(v) == (n), msg ": size()"); VP_ASSERT(v_data(v) == (p), msg ": data()"); } while(0)

static void view_op(int op, uint8_t c, uint64_t from, uint64_t size, uint64_t idx);
void harness_view(void) {
	int op; uint8_t c; uint64_t from, size, idx;
	sources();
#ifdef OPSET
	/* several operations in one query (bit k of OPSET = operation k): a constant loop, fresh scalar arguments for each operation */
	for(op = 0; op < V_NOPS; op++) if((OPSET >> op) & 1) {
		VP_INPUT(c); VP_INPUT(from); VP_INPUT(size); VP_INPUT(idx);
		view_op(op, c, from, size, idx);
	}
#else
	VP_INPUT(op); VP_INPUT(c); VP_INPUT(from); VP_INPUT(size); VP_INPUT(idx);
#ifdef OP
	op = OP;
#else
	VP_NATIVE_ONLY(if(getenv("VP_RANDOM")) op = (unsigned)op % V_NOPS;)
	VP_ASSUME(op >= 0 && op < V_NOPS);
#endif
	VP_NATIVE_ONLY(if(getenv("VP_RANDOM")) { idx = la ? idx % la : 0; if(from > la + 1 && (from & 1)) from %= (la + 1); if(size > la - (from <= la ? from : la)) size %= (la - (from <= la ? from : la) + 1); })
	if(op == V_CSTR) lca = ref_strlen(ca, la);
	if(op == V_EQ_CSTR) lcb = ref_strlen(cb, lb);
	view_op(op, c, from, size, idx);
#endif
	cstrings_unchanged_and_free();
	sources_unchanged_and_free();
	VP_WITNESS(0, "view operation executed");
}
static void view_op(int op, uint8_t c, uint64_t from, uint64_t size, uint64_t idx) {
	uint8_t *pa = nulla ? 0 : A;      /* what VA.data() must be */
	view_t R;
	switch(op) {
	case V_DEFAULT: v_ctor_default(&R); VIEW_IS(&R, (uint8_t *)0, 0, "default-constructed view is (nullptr, 0)"); break;
	case V_CSTR: v_ctor_cstr(&R, CA); VIEW_IS(&R, CA, lca, "view(C string) denotes the bytes before the terminator"); break;
	case V_PTRLEN: v_ctor_ptrlen(&R, A, la); VIEW_IS(&R, A, la, "view(pointer, length) denotes exactly that range"); break;
	case V_COPY: v_ctor_copy(&R, &VA); VIEW_IS(&R, pa, la, "copy of a view denotes the same range"); break;
	case V_ASSIGN: v_ctor_copy(&R, &VB); v_assign(&R, &VA); VIEW_IS(&R, pa, la, "assigned view denotes the same range"); break;
	case V_INDEX: VP_PRE_OR(idx < la, goto skip); VP_ASSERT(v_at(&VA, idx) == A + idx, "view::operator[](i) designates byte i of the source");
		VP_ASSERT(*v_at(&VA, idx) == a[idx], "view::operator[](i) value"); break;
	case V_EQ: RET(v_eq(&VA, &VB), ref_eq(a, la, b, lb), "view == view agrees with the reference sequences");
		RET(v_ne(&VA, &VB), !ref_eq(a, la, b, lb), "view != view agrees with the reference sequences");
		RET(v_eq(&VB, &VA), ref_eq(a, la, b, lb), "view == view is symmetric"); break;
	case V_EQ_SAME: RET(v_eq(&VA, &VA2), 1, "views over equal bytes in different buffers compare equal"); RET(v_eq(&VA, &VA), 1, "a view equals itself"); break;
	case V_EQ_CSTR: RET(v_eq_cstr(&VA, CB), ref_eq(a, la, cb, lcb), "view == C string (implicit view) agrees with the reference"); break;
	case V_FIND_FIRST: RET(v_find_first(&VA, c, from), ref_find_first(a, la, c, from), "find_first(c, start) = first index >= start holding c, else npos"); break;
	case V_FIND_FIRST0: RET(v_find_first0(&VA, c), ref_find_first(a, la, c, 0), "find_first(c) = first index holding c, else npos"); break;
	case V_FIND_FIRST_OF: RET(v_find_first_of(&VA, &VB, from), ref_find_first_of(a, la, b, lb, from), "find_first_of(set, start) = first index >= start whose byte is in the set, else npos"); break;
	case V_FIND_FIRST_OF0: RET(v_find_first_of0(&VA, &VB), ref_find_first_of(a, la, b, lb, 0), "find_first_of(set) = first index whose byte is in the set, else npos"); break;
	case V_FIND_LAST: RET(v_find_last(&VA, c), ref_find_last(a, la, c), "find_last(c) = last index holding c, else npos"); break;
	case V_SUB_STRING: VP_PRE_OR(from <= la && size <= la - from, goto skip);
		v_sub_string(&R, &VA, from, size); VP_OBSERVE(v_size(&R));
		VIEW_IS(&R, nulla ? (uint8_t *)0 : A + from, size, "sub_string(from, size) denotes bytes [from, from+size) of the source"); break;
	case V_STARTS_WITH: RET(v_starts_with(&VA, &VB), ref_starts(a, la, b, lb), "view::starts_with agrees with the reference"); break;
	case V_ENDS_WITH: RET(v_ends_with(&VA, &VB), ref_ends(a, la, b, lb), "view::ends_with agrees with the reference"); break;
	case V_TO_UNSIGNED: case V_TO_INT: {
		int dig = ref_all_digits(a, la); uint64_t want = ref_value(a, la); uint32_t got = 0;
		/* "digit strings that fit": a digit string whose value exceeds the target type is outside the property (C20 owns overflow) */
		VP_PRE_OR(!dig || want <= (op == V_TO_INT ? 0x7FFFFFFFULL : 0xFFFFFFFFULL), goto skip);
		int ok = op == V_TO_INT ? v_to_int(&VA, &got) : v_to_unsigned(&VA, &got);
		VP_OBSERVE(ok); VP_OBSERVE(ok ? got : 0);
		VP_ASSERT(ok == dig, "to_number: engaged exactly for all-digit strings");
		if(dig && la > 0) VP_ASSERT(got == (uint32_t)want, "to_number: value of a digit string that fits");
		break; }
	case V_HASH: { uint32_t h = v_hash(&VA); VP_OBSERVE(h);
		VP_ASSERT(h == v_hash(&VA2), "hash(view) depends on the character sequence only (equal bytes in another buffer)");
		if(ref_eq(a, la, b, lb)) VP_ASSERT(h == v_hash(&VB), "equal views hash equal"); break; }
	default: VP_ASSUME(0);
	}
	skip:
	VIEW_IS(&VA, pa, la, "the operation changed its (const) view operand");
}

/* sub_string(from, size) for ARBITRARY arguments: either the library stops through its bounds assertion or the result lies inside the source */
void harness_sub(void) {
	uint64_t from, size;
	sources();
	VP_INPUT(from); VP_INPUT(size);
	view_t R;
	vp_expect_panic = 1;
	v_sub_string(&R, &VA, from, size);
	vp_expect_panic = 0;
	VP_OBSERVE(v_size(&R));
	VP_ASSERT(from <= la && size <= la - from, "sub_string returned a view that is not inside its source (bounds assertion passed although from + size wrapped)");
	VIEW_IS(&R, nulla ? (uint8_t *)0 : A + from, size, "sub_string(from, size) denotes bytes [from, from+size) of the source");
	sources_unchanged_and_free();
	VP_WITNESS(0, "sub_string returned");
}

/* ---------------------------------------------------------------- owned strings: reference state and per-step check */
str_t S0, S1, S2;
uint8_t m0[CAP], m1[CAP], m2[CAP];       /* reference bytes */
size_t n0, n1, n2;                        /* reference lengths */
int live0, live1, live2;

static void mset(uint8_t *m, size_t *n, const uint8_t *src, size_t len) { for(size_t i = 0; i < len; i++) m[i] = src[i]; *n = len; }
static void mapp(uint8_t *m, size_t *n, const uint8_t *src, size_t len) {      /* src may alias m (self-append): read before write, ranges disjoint */
	VP_ASSERT(*n + len <= CAP, "harness: reference capacity exceeded (raise CAP)");
	for(size_t i = 0; i < len; i++) m[*n + i] = src[i];
	*n += len;
}
/* the string denotes exactly the reference sequence, is terminated, and every accessor agrees */
int full_checks;      /* harness_str: every accessor after every operation; histories: size(), data(), bytes, terminator */
static void check_str(str_t *s, const uint8_t *m, size_t n) {
	VP_ASSERT(s_size(s) == n, "size() differs from the reference length");
	uint8_t *d = s_data(s);
	if(full_checks) {
		VP_ASSERT(s_empty(s) == (n == 0), "empty() differs from the reference");
		VP_ASSERT(s_cdata(s) == d && s_begin(s) == d && s_cbegin(s) == d, "data() / begin() disagree");
		VP_ASSERT(s_end(s) == d + n && s_cend(s) == d + n, "end() is not begin() + size()");
	}
	if(!d) { VP_ASSERT(n == 0, "data() is null although the reference string is not empty"); return; }   /* (nullptr, 0): accepted empty representation */
	for(size_t i = 0; i < n; i++) VP_ASSERT(d[i] == m[i], "string content differs from the reference sequence");
	VP_ASSERT(d[n] == 0, "owned string is not terminated: data()[size()] != 0");
}
/* every live string owns exactly one block of its own (or none, if data() is null) */
static void check_blocks(void) {
	uint8_t *d0 = live0 ? s_data(&S0) : 0, *d1 = live1 ? s_data(&S1) : 0, *d2 = live2 ? s_data(&S2) : 0;
	VP_ASSERT(!(d0 && d0 == d1) && !(d0 && d0 == d2) && !(d1 && d1 == d2), "two strings share one buffer");
	VP_ASSERT(vp_outstanding == (d0 != 0) + (d1 != 0) + (d2 != 0), "allocator: number of outstanding blocks differs from the number of buffers owned by live strings (leak or early release)");
}
static void check_all(void) {
	if(live0) check_str(&S0, m0, n0);
	if(live1) check_str(&S1, m1, n1);
	if(live2) check_str(&S2, m2, n2);
	check_blocks();
}
static void init_strings(void) {       /* S0 = A, S1 = B through the (pointer, length) constructor; the default constructor where the null variant is asked for */
	if(nulla) s_ctor_default(&S0); else s_ctor_ptrlen(&S0, A, la);
	if(nullb) s_ctor_alloc(&S1); else s_ctor_ptrlen(&S1, B, lb);
	mset(m0, &n0, a, la); mset(m1, &n1, b, lb); live0 = live1 = 1; live2 = 0;
	if(nulla) VP_ASSERT(s_data(&S0) == 0 && s_size(&S0) == 0, "default-constructed string is (nullptr, 0)");
}
static void destroy_all(void) {
	if(live0) { s_dtor(&S0); live0 = 0; }
	if(live1) { s_dtor(&S1); live1 = 0; }
	if(live2) { s_dtor(&S2); live2 = 0; }
	vp_end();
	vp_nblk = 0;      /* registry reusable by the next history of the same query */
}
static uint32_t digest(str_t *s) { uint32_t h = (uint32_t)s_size(s); uint8_t *d = s_data(s); if(d) for(size_t i = 0; i < s_size(s); i++) h = h * 31 + d[i]; return h; }

/* ---------------------------------------------------------------- one constructor / observer from constructed strings */
enum { S_DEFAULT, S_ALLOC, S_CSTR, S_ALLOC_CSTR, S_PTRLEN, S_ALLOC_PTRLEN, S_VIEW, S_ALLOC_VIEW, S_FILL, S_COPY, S_MOVE,
       S_ASSIGN_CSTR, S_APPEND_CSTR, S_INDEX, S_ITERATE, S_COMPARE, S_EQ, S_COMPARE_CSTR, S_EQ_CSTR, S_NE_CSTR, S_EQ_VIEW, S_TO_VIEW, S_STARTS_WITH, S_ENDS_WITH, S_HASH, S_PLUS_VIEW, S_PLUS_CHAR, S_PLUS_SELF, S_NOPS };
static void str_op(int op, uint8_t c, uint64_t idx);
void harness_str(void) {
	int op; uint8_t c; uint64_t idx;
	sources();
#ifdef OPSET
	for(op = 0; op < S_NOPS; op++) if((OPSET >> op) & 1) {
		VP_INPUT(c); VP_INPUT(idx);
		str_op(op, c, idx);
	}
#else
	VP_INPUT(op); VP_INPUT(c); VP_INPUT(idx);
#ifdef OP
	op = OP;
#else
	VP_NATIVE_ONLY(if(getenv("VP_RANDOM")) op = (unsigned)op % S_NOPS;)
	VP_ASSUME(op >= 0 && op < S_NOPS);
#endif
	VP_NATIVE_ONLY(if(getenv("VP_RANDOM")) idx = la ? idx % la : 0;)
	if(op == S_CSTR || op == S_ALLOC_CSTR) lca = ref_strlen(ca, la);
	if(op == S_ASSIGN_CSTR || op == S_APPEND_CSTR || op == S_COMPARE_CSTR || op == S_EQ_CSTR || op == S_NE_CSTR) lcb = ref_strlen(cb, lb);
	str_op(op, c, idx);
#endif
	cstrings_unchanged_and_free();
	sources_unchanged_and_free();
	VP_WITNESS(0, "string operation executed");
}
static void str_op(int op, uint8_t c, uint64_t idx) {
	full_checks = 1;
	init_strings(); check_all();
	switch(op) {
	/* constructors build S2 */
	case S_DEFAULT: s_ctor_default(&S2); live2 = 1; n2 = 0; VP_ASSERT(s_data(&S2) == 0, "default-constructed string has data() == nullptr"); break;
	case S_ALLOC: s_ctor_alloc(&S2); live2 = 1; n2 = 0; VP_ASSERT(s_data(&S2) == 0, "string(allocator) has data() == nullptr"); break;
	case S_CSTR: s_ctor_cstr(&S2, CA); live2 = 1; mset(m2, &n2, ca, lca); break;
	case S_ALLOC_CSTR: s_ctor_alloc_cstr(&S2, CA); live2 = 1; mset(m2, &n2, ca, lca); break;
	case S_PTRLEN: s_ctor_ptrlen(&S2, A, la); live2 = 1; mset(m2, &n2, a, la); break;
	case S_ALLOC_PTRLEN: s_ctor_alloc_ptrlen(&S2, A, la); live2 = 1; mset(m2, &n2, a, la); break;
	case S_VIEW: s_ctor_view(&S2, &VA); live2 = 1; mset(m2, &n2, a, la); break;
	case S_ALLOC_VIEW: s_ctor_alloc_view(&S2, &VA); live2 = 1; mset(m2, &n2, a, la); break;
	case S_FILL: s_ctor_fill(&S2, la, c); live2 = 1; for(size_t i = 0; i < LMAX; i++) m2[i] = c; n2 = la; break;
	case S_COPY: s_ctor_copy(&S2, &S0); live2 = 1; mset(m2, &n2, m0, n0); break;
	case S_MOVE: s_ctor_move(&S2, &S0); live2 = 1; mset(m2, &n2, m0, n0);
		/* the moved-from string is valid: it kept its value (frigg copies) or became empty */
		if(s_size(&S0) == 0) n0 = 0;
		break;
	/* operator+ builds a NEW string (S2) and leaves its operands alone */
	case S_PLUS_VIEW: s_plus_view(&S2, &S0, &VB); live2 = 1; mset(m2, &n2, m0, n0); mapp(m2, &n2, b, lb); break;
	case S_PLUS_CHAR: s_plus_char(&S2, &S0, c); live2 = 1; mset(m2, &n2, m0, n0); mapp(m2, &n2, &c, 1); break;
	case S_PLUS_SELF: s_plus_self(&S2, &S0); live2 = 1; mset(m2, &n2, m0, n0); mapp(m2, &n2, m0, n0); break;      /* s + view of s itself */
	/* the two mutators that take a C string (single-path queries, see cstrings(); they stay out of the enumerated histories) */
	case S_ASSIGN_CSTR: s_assign_cstr(&S0, CB); mset(m0, &n0, cb, lcb); break;
	case S_APPEND_CSTR: s_append_cstr(&S0, CB); mapp(m0, &n0, cb, lcb); break;
	/* observers on S0 (= A) and S1 (= B) */
	case S_INDEX: VP_PRE_OR(idx < la, goto skip);
		VP_ASSERT(s_at(&S0, idx) == s_data(&S0) + idx && s_cat(&S0, idx) == s_data(&S0) + idx, "string::operator[](i) designates byte i of the buffer");
		VP_ASSERT(*s_at(&S0, idx) == a[idx], "string::operator[](i) value"); break;
	case S_ITERATE: { size_t k = 0; uint32_t h = 0, g = s_iterate(&S0, &k); for(size_t i = 0; i < LMAX; i++) if(i < la) h = ((h << 5) | (h >> 27)) ^ a[i];
		VP_OBSERVE(g); VP_ASSERT(k == la && g == h, "iteration begin()..end() visits exactly the reference bytes in order"); break; }
	case S_COMPARE: RETI(s_compare(&S0, &S1), ref_cmp(a, la, b, lb), "compare(string): length first, then first differing character");
		RETI(s_compare(&S1, &S0), -ref_cmp(a, la, b, lb), "compare(string) is antisymmetric");
		RETI(s_compare(&S0, &S0), 0, "compare with itself is 0"); break;
	case S_EQ: RET(s_eq(&S0, &S1), ref_eq(a, la, b, lb), "string == string agrees with the reference sequences");
		RET(s_ne(&S0, &S1), !ref_eq(a, la, b, lb), "string != string agrees with the reference sequences"); break;
	case S_COMPARE_CSTR: RETI(s_compare_cstr(&S0, CB), ref_cmp(a, la, cb, lcb), "compare(C string): length first, then first differing character"); break;
	case S_EQ_CSTR: RET(s_eq_cstr(&S0, CB), ref_eq(a, la, cb, lcb), "string == C string agrees with the reference"); break;
	case S_NE_CSTR: RET(s_ne_cstr(&S0, CB), !ref_eq(a, la, cb, lcb), "string != C string agrees with the reference"); break;
	case S_EQ_VIEW: RET(s_eq_view(&S0, &VB), ref_eq(a, la, b, lb), "string == view agrees with the reference");
		RET(s_ne_view(&S0, &VB), !ref_eq(a, la, b, lb), "string != view agrees with the reference");
		RET(v_eq_string(&VB, &S0), ref_eq(a, la, b, lb), "view == string agrees with the reference"); break;
	case S_TO_VIEW: { view_t R; s_to_view(&R, &S0); VIEW_IS(&R, s_data(&S0), la, "string -> view conversion denotes [data(), data()+size())"); break; }
	case S_STARTS_WITH: RET(s_starts_with(&S0, &VB), ref_starts(a, la, b, lb), "string::starts_with agrees with the reference"); break;
	case S_ENDS_WITH: RET(s_ends_with(&S0, &VB), ref_ends(a, la, b, lb), "string::ends_with agrees with the reference"); break;
	case S_HASH: { uint32_t h = s_hash(&S0); VP_OBSERVE(h);
		VP_ASSERT(h == v_hash(&VA2), "hash(string) == hash(view) over the same character sequence");
		if(ref_eq(a, la, b, lb)) VP_ASSERT(h == s_hash(&S1), "equal strings hash equal"); break; }
	default: VP_ASSUME(0);
	}
	skip:
	check_all();
	if(live2) VP_OBSERVE(digest(&S2));
	VP_OBSERVE(digest(&S0));
	destroy_all();
}

/* ---------------------------------------------------------------- histories of mutating operations */
enum { M_ASSIGN_COPY, M_ASSIGN_SELF, M_ASSIGN_MOVE, M_ASSIGN_EMPTY, M_RESIZE_0, M_RESIZE_LESS, M_RESIZE_SAME, M_RESIZE_MORE,
       M_APPEND_VIEW, M_APPEND_SELF, M_APPEND_SELF_TAIL, M_APPEND_CHAR, M_PUSH_BACK, M_PLUS_VIEW, M_PLUS_CHAR, M_PLUS_SELF_TO_OTHER, M_SWAP, M_NOPS };
#ifndef K
#define K 3
#endif
uint8_t hc[3];       /* the characters appended by steps 1..3 */
static void resize_to(size_t n) {         /* prefix kept; bytes of a grown tail are unspecified: the reference adopts them */
	s_resize(&S0, n);
	if(n > n0) { uint8_t *d = s_data(&S0); VP_ASSERT(d != 0, "resize to a non-zero length left data() null"); for(size_t i = n0; i < n; i++) m0[i] = d[i]; }
	n0 = n;
}
static void step(int op, uint8_t c) {
	uint8_t t[CAP]; size_t tn;
	switch(op) {
	case M_ASSIGN_COPY: s_assign_copy(&S0, &S1); mset(m0, &n0, m1, n1); break;
	case M_ASSIGN_SELF: s_assign_copy(&S0, &S0); break;
	case M_ASSIGN_MOVE: s_assign_move(&S0, &S1); mset(m0, &n0, m1, n1); if(s_size(&S1) == 0) n1 = 0; break;   /* moved-from: kept its value or empty */
	case M_ASSIGN_EMPTY: s_assign_empty(&S0); n0 = 0; break;
	case M_RESIZE_0: resize_to(0); break;
	case M_RESIZE_LESS: if(n0 > 0) resize_to(n0 - 1); break;
	case M_RESIZE_SAME: resize_to(n0); break;
	case M_RESIZE_MORE: if(n0 + 2 <= CAP) resize_to(n0 + 2); break;
	case M_APPEND_VIEW: if(n0 + lb > CAP) break; s_append_view(&S0, &VB); mapp(m0, &n0, b, lb); break;
	case M_APPEND_SELF: if(2 * n0 > CAP) break; s_append_self(&S0, 0, n0); mapp(m0, &n0, m0, n0); break;             /* s += view of all of s */
	case M_APPEND_SELF_TAIL: if(2 * n0 > CAP) break; tn = n0 - n0 / 2; s_append_self(&S0, n0 / 2, tn); mapp(m0, &n0, m0 + n0 / 2, tn); break;   /* s += view of the second half of s */
	case M_APPEND_CHAR: if(n0 + 1 > CAP) break; s_append_char(&S0, c); mapp(m0, &n0, &c, 1); break;
	case M_PUSH_BACK: if(n0 + 1 > CAP) break; s_push_back(&S0, c); mapp(m0, &n0, &c, 1); break;
	case M_PLUS_VIEW: if(n0 + lb > CAP) break; s_plus_view_assign(&S0, &VB); mapp(m0, &n0, b, lb); break;             /* s = s + view */
	case M_PLUS_CHAR: if(n0 + 1 > CAP) break; s_plus_char_assign(&S0, c); mapp(m0, &n0, &c, 1); break;                 /* s = s + c */
	case M_PLUS_SELF_TO_OTHER: if(2 * n0 > CAP) break; s_dtor(&S1); s_plus_self(&S1, &S0); mset(m1, &n1, m0, n0); mapp(m1, &n1, m0, n0); break;   /* other = s + view of s */
	case M_SWAP: s_swap(&S0, &S1); mset(t, &tn, m0, n0); mset(m0, &n0, m1, n1); mset(m1, &n1, t, tn); break;
	default: VP_ASSUME(0);
	}
	check_all();
	VP_OBSERVE(digest(&S0)); VP_OBSERVE(digest(&S1));
}
#ifndef HSET
#define HSET 0xFFFFFFFFu     /* operations a "-1 = all" position ranges over (bit k = operation k) */
#endif
static void history(int h1, int h2, int h3) {
	init_strings(); check_all();
	step(h1, hc[0]);
	if(K >= 2) step(h2, hc[1]);
	if(K >= 3) step(h3, hc[2]);
	destroy_all();
}
void harness_hist(void) {
	int h1, h2, h3;
	sources();
	VP_INPUT(hc[0]); VP_INPUT(hc[1]); VP_INPUT(hc[2]);
#if defined(H1)
	/* enumerated mode: op codes are constants of the query; -1 = every operation (constant loop, unrolled by symbolic execution) */
	for(h1 = (H1 < 0 ? 0 : H1); h1 <= (H1 < 0 ? M_NOPS - 1 : H1); h1++) if(H1 >= 0 || ((HSET >> h1) & 1))
	for(h2 = (H2 < 0 ? 0 : H2); h2 <= (H2 < 0 ? M_NOPS - 1 : H2); h2++) if(H2 >= 0 || ((HSET >> h2) & 1))
	for(h3 = (H3 < 0 ? 0 : H3); h3 <= (H3 < 0 ? M_NOPS - 1 : H3); h3++) if(H3 >= 0 || ((HSET >> h3) & 1))
		history(h1, h2, h3);
#else
	VP_INPUT_RANGE(h1, 0, M_NOPS - 1); VP_INPUT_RANGE(h2, 0, M_NOPS - 1); VP_INPUT_RANGE(h3, 0, M_NOPS - 1);
	history(h1, h2, h3);
#endif
	sources_unchanged_and_free();
	VP_WITNESS(0, "all histories executed and every string destroyed");
}
