/* C13 — frg::intrusive_list: inductive step over an index view (next / previous / in_list per node, _front / _back per list).
 *   -DM=<nodes in list L before the operation>  -DM2=<nodes in the second list L2 (splice source, otherwise a bystander)>  -DNN=<node objects>
 * Pre-state: ANY well-formed state — the solver chooses which node object sits at which position (a permutation of the NN node objects:
 * positions 0..M-1 form L in order, M..M+M2-1 form L2, the rest are outside every list with a reset hook) and all payloads.  That is exactly
 * the set of states satisfying Inv = "front/back and the hooks describe two disjoint doubly linked lists, back links inverse to forward links,
 * in_list set exactly on members, hooks of non-members reset"; Inv is re-established by every operation (checked here) and holds after
 * the constructor (M = M2 = 0 queries), and `harness_script` (native validation) checks it on random reachable states with an independent walker.
 * One solver-chosen operation follows; the post-state is SPECIFIED (expected node sequences), not computed by the library. */
#define VP_PANIC_VIOLATION
#include "vp.h"
#include "c13_ilist.h"
#ifndef M
#define M 2
#endif
#ifndef M2
#define M2 0
#endif
#ifndef NN
#define NN 6
#endif
typedef struct S_struct_node node;
typedef struct S_struct_frg___list__intrusive_list list_t;
node n0, n1, n2, n3, n4, n5, n6, n7;                 /* separate global objects */
static node *const NP[8] = {&n0, &n1, &n2, &n3, &n4, &n5, &n6, &n7};
list_t L, L2;
static node *ptr(int i) { node *r = 0; for(int k = 0; k < NN; k++) if(i == k) r = NP[k]; return r; }
static int idx(node *p) { int r = -1; for(int k = 0; k < NN; k++) if(p == NP[k]) r = k; if(p && r < 0) r = NN; return r; }   /* NN = escaped pointer */

struct view { int front, back, front2, back2; int NX[NN], PV[NN], IN[NN]; int32_t val[NN]; };
static void read_view(struct view *v) {
	v->front = idx(L.f0); v->back = idx(L.f1); v->front2 = idx(L2.f0); v->back2 = idx(L2.f1);
	for(int i = 0; i < NN; i++) { v->NX[i] = idx(NP[i]->f2.f0); v->PV[i] = idx(NP[i]->f2.f1); v->IN[i] = NP[i]->f2.f2; v->val[i] = (int32_t)NP[i]->f0; }
}
static void write_view(const struct view *v) {
	L.f0 = ptr(v->front); L.f1 = ptr(v->back); L2.f0 = ptr(v->front2); L2.f1 = ptr(v->back2);
	for(int i = 0; i < NN; i++) { NP[i]->f2.f0 = ptr(v->NX[i]); NP[i]->f2.f1 = ptr(v->PV[i]); NP[i]->f2.f2 = (uint8_t)v->IN[i]; NP[i]->f0 = (uint32_t)v->val[i]; }
}

/* expected sequences (node indices) */
int eL[NN + 1], nL, eL2[NN + 1], n2L;
int32_t val0[NN];
static int P[NN];

static void pre_state(void) {
#if defined(PERM)
	for(int i = 0; i < NN; i++) { unsigned r; VP_INPUT(r); P[i] = (int)r; }          /* every permutation of the node objects */
#else
	/* symmetry breaking (DESIGN 3.1): the list code compares node addresses only for equality, so node object i is w.l.o.g. the one at
	 * position i; the -DPERM=1 queries drop this and quantify over every permutation for the small sizes */
	for(int i = 0; i < NN; i++) P[i] = i;
#endif
#ifdef VP_NATIVE
	if(getenv("VP_RANDOM")) { int Q[NN]; for(int i = 0; i < NN; i++) { unsigned r; VP_INPUT(r); P[i] = (int)r; Q[i] = i; }     /* validation: random permutation */
		for(int i = 0; i < NN; i++) { int j = i + (unsigned)P[i] % (NN - i); int t = Q[i]; Q[i] = Q[j]; Q[j] = t; }
		for(int i = 0; i < NN; i++) P[i] = Q[i]; }
#endif
	for(int i = 0; i < NN; i++) { VP_ASSUME(P[i] >= 0 && P[i] < NN); for(int j = 0; j < i; j++) VP_ASSUME(P[i] != P[j]); }
	struct view v;
	for(int i = 0; i < NN; i++) { v.NX[i] = -1; v.PV[i] = -1; v.IN[i] = 0; VP_INPUT(v.val[i]); val0[i] = v.val[i]; }
	for(int j = 0; j < M; j++) { int i = P[j]; v.IN[i] = 1; v.NX[i] = j + 1 < M ? P[j + 1] : -1; v.PV[i] = j > 0 ? P[j - 1] : -1; eL[j] = i; }
	for(int j = 0; j < M2; j++) { int i = P[M + j]; v.IN[i] = 1; v.NX[i] = j + 1 < M2 ? P[M + j + 1] : -1; v.PV[i] = j > 0 ? P[M + j - 1] : -1; eL2[j] = i; }
	v.front = M ? P[0] : -1; v.back = M ? P[M - 1] : -1; v.front2 = M2 ? P[M] : -1; v.back2 = M2 ? P[M + M2 - 1] : -1;
	nL = M; n2L = M2;
	write_view(&v);
}

#define AT(a, i) ((i) < 0 || (i) >= NN ? -2 : (a)[i])
/* the specified post-state: both lists are exactly the expected sequences, every other node is outside with a reset hook */
static void check_list(const struct view *W, list_t *l, int front, int back, const int *e, int n, int is_first) {
	VP_ASSERT(front == (n ? e[0] : -1), "_front is not the first element of the expected sequence");
	VP_ASSERT(back == (n ? e[n - 1] : -1), "_back is not the last element of the expected sequence");
	for(int j = 0; j < NN; j++) if(j < n) {
		int i = e[j];
		VP_ASSERT(AT(W->IN, i) == 1, "in_list is not set on a member");
		VP_ASSERT(AT(W->NX, i) == (j + 1 < n ? e[j + 1] : -1), "forward link (next) differs from the expected sequence");
		VP_ASSERT(AT(W->PV, i) == (j > 0 ? e[j - 1] : -1), "back link (previous) is not the inverse of the forward link");
	}
	/* public observers */
	VP_ASSERT((il_empty(l) != 0) == (n == 0), "empty() is not (no elements)");
	VP_ASSERT(idx(il_front(l)) == (n ? e[0] : -1) && idx(il_back(l)) == (n ? e[n - 1] : -1), "front()/back() differ from the expected sequence");
	VP_ASSERT(idx(il_begin(l)) == (n ? e[0] : -1) && il_end(l) == 0, "begin()/end()");
	uint64_t k, cnt = 0; VP_INPUT(k); VP_NATIVE_ONLY(k &= 7;)
	int got = idx(il_iterate(l, k, &cnt));
	VP_ASSERT(cnt == (uint64_t)n, "iteration visits a number of nodes different from the expected length");
	VP_ASSERT(got == (k < (uint64_t)n ? e[k] : -1), "iteration order differs from the expected sequence");
	if(k < (uint64_t)n) {
		node *p = ptr(e[k]);
		VP_ASSERT(il_iterator_to(l, p) == p, "iterator_to(x) does not designate x");
		int nx = k + 1 < (uint64_t)n ? e[k + 1] : -1;
		VP_ASSERT(idx(il_next(l, p)) == nx && idx(il_next_post(l, p)) == nx, "iterator ++ does not advance to the successor");
	}
	(void)is_first;
}
static void check_state(void) {
	struct view W; read_view(&W);
	int member[NN]; for(int i = 0; i < NN; i++) member[i] = 0;
	for(int j = 0; j < NN; j++) { if(j < nL) member[eL[j]] = 1; if(j < n2L) member[eL2[j]] = 1; }
	check_list(&W, &L, W.front, W.back, eL, nL, 1);
	check_list(&W, &L2, W.front2, W.back2, eL2, n2L, 0);
	for(int i = 0; i < NN; i++) {
		if(!member[i]) VP_ASSERT(W.NX[i] == -1 && W.PV[i] == -1 && W.IN[i] == 0, "hook of a node outside every list is not reset (next/previous null, in_list false)");
		VP_ASSERT(W.val[i] == val0[i], "node payload changed");
	}
	VP_OBSERVE(nL * 10 + n2L); VP_OBSERVE(W.front); VP_OBSERVE(W.back);
}
static void ins(int *e, int *n, int pos, int x) { for(int j = NN - 1; j > 0; j--) if(j > pos) e[j] = e[j - 1]; e[pos] = x; (*n)++; }
static void del(int *e, int *n, int pos) { for(int j = 0; j < NN - 1; j++) if(j >= pos) e[j] = e[j + 1]; (*n)--; }

enum { I_NONE, I_PUSH_FRONT, I_PUSH_BACK, I_INSERT, I_ERASE, I_POP_FRONT, I_POP_BACK, I_CLEAR, I_SPLICE, I_SPLICE_REV, I_NOPS };
#define FREE_CNT (NN - M - M2)
#define VP_PRE(c) VP_PRE_OR(c, goto out)
void harness(void) {
	pre_state();
	check_state();                                     /* the pre-state satisfies the specification of a list holding eL / eL2 */
	int op, a, b; VP_INPUT(op); VP_INPUT(a); VP_INPUT(b);
	VP_NATIVE_ONLY(if(getenv("VP_RANDOM")) { op = (unsigned)op % I_NOPS; a = (unsigned)a % NN; b = (unsigned)b % (NN + 1); })
#ifdef OP
	op = OP;
#endif
	VP_ASSUME(op >= 0 && op < I_NOPS);
	int did = 0;
	switch(op) {
	case I_NONE: did = 1; break;
	case I_PUSH_FRONT: case I_PUSH_BACK: case I_INSERT: {
		/* x: any node outside every list;  b: insert position 0..nL (nL = end()) */
		VP_PRE(FREE_CNT > 0 && a >= M + M2 && a < NN);
		int x = P[a]; node *xp = ptr(x), *r;
		if(op == I_PUSH_FRONT) { r = il_push_front(&L, xp); b = 0; }
		else if(op == I_PUSH_BACK) { r = il_push_back(&L, xp); b = nL; }
		else { VP_PRE(b >= 0 && b <= nL); r = il_insert(&L, b < nL ? ptr(eL[b]) : 0, xp); }
		VP_ASSERT(r == xp, "push/insert does not return an iterator to the new element");
		ins(eL, &nL, b, x); did = 1; break; }
	case I_ERASE: case I_POP_FRONT: case I_POP_BACK: {
		VP_PRE(nL > 0);
		node *r; int pos;
		if(op == I_ERASE) { VP_PRE(a >= 0 && a < nL); pos = a; r = il_erase(&L, ptr(eL[pos])); }
		else if(op == I_POP_FRONT) { pos = 0; r = il_pop_front(&L); }
		else { pos = nL - 1; r = il_pop_back(&L); }
		VP_ASSERT(idx(r) == eL[pos], "erase/pop does not return the removed element");
		del(eL, &nL, pos); did = 1; break; }
	case I_CLEAR: il_clear(&L); nL = 0; did = 1; break;
	case I_SPLICE: il_splice(&L, &L2); for(int j = 0; j < NN; j++) if(j < n2L) eL[nL + j] = eL2[j]; nL += n2L; n2L = 0; did = 1; break;
	case I_SPLICE_REV: { il_splice(&L2, &L); for(int j = 0; j < NN; j++) if(j < nL) eL2[n2L + j] = eL[j]; n2L += nL; nL = 0; did = 1; break; }
	}
out:
	if(did) {
		check_state(); VP_WITNESS(0, "operation executed and post-state checked");
		/* non-vacuity per operation (those applicable for this M / M2) */
		VP_WITNESS(op != I_PUSH_FRONT, "push_front executed"); VP_WITNESS(op != I_PUSH_BACK, "push_back executed"); VP_WITNESS(op != I_INSERT, "insert executed");
		VP_WITNESS(op != I_CLEAR, "clear executed"); VP_WITNESS(op != I_SPLICE, "splice executed"); VP_WITNESS(op != I_SPLICE_REV, "splice (other direction) executed");
#if M > 0
		VP_WITNESS(op != I_ERASE, "erase executed"); VP_WITNESS(op != I_POP_FRONT, "pop_front executed"); VP_WITNESS(op != I_POP_BACK, "pop_back executed");
#endif
	}
}

#ifdef VP_NATIVE
/* independent well-formedness walker (native only): follows next from _front, at most NN steps */
static int walk_ok(const struct view *W, int front, int back, int *seen) {
	int prev = -1, cur = front, steps = 0;
	while(cur != -1) {
		if(cur < 0 || cur >= NN || seen[cur] || !W->IN[cur] || W->PV[cur] != prev || ++steps > NN) return 0;
		seen[cur] = 1; prev = cur; cur = W->NX[cur];
	}
	return back == prev;
}
void harness_script(void) {   /* native validation: random histories from the constructor; every reachable state satisfies Inv and matches the model */
	for(int i = 0; i < NN; i++) { il_node_init(NP[i], i * 3 + 1); val0[i] = i * 3 + 1; }
	il_init(&L); il_init(&L2); nL = n2L = 0;
	for(int step = 0; step < 40; step++) {
		unsigned r, s; VP_INPUT(r); VP_INPUT(s); int x = r % NN, pos = -1, in2 = 0;
		for(int j = 0; j < nL; j++) if(eL[j] == x) pos = j;
		for(int j = 0; j < n2L; j++) if(eL2[j] == x) { pos = j; in2 = 1; }
		unsigned c = (r >> 8) % 6;
		if(pos < 0) {
			if(c == 0) { il_push_front(&L, NP[x]); ins(eL, &nL, 0, x); }
			else if(c == 1) { il_push_back(&L, NP[x]); ins(eL, &nL, nL, x); }
			else if(c == 2) { il_push_back(&L2, NP[x]); ins(eL2, &n2L, n2L, x); }
			else { int b = s % (nL + 1); il_insert(&L, b < nL ? NP[eL[b]] : 0, NP[x]); ins(eL, &nL, b, x); }
		} else if(in2) {
			if(c < 3) { il_erase(&L2, NP[x]); del(eL2, &n2L, pos); }
			else { il_splice(&L, &L2); for(int j = 0; j < n2L; j++) eL[nL + j] = eL2[j]; nL += n2L; n2L = 0; }
		} else {
			if(c == 0) { il_pop_front(&L); del(eL, &nL, 0); }
			else if(c == 1) { il_pop_back(&L); del(eL, &nL, nL - 1); }
			else if(c == 2 && (s & 7) == 0) { il_clear(&L); nL = 0; }
			else { il_erase(&L, NP[x]); del(eL, &nL, pos); }
		}
		struct view W; read_view(&W); int seen[NN]; for(int i = 0; i < NN; i++) seen[i] = 0;
		VP_ASSERT(walk_ok(&W, W.front, W.back, seen) && walk_ok(&W, W.front2, W.back2, seen), "script: a reachable state violates Inv (the pre-state family of the inductive step)");
		for(int i = 0; i < NN; i++) if(!seen[i]) VP_ASSERT(W.NX[i] == -1 && W.PV[i] == -1 && !W.IN[i], "script: hook of a non-member not reset");
		check_state();
	}
}
#endif
