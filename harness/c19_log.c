/* C19 — stack_buffer_logger<sink, 8>: text appended through append(char), append(const char *) and operator<<(const char *) in
 * solver-chosen pieces reaches the sink complete and in order, in NUL-terminated chunks that fit the fixed buffer.
 * -DLEN=<message length> (0..3*Limit), -DP0 -DP1: lengths of the first two of the NP=3 pieces (lengths are case-split into separate
 * queries: measured, a solver-chosen split costs 120 s at LEN=8 and does not finish at LEN=24); message bytes and the append path of every
 * piece are solver-chosen. */
#define VP_PANIC_VIOLATION
#include "vp.h"
#include "c19_log.h"
#define LIMIT 8
#ifndef LEN
#define LEN 9
#endif
#define NP 3
static uint8_t msg[3 * LIMIT + 2], kind[NP], plen[NP];
static int gotn, nchunks, fin_calls, fin_done, bad_order;

void c19_emit(uint8_t *chunk) {           /* the sink: concatenates */
	int l = 0;
	while(l < LIMIT && chunk[l]) l++;
	VP_ASSERT(l < LIMIT, "logger: every emitted chunk is NUL-terminated within the buffer (at most Limit-1 bytes)");
	for(int i = 0; i < LIMIT; i++) if(i < l) {
		VP_ASSERT(gotn < LEN && chunk[i] == msg[gotn], "logger: the emitted chunks concatenate to the message, complete and in order");
		gotn++;
	}
	VP_ASSERT(fin_calls == 0, "logger: no chunk after finalize()");
	nchunks++;
}
void c19_finalize(uint32_t done) { fin_calls++; fin_done = (int)(done & 1); }

void harness_log(void) {
	int end, sum = 0;
	for(int i = 0; i < LEN; i++) { VP_INPUT(msg[i]); VP_NATIVE_ONLY(if(getenv("VP_RANDOM") && msg[i] == 0) msg[i] = 'a' + i;) VP_ASSUME(msg[i] != 0); }
	msg[LEN] = 0;
	for(int i = 0; i < NP; i++) {
		VP_INPUT(kind[i]); VP_INPUT(plen[i]);
		VP_NATIVE_ONLY(if(getenv("VP_RANDOM")) { kind[i] %= 3; plen[i] = i == NP - 1 ? (uint8_t)(LEN - sum) : (uint8_t)(plen[i] % (LEN - sum + 1)); })
#ifdef P0
		{ static const uint8_t fixed[NP] = { P0, P1, LEN - P0 - P1 }; VP_NATIVE_ONLY(if(getenv("VP_RANDOM")) plen[i] = fixed[i];) VP_ASSUME(plen[i] == fixed[i]); plen[i] = fixed[i]; }
#endif
		VP_ASSUME(kind[i] <= 2 && plen[i] <= LEN - sum);
		sum += plen[i];
	}
	VP_ASSUME(sum == LEN);
	VP_INPUT(end); VP_NATIVE_ONLY(if(getenv("VP_RANDOM")) end &= 1;) VP_ASSUME(end == 0 || end == 1);
	c19_log(msg, kind, plen, NP, (uint32_t)end);
	if(end) VP_ASSERT(gotn == LEN, "logger: after endlog the whole message has reached the sink");
	else VP_ASSERT(gotn <= LEN && LEN - gotn < LIMIT && (LEN - gotn) + (LIMIT - 1) * nchunks == LEN, "logger: without endlog exactly the full chunks have been emitted; only the buffered tail (< Limit bytes) is pending");
	VP_ASSERT(fin_calls == 1 && fin_done == end, "logger: finalize(done) called once, done == endlog seen");
	VP_ASSERT(nchunks == (LEN > 0 ? (LEN - 1) / (LIMIT - 1) : 0) + end, "logger: a chunk is emitted exactly when the buffer is full and more text arrives, plus one by endlog");
	VP_WITNESS(0, "message logged and compared");
#if LEN >= LIMIT
	VP_WITNESS(!(end && nchunks >= 2), "a message split over several chunks is reachable");
#endif
	VP_OBSERVE(gotn); VP_OBSERVE(nchunks); VP_OBSERVE(fin_done);
}
