/* C07 — interval tree (red-black tree keyed by the lower bound + subtree_max aggregate): inductive step and query obligation.
 *  -DM=<nodes in the tree before the operation>; N = M+1 node objects; node N-1 is the one inserted.
 *  entries: harness_insert, harness_remove, harness_query, harness_script (native validation) */
#define VP_PANIC_VIOLATION
#include "vp.h"
#include "c07.h"
#ifndef M
#define M 3
#endif
#define N (M + 1)
typedef struct S_struct_ival node;
node n0, n1, n2, n3, n4, n5, n6, n7, n8, n9, n10, n11;      /* separate objects, never an array (DESIGN 2.2) */
static node *const NP[12] = {&n0, &n1, &n2, &n3, &n4, &n5, &n6, &n7, &n8, &n9, &n10, &n11};
struct S_struct_frg__interval_tree tree;
#define ROOT(ord) (tree.f0.f0.f0)

static node *ptr(int i) { node *r = 0; for(int k = 0; k < N; k++) if(i == k) r = NP[k]; return r; }
static int idx(uint8_t *p) { int r = -1; for(int k = 0; k < N; k++) if((node *)p == NP[k]) r = k; if(p && r < 0) r = N; return r; }

struct view { int root; int P[N], L[N], R[N], PR[N], SU[N], col[N]; int key[N]; int hi[N], smax[N]; };   /* key = lower bound */
static void read_view(struct view *v, int ord) {
	v->root = idx(ROOT(ord));
	for(int i = 0; i < N; i++) {
		node *n = NP[i];
		v->P[i] = idx(n->f2.f0); v->L[i] = idx(n->f2.f1); v->R[i] = idx(n->f2.f2);
		v->PR[i] = idx(n->f2.f3); v->SU[i] = idx(n->f2.f4); v->col[i] = (int)n->f2.f5; v->key[i] = (int32_t)n->f0; v->hi[i] = (int32_t)n->f1; v->smax[i] = (int32_t)n->f3.f0;
	}
}
static void write_view(const struct view *v, int ord) {
	ROOT(ord) = (uint8_t *)ptr(v->root);
	for(int i = 0; i < N; i++) {
		node *n = NP[i];
		n->f2.f0 = (uint8_t *)ptr(v->P[i]); n->f2.f1 = (uint8_t *)ptr(v->L[i]); n->f2.f2 = (uint8_t *)ptr(v->R[i]);
		n->f2.f3 = (uint8_t *)ptr(v->PR[i]); n->f2.f4 = (uint8_t *)ptr(v->SU[i]); n->f2.f5 = (uint32_t)v->col[i]; n->f0 = (uint32_t)v->key[i]; n->f1 = (uint32_t)v->hi[i]; n->f3.f0 = (uint32_t)v->smax[i];
	}
}
#define AT(a, i) ((i) < 0 ? 0 : (a)[i])
/* valid(v, in, rank, m, keys): v is a red-black tree over exactly the nodes with in[i]; node i has in-order position rank[i];
 * parent/child links consistent; acyclic (size fixpoint); threaded list == in-order; root black, no red-red, equal black height;
 * keys non-decreasing along the order (when keys != 0); nodes outside have all five links null.  Returns the height in *ht. */
static int valid(const struct view *v, const int *in, const int *rank, int m, int keys, int *ht) {
	int sz[N], bh[N], h[N];
	for(int i = 0; i < N; i++) { sz[i] = 1; bh[i] = 0; h[i] = 1; }
	for(int k = 0; k < N; k++) {            /* bottom-up relaxation rounds, no recursion */
		int nsz[N], nbh[N], nh[N];
		for(int i = 0; i < N; i++) {
			int s = 1 + AT(sz, v->L[i]) + AT(sz, v->R[i]); nsz[i] = s > N + 1 ? N + 1 : s;
			int b = AT(bh, v->L[i]) + (v->col[i] == 2); nbh[i] = b > N + 1 ? N + 1 : b;
			int hl = AT(h, v->L[i]), hr = AT(h, v->R[i]); int hh = 1 + (hl > hr ? hl : hr); nh[i] = hh > N + 1 ? N + 1 : hh;
		}
		for(int i = 0; i < N; i++) { sz[i] = nsz[i]; bh[i] = nbh[i]; h[i] = nh[i]; }
	}
	*ht = v->root >= 0 && v->root < N ? h[v->root] : 0;
	if(m == 0) { if(v->root != -1) return 0; }
	else {
		if(v->root < 0 || v->root >= N || !in[v->root] || v->P[v->root] != -1 || v->col[v->root] != 2) return 0;
		if(sz[v->root] != m) return 0;
		if(rank[v->root] - AT(sz, v->L[v->root]) != 0) return 0;
	}
	for(int i = 0; i < N; i++) {
		if(!in[i]) {
			if(v->P[i] != -1 || v->L[i] != -1 || v->R[i] != -1 || v->PR[i] != -1 || v->SU[i] != -1) return 0;
			continue;
		}
		int l = v->L[i], r = v->R[i];
		if(l >= N || r >= N || v->P[i] >= N || v->PR[i] >= N || v->SU[i] >= N) return 0;                  /* escaped pointer */
		if(sz[i] != 1 + AT(sz, l) + AT(sz, r) || sz[i] > N) return 0;           /* fixpoint => acyclic */
		if(bh[i] != AT(bh, l) + (v->col[i] == 2) || AT(bh, l) != AT(bh, r)) return 0;
		if(v->col[i] != 1 && v->col[i] != 2) return 0;
		{ int mx = v->hi[i]; if(l >= 0 && l < N && v->smax[l] > mx) mx = v->smax[l]; if(r >= 0 && r < N && v->smax[r] > mx) mx = v->smax[r];
		  if(v->smax[i] != mx || v->key[i] > v->hi[i]) return 0; }      /* subtree_max aggregate exact; lo <= hi */
		if(v->col[i] == 1 && ((l >= 0 && v->col[l] != 2) || (r >= 0 && v->col[r] != 2))) return 0;
		if(l >= 0 && (l == r || !in[l] || v->P[l] != i)) return 0;
		if(r >= 0 && (!in[r] || v->P[r] != i)) return 0;
		if(i != v->root) { int p = v->P[i]; if(p < 0 || !in[p] || (v->L[p] != i && v->R[p] != i)) return 0; }
		int lo = rank[i] - AT(sz, l);
		if(l >= 0 && rank[l] - AT(sz, v->L[l]) != lo) return 0;
		if(r >= 0 && rank[r] - AT(sz, v->L[r]) != rank[i] + 1) return 0;
		if(rank[i] < 0 || rank[i] >= m) return 0;
		for(int j = 0; j < N; j++) if(in[j]) {                                  /* threaded list = in-order; successor/predecessor inverse */
			if(rank[j] == rank[i] + 1 && (v->SU[i] != j || v->PR[j] != i)) return 0;
			if(j != i && rank[j] == rank[i]) return 0;
			if(keys && rank[j] > rank[i] && v->key[j] < v->key[i]) return 0;
		}
		if(rank[i] == 0 && v->PR[i] != -1) return 0;
		if(rank[i] == m - 1 && v->SU[i] != -1) return 0;
	}
	return 1;
}
static int log2floor(int x) { int r = 0; while(x > 1) { x >>= 1; r++; } return r; }

struct view V; int in[N], rank[N], m;
static int pick(void) { int i; VP_INPUT(i); VP_ASSUME(i >= -1 && i < N); return i; }
#ifdef SHAPES_H
#include SHAPES_H      /* generated list of ALL red-black shapes over M in-order-labelled nodes (tools/rbshapes.py) */
#endif
static void havoc(int ord, int keys) {
	int ht;
	m = 0;
#ifdef SHAPE
	/* case split of the symbolic pre-state by tree shape: links and colours are those of shape number SHAPE, keys (and aggregates)
	 * stay solver-chosen; harness_shapes_complete proves that the shapes cover every state satisfying valid() */
	V.root = SH_root[SHAPE];
	for(int i = 0; i < N; i++) {
		V.P[i] = SH_P[SHAPE][i]; V.L[i] = SH_L[SHAPE][i]; V.R[i] = SH_R[SHAPE][i]; V.col[i] = SH_col[SHAPE][i];
		V.PR[i] = (i < M && i > 0) ? i - 1 : -1; V.SU[i] = (i + 1 < M) ? i + 1 : -1;
		VP_INPUT(V.key[i]); VP_INPUT(V.hi[i]); VP_INPUT(V.smax[i]);
		in[i] = i < M; rank[i] = i; m += in[i];
	}
#else
	V.root = pick();
	for(int i = 0; i < N; i++) {
		V.P[i] = pick(); V.L[i] = pick(); V.R[i] = pick(); V.PR[i] = pick(); V.SU[i] = pick();
		VP_INPUT(V.col[i]); VP_ASSUME(V.col[i] >= 0 && V.col[i] <= 2);
		VP_INPUT(V.key[i]); VP_INPUT(V.hi[i]); VP_INPUT(V.smax[i]);
		in[i] = i < M; rank[i] = i; m += in[i];      /* symmetry breaking: node i is the i-th element in order */
	}
#endif
	VP_ASSUME(valid(&V, in, rank, m, keys, &ht));
	write_view(&V, ord);
}
#if defined(SHAPES_H) && !defined(SHAPE)
void harness_shapes_complete(void) {     /* every state satisfying the invariant is one of the enumerated shapes (no library code involved) */
	havoc(0, 1);
	int found = 0;
	for(int k = 0; k < NSHAPES; k++) {
		int same = V.root == SH_root[k];
		for(int i = 0; i < M; i++) if(V.P[i] != SH_P[k][i] || V.L[i] != SH_L[k][i] || V.R[i] != SH_R[k][i] || V.col[i] != SH_col[k][i]) same = 0;
		if(same) found = 1;
	}
	VP_ASSERT(found, "a state satisfying the invariant is missing from the enumerated shape list (case split incomplete)");
	VP_WITNESS(0, "shape completeness reached");
}
#endif
static void check_height(int ht, int n) { VP_ASSERT(ht <= 2 * log2floor(n + 1), "height exceeds 2*log2(n+1)"); }


int visits[N + 1];
void vp_visit(node *n) { int i = idx((uint8_t *)n); VP_ASSERT(i >= 0 && i < N, "callback invoked with a pointer that is no stored interval"); visits[i]++; }

void harness_insert(void) {
	havoc(0, 1);
	int x = N - 1, ht;
	VP_ASSUME(V.key[x] <= V.hi[x]);                 /* documented precondition of insert: lo <= hi (asserted by the library) */
	it_insert(&tree, NP[x]);
	struct view W; read_view(&W, 0);
	int in2[N], rank2[N];
	int pos = 0; for(int j = 0; j < N; j++) if(in[j] && V.key[j] <= V.key[x]) pos++;
	for(int j = 0; j < N; j++) { in2[j] = in[j] || j == x; rank2[j] = j == x ? pos : (rank[j] >= pos ? rank[j] + 1 : rank[j]); }
	VP_ASSERT(valid(&W, in2, rank2, m + 1, 1, &ht), "after insert: valid red-black tree in lower-bound order with exact subtree_max aggregates");
	for(int j = 0; j < N; j++) VP_ASSERT(W.key[j] == V.key[j] && W.hi[j] == V.hi[j], "interval endpoints changed");
	VP_OBSERVE(W.root); VP_WITNESS(0, "insert reached");
}
void harness_remove(void) {
	int x, ht;
#ifdef SHAPE
	for(int xc = 0; xc < M; xc++) {       /* every victim, one after the other, each from a fresh pre-state: the index stays concrete for symex */
	x = xc;
	havoc(0, 1);
#else
	{
	havoc(0, 1);
	VP_INPUT(x); VP_ASSUME(x >= 0 && x < N && in[x]);
#endif
	it_remove(&tree, NP[x]);
	struct view W; read_view(&W, 0);
	int in2[N], rank2[N];
	for(int j = 0; j < N; j++) { in2[j] = in[j] && j != x; rank2[j] = rank[j] > rank[x] ? rank[j] - 1 : rank[j]; }
	VP_ASSERT(valid(&W, in2, rank2, m - 1, 1, &ht), "after remove: valid red-black tree over the other intervals with exact subtree_max aggregates");
	for(int j = 0; j < N; j++) VP_ASSERT(W.key[j] == V.key[j] && W.hi[j] == V.hi[j], "interval endpoints changed");
	VP_OBSERVE(W.root); VP_WITNESS(0, "remove reached");
	}
}
void harness_query(void) {       /* for_overlaps on an ARBITRARY valid tree: callback exactly once per overlapping interval, never otherwise */
	havoc(0, 1);
	int lb, ub, pt; VP_INPUT(lb); VP_INPUT(ub); VP_INPUT(pt);
	if(pt & 1) { it_overlaps_point(&tree, lb); ub = lb; } else { VP_ASSUME(lb <= ub); it_overlaps(&tree, lb, ub); }
	for(int i = 0; i < N; i++) {
		int want = in[i] && V.key[i] <= ub && lb <= V.hi[i];
		VP_ASSERT(visits[i] == want, "for_overlaps: callback count differs from [lo <= ub && lb <= hi] (missed, spurious or repeated interval)");
	}
	struct view W; read_view(&W, 0);
	for(int j = 0; j < N; j++) VP_ASSERT(W.P[j] == V.P[j] && W.L[j] == V.L[j] && W.R[j] == V.R[j] && W.smax[j] == V.smax[j] && W.col[j] == V.col[j], "query modified the tree");
	VP_OBSERVE(visits[0] + 2 * visits[1]); VP_WITNESS(0, "query reached");
}
#ifdef VP_NATIVE
void harness_script(void) {
	int seq[N], len = 0, cin[N];
	for(int i = 0; i < N; i++) { cin[i] = 0; memset(NP[i], 0, sizeof(node)); }
	it_init(&tree);
	for(int step = 0; step < 40; step++) {
		unsigned r; VP_INPUT(r);
		int x = r % N;
		if(!cin[x]) {
			int k, w; VP_INPUT(k); VP_INPUT(w); k &= 7; w &= 7;
			NP[x]->f0 = (uint32_t)k; NP[x]->f1 = (uint32_t)(k + w); it_insert(&tree, NP[x]);
			int pos = 0; while(pos < len && (int32_t)NP[seq[pos]]->f0 <= k) pos++; for(int j = len; j > pos; j--) seq[j] = seq[j - 1]; seq[pos] = x; len++; cin[x] = 1;
		} else {
			it_remove(&tree, NP[x]);
			int pos = 0; while(seq[pos] != x) pos++; for(int j = pos; j < len - 1; j++) seq[j] = seq[j + 1]; len--; cin[x] = 0;
		}
		struct view W; read_view(&W, 0); int rk[N], ht; for(int j = 0; j < N; j++) rk[j] = -1; for(int j = 0; j < len; j++) rk[seq[j]] = j;
		VP_ASSERT(valid(&W, cin, rk, len, 1, &ht), "script: reachable state violates the invariant used by the inductive step");
		int lb = (r >> 8) & 15, ub = lb + ((r >> 12) & 7);
		for(int j = 0; j < N; j++) visits[j] = 0;
		it_overlaps(&tree, lb, ub);
		for(int j = 0; j < N; j++) VP_ASSERT(visits[j] == (cin[j] && (int32_t)NP[j]->f0 <= ub && lb <= (int32_t)NP[j]->f1), "script: for_overlaps result wrong");
		VP_OBSERVE(W.root * 1000 + ht * 100 + len);
	}
}
#endif
