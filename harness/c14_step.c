/* C14 (+ hash_map part of C16) — frg::hash_map: ONE operation from an arbitrary valid map (inductive step over an index view).
 *
 *   -DCAP=0|10|20   capacity of the pre-state (the bucket table is an allocator block of CAP chain pointers)
 *   -DM=m           entries contained before the operation (m <= CAP); N = M+1 node objects, node M is the block the allocator
 *                   hands out when the operation allocates a chain node
 *   -DOP=k          the operation (list below)            -DVT=0 Value=int / 1 Value=tracked (lifetime registry, C16)
 *   -DFULLHASH      hash values are arbitrary 32-bit numbers (default: values < 20, sound because the map uses hash % capacity only,
 *                   capacity in {10,20} inside the bound)
 *
 * Pre-state = ANY map satisfying Inv: capacity CAP, _size == M, M distinct 64-bit keys (arbitrary values), every node filed in the
 * chain of bucket hash(key) % capacity, chains acyclic and disjoint.  The hash functor is a solver-chosen FUNCTION of the key: each
 * stored key and the argument key get an arbitrary hash value (constant, colliding, spread: all included).
 * Symmetry reduction (sound: the library compares node addresses only for equality): node i is the i-th entry in iteration order
 * (bucket ascending, chain order), so Inv for the pre-state is "bucket(i) is non-decreasing in i".  The POST-state is judged by the
 * general invariant valid() (no ordering assumption), together with the reference association (keys, values, membership),
 * the allocator protocol of the operation and, for VT=1, the lifetime registry.  */
#define VP_PANIC_VIOLATION
#include "vp.h"
#ifndef M
#define M 3
#endif
#ifndef CAP
#define CAP 10
#endif
#ifndef OP
#define OP 1
#endif
#ifndef VT
#define VT 0
#endif
#if VT
#define VP_MAXREG 16
#define VP_MAXBLK 1
/* the unit header declares the hooks with the IR's types; vp_track.h defines them with (void *, int32_t): rename the declarations away.
 * The allocator of THIS harness is the stub below (pre-declared blocks), so vp_track.h's allocator is renamed away as well. */
#define vp_ctor vp_unitdecl_ctor
#define vp_ctor_default vp_unitdecl_ctor_default
#define vp_copy vp_unitdecl_copy
#define vp_move vp_unitdecl_move
#define vp_assign_copy vp_unitdecl_assign_copy
#define vp_assign_move vp_unitdecl_assign_move
#define vp_dtor vp_unitdecl_dtor
#endif
#if VT
#include "c14_trk.h"
#elif defined(H64)
#include "c14_h64.h"      /* -DH64: functor returns uint64_t = (solver-chosen high word << 32) | hash; buckets must follow (unsigned int)hash % capacity */
#else
#include "c14_int.h"
#endif
#if VT
#undef vp_ctor
#undef vp_ctor_default
#undef vp_copy
#undef vp_move
#undef vp_assign_copy
#undef vp_assign_move
#undef vp_dtor
#define vp_alloc vp_track_alloc_unused
#define vp_free vp_track_free_unused
#define vp_dealloc vp_track_dealloc_unused
#include "vp_track.h"
#undef vp_alloc
#undef vp_free
#undef vp_dealloc
typedef struct S_struct_frg__hash_map_unsigned_long__tracked__vp_hash_functor__vp_allocator___chain chain;
typedef struct S_class_frg__hash_map map_t;
typedef struct S_class_frg__hash_map_unsigned_long__tracked__vp_hash_functor__vp_allocator___iterator iter_t;
typedef struct S_class_frg__hash_map_unsigned_long__tracked__vp_hash_functor__vp_allocator___const_iterator citer_t;
#define A(f) ht_##f
#define VALI(n) ((n)->f0.f0.f1.f0.f0)
#define STATE(n) ((n)->f0.f0.f1.f0.f1)
#else
typedef struct S_struct_frg__hash_map_unsigned_long__int__vp_hash_functor__vp_allocator___chain chain;
typedef struct S_class_frg__hash_map map_t;
typedef struct S_class_frg__hash_map_unsigned_long__int__vp_hash_functor__vp_allocator___iterator iter_t;
typedef struct S_class_frg__hash_map_unsigned_long__int__vp_hash_functor__vp_allocator___const_iterator citer_t;
#define A(f) hi_##f
#define VALI(n) ((n)->f0.f0.f1.f0)
#endif
#define KEY(n) ((n)->f0.f0.f0)
#define VALP(n) ((void *)&(n)->f0.f0.f1.f0)
#define NEXT(n) ((n)->f1)

#define N (M + 1)
#define SP M
#define MAXN 13
#if N > MAXN
#error "at most 12 entries"
#endif
#if M > CAP && !defined(SCRIPT)
#error "Inv: _size <= _capacity"
#endif
#ifdef FULLHASH
#define HLIM 0xFFFFFFFFu
#else
#define HLIM 19u
#endif
chain e0, e1, e2, e3, e4, e5, e6, e7, e8, e9, e10, e11, e12, POISON;
static chain *const EP[MAXN] = {&e0, &e1, &e2, &e3, &e4, &e5, &e6, &e7, &e8, &e9, &e10, &e11, &e12};
chain *TA[CAP ? CAP : 1];          /* the table block of the pre-state */
chain *NT10[10], *NT20[20];       /* blocks the allocator hands out for a new table of 10 / 20 buckets */
map_t map;

/* reference association + the hash function */
uint64_t key[N]; uint32_t hs[N]; int32_t val[N]; int in[N], known[N];
static int idx(const chain *p) { int r = -1; for(int k = 0; k < N; k++) if(p == EP[k]) r = k; if(p && r < 0) r = N; return r; }
#if defined(FULLHASH) || defined(SCRIPT)
static uint32_t bucket_of(uint32_t h, uint64_t cap) { return cap == 20 ? h % 20u : h % 10u; }
#else   /* h < 20: no divider needed in the harness */
static uint32_t bucket_of(uint32_t h, uint64_t cap) { return cap == 20 ? h : (h >= 10u ? h - 10u : h); }
#endif
#ifdef VP_NATIVE
static int script_on; static uint32_t HT[16];
#endif
uint32_t hh[N];                   /* -DH64: high word of the 64-bit functor result (arbitrary; the library must ignore it) */
#ifdef H64
uint64_t vp_hash64(uint64_t k) {
#ifdef VP_NATIVE
	if(script_on) return ((uint64_t)HT[(k + 7) % 16] << 32) | HT[k % 16];
#endif
	uint64_t r = 0; int f = 0;
	for(int i = 0; i < N; i++) { int e = known[i] && k == key[i]; r = e ? (((uint64_t)hh[i] << 32) | hs[i]) : r; f |= e; }
	VP_ASSERT(f, "hash functor called with a key that is neither stored in the map nor the argument of the operation");
	return r;
}
#else
uint32_t vp_hash(uint64_t k) {
#ifdef VP_NATIVE
	if(script_on) return HT[k % 16];
#endif
	uint32_t r = 0; int f = 0;
	for(int i = 0; i < N; i++) { int e = known[i] && k == key[i]; r = e ? hs[i] : r; f |= e; }
	VP_ASSERT(f, "hash functor called with a key that is neither stored in the map nor the argument of the operation");
	return r;
}
#endif

/* allocator stub: pre-declared blocks chosen by request size (one chain node, one table per operation), protocol recorded */
int n_node_alloc, n_tab_alloc, ta_freed, node_freed[N];
chain **tab_given; uint64_t tab_bytes;
static void poison_tab(chain **t, int n) { for(int b = 0; b < n; b++) t[b] = &POISON; }
#ifdef VP_NATIVE
static int tab_live[3]; static uint64_t script_key; static int script_val;
static uint8_t *script_alloc(uint64_t size) {
	if(size == sizeof(chain)) {
		for(int i = 0; i < N; i++) if(!in[i]) { in[i] = 1; known[i] = 1; key[i] = script_key; hs[i] = HT[script_key % 16]; val[i] = script_val; NEXT(EP[i]) = &POISON; return (uint8_t *)EP[i]; }
		VP_ASSERT(0, "script: node pool exhausted");
	}
	chain **t = 0;
	if(size == 160) { VP_ASSERT(!tab_live[2], "script: two 20-bucket tables live"); tab_live[2] = 1; t = NT20; poison_tab(t, 20); }
	else if(size == 80) { int w = tab_live[1] ? 0 : 1; VP_ASSERT(!tab_live[w] && CAP == 10, "script: three 10-bucket tables live"); tab_live[w] = 1; t = w ? NT10 : TA; poison_tab(t, 10); }
	else VP_ASSERT(0, "script: unexpected allocation size");
	return (uint8_t *)t;
}
static void script_dealloc(uint8_t *p, uint64_t size) {
	if(!p) return;
	if(p == (uint8_t *)TA || p == (uint8_t *)NT10 || p == (uint8_t *)NT20) {
		int w = p == (uint8_t *)TA ? 0 : p == (uint8_t *)NT10 ? 1 : 2;
		VP_ASSERT(tab_live[w] && size == (w == 2 ? 160u : 80u), "script: table released twice or with the wrong size"); tab_live[w] = 0; poison_tab((chain **)p, w == 2 ? 20 : 10); return;
	}
	int i = idx((chain *)p);
	VP_ASSERT(i >= 0 && i < N && in[i] && size == sizeof(chain), "script: bad node release");
	in[i] = 0; known[i] = 0; NEXT(EP[i]) = &POISON;
}
#endif
uint8_t *vp_alloc(uint64_t size) {
#ifdef VP_NATIVE
	if(script_on) return script_alloc(size);
#endif
	if(size == sizeof(chain)) {
		VP_ASSERT(n_node_alloc == 0, "allocator: more than one chain node allocated by one operation");
		n_node_alloc++; return (uint8_t *)EP[SP];
	}
	VP_ASSERT(size == 80 || size == 160, "allocator: allocate() with a size that is neither sizeof(chain) nor a table of 10 / 20 chain pointers");
	VP_ASSUME(size == 80 || size == 160);
	VP_ASSERT(n_tab_alloc == 0, "allocator: more than one bucket table allocated by one operation");
	n_tab_alloc++; tab_bytes = size; tab_given = size == 80 ? NT10 : NT20;
	return (uint8_t *)tab_given;
}
void vp_dealloc(uint8_t *p, uint64_t size) {
#ifdef VP_NATIVE
	if(script_on) { script_dealloc(p, size); return; }
#endif
	if(!p) return;                                   /* deallocate(nullptr, 0) of a map that never had a table: accepted like free(NULL) */
	if(CAP && p == (uint8_t *)TA) {
		VP_ASSERT(!ta_freed, "allocator: bucket table released twice");
		VP_ASSERT(size == 8u * CAP, "allocator: bucket table deallocated with a size different from the allocated size");
		ta_freed = 1; poison_tab(TA, CAP ? CAP : 1); return;
	}
	int i = idx((chain *)p);
	VP_ASSERT(i >= 0 && i < N && in[i], "allocator: release of a pointer that is not a live block of this map");
	VP_ASSUME(i >= 0 && i < N && in[i]);
	VP_ASSERT(!node_freed[i], "allocator: chain node released twice");
	VP_ASSERT(size == sizeof(chain), "allocator: chain node deallocated with a size different from sizeof(chain)");
#if VT
	for(int k = 0; k < N; k++) if(k == i) VP_ASSERT(STATE(EP[k]) != VP_ALIVE && STATE(EP[k]) != VP_MOVED, "lifetime: chain node deallocated while its value is still alive (missing destructor call)");
#endif
	for(int k = 0; k < N; k++) if(k == i) { node_freed[k] = 1; NEXT(EP[k]) = &POISON; }
}
void vp_free(uint8_t *p) { (void)p; VP_ASSERT(0, "allocator: hash_map must release blocks with deallocate(p, size)"); }

/* ---- index view */
struct view { int which; uint64_t cap, size; int head[20]; int nx[N]; uint64_t key[N]; int32_t val[N]; };
static void read_view(struct view *v) {
	chain **t = map.f2; v->cap = map.f3; v->size = map.f4;
	v->which = t == 0 ? 0 : (CAP && t == TA) ? 1 : t == NT10 ? 2 : t == NT20 ? 3 : 4;
	for(int b = 0; b < 20; b++) {
		chain *h = 0;
		if((uint64_t)b < v->cap) { if(v->which == 1 && b < CAP) h = TA[b < CAP ? b : 0]; else if(v->which == 2 && b < 10) h = NT10[b < 10 ? b : 0]; else if(v->which == 3) h = NT20[b]; }
		v->head[b] = idx(h);
	}
	for(int i = 0; i < N; i++) { v->nx[i] = idx(NEXT(EP[i])); v->key[i] = KEY(EP[i]); v->val[i] = (int32_t)VALI(EP[i]); }
}
/* the general invariant: table is the right block for the capacity, every member is referenced exactly once (by a bucket head or by
 * the next link of a member of the same bucket), sits in bucket hash(key) % capacity and is reachable from its bucket head (acyclic) */
static int valid(const struct view *v, const int *mem, int m) {
	if(v->size != (uint64_t)m) return 0;
	if(v->cap == 0) return v->which == 0 && m == 0;
	if(v->cap != 10 && v->cap != 20) return 0;
	if((uint64_t)m > v->cap) return 0;
	if(v->which == 1) { if(v->cap != CAP) return 0; }
	else if(v->which == 2) { if(v->cap != 10) return 0; }
	else if(v->which == 3) { if(v->cap != 20) return 0; }
	else return 0;
	int cnt[N], pred[N], rk[N], ok = 1; uint32_t hb[N];
	for(int i = 0; i < N; i++) { cnt[i] = 0; pred[i] = -2; hb[i] = bucket_of(hs[i], v->cap); }
	for(int b = 0; b < 20; b++) if((uint64_t)b < v->cap) {
		int h = v->head[b];
		ok &= h < N;
		for(int i = 0; i < N; i++) if(h == i) { ok &= mem[i] && hb[i] == (uint32_t)b; cnt[i]++; pred[i] = -1; }
	}
	for(int j = 0; j < N; j++) if(mem[j]) {
		int x = v->nx[j];
		ok &= x < N;
		for(int i = 0; i < N; i++) if(x == i) { ok &= mem[i] && hb[i] == hb[j]; cnt[i]++; pred[i] = j; }
	}
	for(int i = 0; i < N; i++) { if(mem[i]) ok &= cnt[i] == 1; rk[i] = pred[i] == -1 ? 0 : N; }
	for(int round = 0; round < N; round++)
		for(int i = 0; i < N; i++) if(mem[i] && pred[i] >= 0) { int r = N; for(int j = 0; j < N; j++) if(pred[i] == j) r = rk[j] + 1; rk[i] = r > N ? N : r; }
	for(int i = 0; i < N; i++) if(mem[i]) ok &= rk[i] < N;
	return ok;
}

/* ---- solver-chosen pre-state */
uint64_t pk; int pj;              /* argument key; index of the entry that holds it, -1 = absent */
/* -DPROF="{b0,b1,...}": the bucket (hash % CAP) of every entry is fixed by the query (non-decreasing list of M numbers < CAP), which makes the
 * chain structure concrete; the remaining bit of a hash value < 20 (h = b or b + 10 when CAP == 10), keys, values and the argument stay symbolic */
#ifdef PROF
static const uint8_t prof[M + 1] = PROF;
#endif
uint32_t bk[N];                   /* bucket of entry i in the pre-state */
static void havoc(int allow_present, int allow_absent) {
#if VT
	for(int i = 0; i < N; i++) vp_region(EP[i], sizeof(chain));
#endif
	for(int i = 0; i < M; i++) {
		VP_INPUT(key[i]); VP_INPUT(hs[i]); VP_INPUT(val[i]); in[i] = 1; known[i] = 1;
#ifdef H64
		VP_INPUT(hh[i]);
#endif
		for(int j = 0; j < i; j++) VP_ASSUME(key[j] != key[i]);
#ifdef PROF
		hs[i] = prof[i] + ((CAP == 10 && (hs[i] & 1)) ? 10u : 0u); bk[i] = prof[i];
		VP_ASSUME(prof[i] < CAP && (i == 0 || prof[i - 1] <= prof[i]));
#else
		VP_ASSUME(hs[i] <= HLIM);
		bk[i] = bucket_of(hs[i], CAP);
		if(i > 0) VP_ASSUME(bk[i - 1] <= bk[i]);
#endif
	}
	in[SP] = 0; known[SP] = 0;
	VP_INPUT(pj); VP_INPUT(key[SP]); VP_INPUT(hs[SP]); VP_INPUT(val[SP]);
#ifdef H64
	VP_INPUT(hh[SP]);
#endif
	VP_ASSUME(pj >= -1 && pj < M && hs[SP] <= HLIM);
	if(pj < 0) { VP_ASSUME(allow_absent); for(int i = 0; i < M; i++) VP_ASSUME(key[i] != key[SP]); known[SP] = 1; pk = key[SP]; }
	else { VP_ASSUME(allow_present); pk = 0; for(int i = 0; i < M; i++) if(pj == i) pk = key[i]; }
	/* materialise */
	poison_tab(TA, CAP ? CAP : 1); poison_tab(NT10, 10); poison_tab(NT20, 20);
	for(int b = 0; b < CAP; b++) { chain *h = 0; for(int i = M - 1; i >= 0; i--) if(bk[i] == (uint32_t)b) h = EP[i]; TA[b] = h; }
	for(int i = 0; i < M; i++) {
		KEY(EP[i]) = key[i]; VALI(EP[i]) = (uint32_t)val[i];
		NEXT(EP[i]) = (i + 1 < M && bk[i + 1] == bk[i]) ? EP[i + 1] : 0;
#if VT
		STATE(EP[i]) = VP_ALIVE; vp_live++;
#endif
	}
	KEY(EP[SP]) = 0xEEEEEEEEEEEEEEEEull; NEXT(EP[SP]) = &POISON; NEXT(&POISON) = &POISON;
	map.f2 = CAP ? &TA[0] : (chain **)0; map.f3 = CAP; map.f4 = M;
}

/* ---- post-state: invariant, reference association, allocator protocol, lifetimes */
static void post(const int *mem, int m, int new_nodes, int freed_node) {
	struct view W; read_view(&W);
	VP_ASSERT(valid(&W, mem, m), "post-state: every entry must sit exactly once in the chain of bucket hash(key) % capacity of the current table, chains acyclic, _size == number of entries");
	for(int i = 0; i < N; i++) if(mem[i]) {
		VP_ASSERT(W.key[i] == key[i], "post-state: key of an entry differs from the reference");
		VP_ASSERT(W.val[i] == val[i], "post-state: value of an entry differs from the reference");
#if VT
		VP_ASSERT(STATE(EP[i]) == VP_ALIVE, "lifetime: value of a contained entry is not alive");
#endif
	}
	VP_ASSERT(A(size)(&map) == (uint64_t)m, "size() is the number of entries");
	VP_ASSERT((A(empty)(&map) != 0) == (m == 0), "empty() is true exactly when there is no entry");
	VP_ASSERT(n_node_alloc == new_nodes, "allocator: number of chain nodes allocated differs from the number of entries created");
	for(int i = 0; i < N; i++) VP_ASSERT(node_freed[i] == (i == freed_node), "allocator: exactly the removed entry's node is released, exactly once");
	if(W.which == 1 || W.which == 0) VP_ASSERT(n_tab_alloc == 0 && !ta_freed, "allocator: a table was allocated or released although the map keeps its table");
	else {
		VP_ASSERT(n_tab_alloc == 1 && (chain **)map.f2 == tab_given && tab_bytes == 8 * W.cap, "allocator: the new table is not the block obtained with sizeof(chain*) * capacity");
		VP_ASSERT(!CAP || ta_freed, "allocator: the old table was not released when the map switched to a new one (leak)");
	}
#if VT
	VP_ASSERT(vp_live == m, "lifetime: number of live value objects differs from the number of entries (leaked temporary / missing destructor / double destruction)");
#endif
	VP_OBSERVE(W.cap * 1000 + W.size * 10 + W.which);
}
static void same_members(int *mem) { for(int i = 0; i < N; i++) mem[i] = in[i]; }

#if M > 0
#define WITNESS_PRESENT(msg) VP_WITNESS(0, msg)
#else
#define WITNESS_PRESENT(msg) ((void)0)
#endif
/* OP: 0 constructor (base case)   1 insert(const&) absent key   2 insert(&&) absent key   3 operator[]   4 get   5 find   6 find const
 *     7 remove   8 begin/++/end iteration   9 const_iterator ++ from find(key)   10 destructor */
void harness(void) {
	int mem[N];
#if OP == 0
	VP_INPUT(pj);
	A(ctor)(&map);
	in[SP] = 0; same_members(mem); post(mem, 0, 0, -1);
	VP_ASSERT(map.f2 == 0 && map.f3 == 0, "a new map has no table");
	VP_WITNESS(0, "constructor reached");
#elif OP == 1 || OP == 2
	havoc(0, 1);
	if(OP == 1) A(insert_copy)(&map, pk, (uint32_t)val[SP]); else A(insert_move)(&map, pk, (uint32_t)val[SP]);
	same_members(mem); mem[SP] = 1;
	post(mem, M + 1, 1, -1);
	VP_ASSERT((void *)A(get)(&map, pk) == VALP(EP[SP]), "get(key) after insert(key, v) does not locate the new entry");
	VP_WITNESS(0, "insert reached");
#elif OP == 3
	havoc(1, 1);
	void *r = (void *)A(index)(&map, pk);
	same_members(mem);
	if(pj < 0) {
		mem[SP] = 1; val[SP] = 0;                  /* Value{} */
		post(mem, M + 1, 1, -1);
		VP_ASSERT(r == VALP(EP[SP]), "operator[] of an absent key must return the value of the one entry it created");
		VP_ASSERT((void *)A(get)(&map, pk) == r, "get(key) after operator[](key) does not locate the new entry");
		VP_WITNESS(0, "operator[] absent key reached");
	} else {
		post(mem, M, 0, -1);
		for(int i = 0; i < M; i++) if(pj == i) VP_ASSERT(r == VALP(EP[i]), "operator[] of a present key must return the stored value");
		WITNESS_PRESENT("operator[] present key reached");
	}
#elif OP == 4
	havoc(1, 1);
	void *r = (void *)A(get)(&map, pk);
	same_members(mem); post(mem, M, 0, -1);
	if(pj < 0) { VP_ASSERT(r == 0, "get() of an absent key must return null"); VP_WITNESS(0, "get absent key reached"); }
	else { for(int i = 0; i < M; i++) if(pj == i) VP_ASSERT(r == VALP(EP[i]), "get() of a present key must return the stored value"); WITNESS_PRESENT("get present key reached"); }
#elif OP == 5
	havoc(1, 1);
	iter_t it, en; A(find)(&map, pk, &it); A(end)(&map, &en);
	same_members(mem); post(mem, M, 0, -1);
	if(pj < 0) {
		VP_ASSERT(A(it_eq)(&it, &en), "find() of an absent key must return end()"); VP_ASSERT(!A(it_bool)(&it), "find() of an absent key converts to false");
		VP_WITNESS(0, "find absent key reached");
	} else {
		VP_ASSERT(!A(it_eq)(&it, &en) && A(it_bool)(&it), "find() of a present key must not return end()");
		VP_ASSERT(A(it_key)(&it) == pk, "find(): key of the located entry");
		void *r = (void *)A(it_val)(&it);
		for(int i = 0; i < M; i++) if(pj == i) VP_ASSERT(r == VALP(EP[i]), "find() of a present key must locate the stored value");
		WITNESS_PRESENT("find present key reached");
	}
#elif OP == 6
	havoc(1, 1);
	citer_t it, en; A(cfind)(&map, pk, &it); A(cend)(&map, &en);
	same_members(mem); post(mem, M, 0, -1);
	if(pj < 0) {
		VP_ASSERT(A(cit_eq)(&it, &en), "find() const of an absent key must return end()"); VP_ASSERT(!A(cit_bool)(&it), "find() const of an absent key converts to false");
		VP_WITNESS(0, "const find absent key reached");
	} else {
		VP_ASSERT(!A(cit_eq)(&it, &en) && A(cit_bool)(&it), "find() const of a present key must not return end()");
		VP_ASSERT(A(cit_key)(&it) == pk, "find() const: key of the located entry");
		void *r = (void *)A(cit_val)(&it);
		for(int i = 0; i < M; i++) if(pj == i) VP_ASSERT(r == VALP(EP[i]), "find() const of a present key must locate the stored value");
		WITNESS_PRESENT("const find present key reached");
	}
#elif OP == 7
	havoc(1, 1);
	uint32_t out = 0x5EED5EEDu;
	int got = A(remove)(&map, pk, &out);
	same_members(mem);
	if(pj < 0) { VP_ASSERT(!got, "remove() of an absent key must return an empty optional"); post(mem, M, 0, -1); VP_WITNESS(0, "remove absent key reached"); }
	else {
		VP_ASSERT(got, "remove() of a present key must return the stored value");
		for(int i = 0; i < M; i++) if(pj == i) { VP_ASSERT((int32_t)out == val[i], "remove() must return the value stored under the key"); mem[i] = 0; }
		known[SP] = 1; key[SP] = pk;                          /* the removed key stays hashable for the follow-up lookup */
		for(int i = 0; i < M; i++) if(pj == i) { hs[SP] = hs[i]; hh[SP] = hh[i]; known[i] = 0; }
		post(mem, M - 1, 0, pj);
		VP_ASSERT(A(get)(&map, pk) == 0, "the key is still found after remove()");
		WITNESS_PRESENT("remove present key reached");
	}
#elif OP == 8
	havoc(1, 1);
	iter_t it, en; A(begin)(&map, &it); A(end)(&map, &en);
	int vis[N]; for(int i = 0; i < N; i++) vis[i] = 0;
	for(int step = 0; step < M; step++) {
		VP_ASSERT(!A(it_eq)(&it, &en) && A(it_bool)(&it), "iteration ended before every entry was visited");
		uint64_t k = A(it_key)(&it); void *r = (void *)A(it_val)(&it);
		for(int i = 0; i < M; i++) if(r == VALP(EP[i])) { vis[i]++; VP_ASSERT(k == key[i], "iterator yields a key that does not belong to the value"); }
		A(it_next)(&it);
	}
	VP_ASSERT(A(it_eq)(&it, &en) && !A(it_bool)(&it), "iteration must reach end() after exactly size() steps");
	for(int i = 0; i < M; i++) VP_ASSERT(vis[i] == 1, "iteration must yield every entry exactly once");
	same_members(mem); post(mem, M, 0, -1);
	VP_WITNESS(0, "iteration reached");
#elif OP == 9
	havoc(1, 0);
	citer_t it, en; A(cfind)(&map, pk, &it); A(cend)(&map, &en);
	int vis[N], steps = 0; for(int i = 0; i < N; i++) vis[i] = 0;
	for(int step = 0; step < M; step++) if(!A(cit_eq)(&it, &en)) {
		VP_ASSERT(A(cit_bool)(&it), "a const_iterator different from end() converts to true");
		uint64_t k = A(cit_key)(&it); void *r = (void *)A(cit_val)(&it); int hit = 0;
		for(int i = 0; i < M; i++) if(r == VALP(EP[i])) { vis[i]++; hit = 1; VP_ASSERT(k == key[i], "const_iterator yields a key that does not belong to the value"); }
		VP_ASSERT(hit, "const_iterator yields something that is not an entry");
		A(cit_next)(&it); steps++;
	}
	VP_ASSERT(A(cit_eq)(&it, &en), "const iteration from find(key) must reach end() within size() steps");
	for(int i = 0; i < M; i++) VP_ASSERT(vis[i] <= 1 && (pj != i || vis[i] == 1), "const iteration from find(key) yields the located entry and no entry twice");
	same_members(mem); post(mem, M, 0, -1);
	VP_WITNESS(steps < 1, "const iteration reached");
#elif OP == 10
	havoc(1, 1);
	A(dtor)(&map);
	VP_ASSERT(n_node_alloc == 0 && n_tab_alloc == 0, "allocator: destructor allocates");
	for(int i = 0; i < N; i++) VP_ASSERT(node_freed[i] == in[i], "allocator: the destructor must release every chain node exactly once");
	VP_ASSERT(!CAP || ta_freed, "allocator: the destructor must release the bucket table");
#if VT
	VP_ASSERT(vp_live == 0, "lifetime: values still alive after the map was destroyed");
#endif
	VP_OBSERVE(ta_freed);
	VP_WITNESS(0, "destructor reached");
#endif
}

/* hash.hpp: the concrete functors are pure functions of the key (members of the family the steps quantify over); values compared with the defining formulas.
 * CStringHash reads exactly up to the terminator of an exact-size buffer (standard pointer checks on). */
#if !VT
void harness_hash(void) {
	uint64_t v; VP_INPUT(v);
	VP_ASSERT(hs_u64(v) == (uint32_t)(v ^ (v >> 32)), "hash<uint64_t>: low word xor high word");
	VP_ASSERT(hs_u64(v) == hs_u64(v), "hash<uint64_t> is a function of the key");
	VP_ASSERT(hs_i64(v) == (uint32_t)((int64_t)v ^ ((int64_t)v >> 32)), "hash<int64_t>: low word xor sign-extended high word");
	int len; VP_INPUT(len); VP_NATIVE_ONLY(if(getenv("VP_RANDOM")) len = (unsigned)len % 4;) VP_ASSUME(len >= 0 && len <= 3);
	uint8_t c0, c1, c2; VP_INPUT(c0); VP_INPUT(c1); VP_INPUT(c2);
	VP_NATIVE_ONLY(if(getenv("VP_RANDOM")) { c0 |= 1; c1 |= 1; c2 |= 1; }) VP_ASSUME(c0 && c1 && c2);
	uint8_t s0[1] = {0}, s1[2] = {c0, 0}, s2[3] = {c0, c1, 0}, s3[4] = {c0, c1, c2, 0};
	uint32_t ref = 0; const uint8_t cs[3] = {c0, c1, c2};
	for(int i = 0; i < 3; i++) if(i < len) { ref = (ref << 8) | (ref >> 24); ref += (uint32_t)(int32_t)(int8_t)cs[i]; }
	uint32_t h = len == 0 ? hs_cstr(s0) : len == 1 ? hs_cstr(s1) : len == 2 ? hs_cstr(s2) : hs_cstr(s3);
	VP_ASSERT(h == ref, "CStringHash: rotate-left-8 and add, byte by byte up to the terminator");
	VP_OBSERVE(h); VP_OBSERVE(hs_u64(v));
	VP_WITNESS(0, "hash functors reached");
}
#endif
#ifdef VP_NATIVE
/* native validation (generated C vs real C++), build with -DM=11 -DCAP=10: a random history from the constructor over a small key universe
 * with a random 32-bit hash table; blocks come from the same pre-declared pool; every reachable state must satisfy the invariant the
 * inductive step starts from (valid(), general form) and every result must agree with the reference map */
#define UK 16
void harness_script(void) {
	script_on = 1;
	for(int k = 0; k < UK; k++) { VP_INPUT(HT[k]); if(HT[k] & 1) HT[k] = (HT[k] >> 1) % 7; }       /* half of the table entries collide heavily */
	for(int i = 0; i < N; i++) { in[i] = 0; known[i] = 0; }
#if VT
	for(int i = 0; i < N; i++) vp_region(EP[i], sizeof(chain));
#endif
	poison_tab(TA, CAP ? CAP : 1); poison_tab(NT10, 10); poison_tab(NT20, 20);
	A(ctor)(&map);
	int m = 0;
	for(int step = 0; step < 60; step++) {
		unsigned op, k; int v; VP_INPUT(op); VP_INPUT(k); VP_INPUT(v); op %= 8; k %= UK;
		if(step < 14 && (op & 1)) op = 0;             /* fill quickly so that the growth thresholds are crossed */
		int j = -1; for(int i = 0; i < N; i++) if(in[i] && key[i] == k) j = i;
		script_key = k; script_val = v;
		switch(op) {
		case 0: case 1: if(j >= 0 || m >= M) break;
			if(op == 0) A(insert_copy)(&map, k, (uint32_t)v); else A(insert_move)(&map, k, (uint32_t)v);
			m++; break;
		case 2: case 3: if(j < 0 && m >= M) break;
			{ script_val = 0; void *r = (void *)A(index)(&map, k);
			  if(j < 0) { m++; for(int i = 0; i < N; i++) if(in[i] && key[i] == k) j = i; }
			  VP_ASSERT(j >= 0 && r == VALP(EP[j]), "script: operator[] result"); } break;
		case 4: { void *r = (void *)A(get)(&map, k); VP_ASSERT(j < 0 ? r == 0 : r == VALP(EP[j]), "script: get result"); } break;
		case 5: { iter_t it, en; A(find)(&map, k, &it); A(end)(&map, &en);
			  VP_ASSERT(j < 0 ? A(it_eq)(&it, &en) : (!A(it_eq)(&it, &en) && (void *)A(it_val)(&it) == VALP(EP[j]) && A(it_key)(&it) == k), "script: find result"); } break;
		case 6: { uint32_t out = 0; int got = A(remove)(&map, k, &out);
			  VP_ASSERT(got == (j >= 0), "script: remove result"); if(got) { VP_ASSERT((int32_t)out == val[j], "script: removed value"); VP_ASSERT(!in[j], "script: node of the removed entry not released"); m--; } } break;
		case 7: { iter_t it, en; A(begin)(&map, &it); A(end)(&map, &en); int cnt = 0, vis[N]; for(int i = 0; i < N; i++) vis[i] = 0;
			  while(!A(it_eq)(&it, &en) && cnt <= N) { int x = idx((chain *)((char *)A(it_val)(&it) - ((char *)VALP(EP[0]) - (char *)EP[0]))); VP_ASSERT(x >= 0 && x < N && in[x], "script: iterator yields a non-entry"); vis[x]++; cnt++; A(it_next)(&it); }
			  VP_ASSERT(cnt == m, "script: iteration length"); for(int i = 0; i < N; i++) VP_ASSERT(vis[i] == in[i], "script: iteration yields every entry exactly once"); } break;
		}
		struct view W; read_view(&W);
		VP_ASSERT(valid(&W, in, m), "script: a reachable state violates the invariant used as the pre-state of the inductive step");
		for(int i = 0; i < N; i++) if(in[i]) VP_ASSERT(W.key[i] == key[i] && W.val[i] == val[i], "script: stored key/value differs from the reference");
		VP_OBSERVE(W.cap * 1000 + W.size * 10 + W.which + 100000 * op);
	}
	A(dtor)(&map);
	for(int i = 0; i < N; i++) VP_ASSERT(!in[i], "script: node not released by the destructor");
	VP_ASSERT(!tab_live[0] && !tab_live[1] && !tab_live[2], "script: table not released by the destructor");
#if VT
	VP_ASSERT(vp_live == 0, "script: values alive after destruction");
#endif
}
#endif
