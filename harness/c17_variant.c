/* C17 / C16 — frg::variant<tracked, tracked2> is a faithful holder of one of two alternatives or nothing.
 * Bounded history of K solver-chosen operations over two holder slots; reference model = (tag in {-1 empty, 0, 1}, value, moved-from).
 * variant::const_apply is not exercised: it cannot be instantiated (does not compile).
 *   -DK=<ops>
 *   If the empty <- empty assignment defect (FRG_ASSERT "illegal tag", proposed fix C17_1) is kept as a known finding instead of being fixed:
 *   -DEXCLUDE_EMPTY_ASSIGN removes exactly that input class from the main query, -DKNOWN_EMPTY_ASSIGN is the twin whose last operation is such
 *   an assignment and which must FAIL (props/C17.py: environment variable C17_VARIANT_KNOWN=1 switches both on). */
#define UNIT_H "c17_variant.h"
#include "c17_common.h"
#ifndef K
#define K 3
#endif
typedef struct S_struct_frg__variant var_t;
var_t H0, H1;
int alive[2], tag[2], mf[2]; int32_t val[2];
static var_t *hp(int s) { return s ? &H1 : &H0; }
#define STOR(s) ((void *)&hp(s)->f1)
#define NOPS 17
#define FULL(s) (alive[s] && tag[s] >= 0)

static void check_slot(int s) {
	if(!alive[s]) return;
	var_t *h = hp(s); void *p = STOR(s);
	VP_ASSERT(var_bool(h) == (tag[s] >= 0), "variant::operator bool differs from the reference state");
	VP_ASSERT((long)var_tag(h) == (long)tag[s], "variant::tag() differs from the reference alternative");
	VP_ASSERT(var_is_a(h) == (tag[s] == 0) && var_is_b(h) == (tag[s] == 1), "variant::is<X>() differs from the reference alternative");
	if(tag[s] == 0) {
		VP_ASSERT((void *)var_get_a(h) == p && (void *)var_cget_a(h) == p, "variant::get<tracked>() does not designate the object held inside the variant");
	} else if(tag[s] == 1) {
		VP_ASSERT((void *)var_get_b(h) == p && (void *)var_cget_b(h) == p, "variant::get<tracked2>() does not designate the object held inside the variant");
	}
	if(tag[s] >= 0) {
		VP_ASSERT((void *)var_apply_addr(h) == p, "variant::apply() does not pass the held object to the functor");
		VP_ASSERT(T_STATE(p) == (mf[s] ? VP_MOVED : VP_ALIVE), "variant: holds an alternative but the held object is not alive");
		if(!mf[s]) { VP_ASSERT(T_VAL(p) == val[s], "variant: held value differs from the reference value");
			VP_ASSERT((int32_t)var_apply_val(h) == val[s], "variant::apply() result differs from the reference value"); }
	} else
		VP_ASSERT(T_STATE(p) != VP_ALIVE && T_STATE(p) != VP_MOVED, "variant: empty but an object is still alive in its storage");
}
/* witness for each (destination alternative, source alternative) combination of an assignment */
#define COMBOS(what, dt, st) \
	VP_WITNESS(!((dt) == -1 && (st) == 0), what " empty <- A"); VP_WITNESS(!((dt) == -1 && (st) == 1), what " empty <- B"); \
	VP_WITNESS(!((dt) == 0 && (st) == -1), what " A <- empty"); VP_WITNESS(!((dt) == 0 && (st) == 0), what " A <- A"); VP_WITNESS(!((dt) == 0 && (st) == 1), what " A <- B"); \
	VP_WITNESS(!((dt) == 1 && (st) == -1), what " B <- empty"); VP_WITNESS(!((dt) == 1 && (st) == 0), what " B <- A"); VP_WITNESS(!((dt) == 1 && (st) == 1), what " B <- B")

void harness(void) {
	vp_region(&H0, sizeof H0); vp_region(&H1, sizeof H1);
	VP_ASSERT(var_tag_of(0) == 0 && var_tag_of(1) == 1, "variant::tag_of<X>() is the position of X");
	int nops = 0;
	for(int step = 0; step < K; step++) {
		int op, s; int32_t v;
		VP_INPUT(op); VP_INPUT(s); VP_INPUT(v);
		VP_NATIVE_ONLY(if(getenv("VP_RANDOM")) { op = (unsigned)op % NOPS; s = (unsigned)s & 1; })
		VP_ASSUME(op >= 0 && op < NOPS && s >= 0 && s <= 1);
		int o = 1 - s; var_t *d = hp(s), *src = hp(o), *r = d;
		int src_ok = alive[o] && !(tag[o] >= 0 && mf[o]), self_ok = alive[s] && !(tag[s] >= 0 && mf[s]);
		int dt = tag[s], st = tag[o];
		/* assignment of an empty variant to an empty variant */
		int empty_empty = ((op == 6 || op == 7) && alive[s] && src_ok && dt < 0 && st < 0) || ((op == 8 || op == 9 || op == 12) && alive[s] && dt < 0);
#ifdef KNOWN_EMPTY_ASSIGN
		if(step == K - 1) VP_ASSUME(empty_empty); else VP_PRE(!empty_empty);
#elif defined(EXCLUDE_EMPTY_ASSIGN)
		VP_PRE(!empty_empty);
#endif
		switch(op) {
		case 0: VP_PRE(!alive[s]); var_ctor_default(d); alive[s] = 1; tag[s] = -1; VP_WITNESS(0, "variant()"); break;
		case 1: VP_PRE(!alive[s]); var_ctor_a(d, v); alive[s] = 1; tag[s] = 0; val[s] = v; mf[s] = 0; VP_WITNESS(0, "variant(A)"); break;
		case 2: VP_PRE(!alive[s]); var_ctor_b(d, v); alive[s] = 1; tag[s] = 1; val[s] = v; mf[s] = 0; VP_WITNESS(0, "variant(B)"); break;
		case 3: VP_PRE(!alive[s]); var_ctor_a_lvalue(d, v); alive[s] = 1; tag[s] = 0; val[s] = v; mf[s] = 0; VP_WITNESS(0, "variant(A) from an lvalue"); break;
		case 4: VP_PRE(!alive[s] && src_ok); var_ctor_copy(d, src); alive[s] = 1; tag[s] = tag[o]; val[s] = val[o]; mf[s] = 0;
			VP_WITNESS(st != -1, "copy construction from empty"); VP_WITNESS(st != 0, "copy construction from A"); VP_WITNESS(st != 1, "copy construction from B"); break;
		case 5: VP_PRE(!alive[s] && src_ok); var_ctor_move(d, src); alive[s] = 1; tag[s] = tag[o]; val[s] = val[o]; mf[s] = 0; if(st >= 0) mf[o] = 1;
			VP_WITNESS(st != -1, "move construction from empty"); VP_WITNESS(st != 0, "move construction from A"); VP_WITNESS(st != 1, "move construction from B"); break;
		case 6: VP_PRE(alive[s] && src_ok); r = var_assign_copy(d, src); tag[s] = tag[o]; val[s] = val[o]; mf[s] = 0;
			COMBOS("copy assignment", dt, st); break;
		case 7: VP_PRE(alive[s] && src_ok); r = var_assign_move(d, src); tag[s] = tag[o]; val[s] = val[o]; mf[s] = 0; if(st >= 0) mf[o] = 1;
			COMBOS("move assignment", dt, st); break;
		case 8: VP_PRE(self_ok); r = var_assign_copy(d, d);
			VP_WITNESS(dt != 0, "self copy-assignment, A"); VP_WITNESS(dt != 1, "self copy-assignment, B"); break;
		case 9: VP_PRE(self_ok); r = var_assign_move(d, d);       /* the argument is taken by value: the value moves out and back in */
			VP_WITNESS(dt != 0, "self move-assignment, A"); VP_WITNESS(dt != 1, "self move-assignment, B"); break;
		case 10: VP_PRE(alive[s]); r = var_assign_a(d, v); tag[s] = 0; val[s] = v; mf[s] = 0;
			VP_WITNESS(dt != -1, "empty = A"); VP_WITNESS(dt != 0, "A = A"); VP_WITNESS(dt != 1, "B = A"); break;
		case 11: VP_PRE(alive[s]); r = var_assign_b(d, v); tag[s] = 1; val[s] = v; mf[s] = 0;
			VP_WITNESS(dt != -1, "empty = B"); VP_WITNESS(dt != 0, "A = B"); VP_WITNESS(dt != 1, "B = B"); break;
		case 12: VP_PRE(alive[s]); r = var_assign_empty(d); tag[s] = -1;
			VP_WITNESS(dt != 0, "A = empty variant"); VP_WITNESS(dt != 1, "B = empty variant"); break;
		case 13: VP_PRE(alive[s]); var_emplace_a(d, v); tag[s] = 0; val[s] = v; mf[s] = 0;
			VP_WITNESS(dt != -1, "emplace<A> into empty"); VP_WITNESS(dt != 0, "emplace<A> over A"); VP_WITNESS(dt != 1, "emplace<A> over B"); break;
		case 14: VP_PRE(alive[s]); var_emplace_b(d, v); tag[s] = 1; val[s] = v; mf[s] = 0;
			VP_WITNESS(dt != -1, "emplace<B> into empty"); VP_WITNESS(dt != 0, "emplace<B> over A"); VP_WITNESS(dt != 1, "emplace<B> over B"); break;
		case 15: VP_PRE(alive[s]); var_emplace_b_default(d); tag[s] = 1; val[s] = 0; mf[s] = 0; VP_WITNESS(0, "emplace<B>()"); break;
		case 16: VP_PRE(alive[s]); var_dtor(d); alive[s] = 0;
			VP_WITNESS(dt != -1, "destruction of empty"); VP_WITNESS(dt != 0, "destruction of A"); VP_WITNESS(dt != 1, "destruction of B"); break;
		default: VP_PRE(0);
		}
		VP_ASSERT(r == d, "variant::operator= does not return *this");
		check_slot(0); check_slot(1);
		VP_ASSERT(vp_live == FULL(0) + FULL(1), "lifetime: number of live element objects differs from the number of non-empty holders (leaked or missing object)");
		nops++;
		if(0) { skip: ; }
		VP_OBSERVE(alive[0] * 4 + tag[0] + 1 + 10 * (alive[1] * 4 + tag[1] + 1)); VP_OBSERVE(vp_live);
		VP_OBSERVE(FULL(0) ? T_VAL(STOR(0)) : -1); VP_OBSERVE(FULL(1) ? T_VAL(STOR(1)) : -1);
	}
	for(int s = 0; s < 2; s++) if(alive[s]) { var_dtor(hp(s)); alive[s] = 0; }
	vp_end();
	VP_WITNESS(nops < K, "K operations executed");
}
