/* C17 / C16 — frg::variant<int, tracked, pod>: trivial (int), non-trivial (tracked) and POD alternatives mixed, + empty.
 * Same bounded-history harness as c17_variant.c; reference model = (tag in {-1 empty, 0 int, 1 tracked, 2 pod}, value, moved-from).
 * Decides in particular that emplace / assignment of a trivial alternative over a held tracked runs ~tracked exactly once, and that a
 * tracked is constructed in raw storage when it replaces a trivial alternative.   -DK=<ops> */
#define UNIT_H "c17_variant2.h"
#include "c17_common.h"
#ifndef K
#define K 3
#endif
typedef struct S_struct_frg__variant var_t;
var_t H0, H1;
int alive[2], tag[2], mf[2]; int32_t val[2];
static var_t *hp(int s) { return s ? &H1 : &H0; }
#define STOR(s) ((void *)&hp(s)->f1)
#define NOPS 18
#define TRK(s) (alive[s] && tag[s] == 1)
#define PODB(p) (((const uint8_t *)(p))[4])

static void check_slot(int s) {
	if(!alive[s]) return;
	var_t *h = hp(s); void *p = STOR(s);
	VP_ASSERT(v2_bool(h) == (tag[s] >= 0), "variant::operator bool differs from the reference state");
	VP_ASSERT((long)v2_tag(h) == (long)tag[s], "variant::tag() differs from the reference alternative");
	VP_ASSERT((int)v2_is(h) == (tag[s] < 0 ? 0 : 1 << tag[s]), "variant::is<X>() differs from the reference alternative");
	if(tag[s] == 0) VP_ASSERT((void *)v2_get_int(h) == p && (void *)v2_cget_int(h) == p, "variant::get<int>() does not designate the object held inside the variant");
	if(tag[s] == 1) VP_ASSERT((void *)v2_get_trk(h) == p && (void *)v2_cget_trk(h) == p, "variant::get<tracked>() does not designate the object held inside the variant");
	if(tag[s] == 2) VP_ASSERT((void *)v2_get_pod(h) == p && (void *)v2_cget_pod(h) == p, "variant::get<pod>() does not designate the object held inside the variant");
	if(tag[s] >= 0) VP_ASSERT((void *)v2_apply_addr(h) == p, "variant::apply() does not pass the held object to the functor");
	if(tag[s] == 1) {
		VP_ASSERT(T_STATE(p) == (mf[s] ? VP_MOVED : VP_ALIVE), "variant: holds the non-trivial alternative but the held object is not alive");
		if(!mf[s]) VP_ASSERT(T_VAL(p) == val[s] && (int32_t)v2_apply_val(h) == val[s], "variant: held tracked value differs from the reference value");
	} else {
		VP_ASSERT(T_STATE(p) != VP_ALIVE && T_STATE(p) != VP_MOVED, "variant: empty or holding a trivial alternative, but a tracked object is still alive in its storage (destructor skipped)");
		if(tag[s] == 0) VP_ASSERT(*(const int32_t *)p == val[s] && (int32_t)v2_apply_val(h) == val[s], "variant: held int differs from the reference value");
		if(tag[s] == 2) VP_ASSERT(*(const int32_t *)p == val[s] && PODB(p) == 0x77 && (int32_t)v2_apply_val(h) == val[s], "variant: held pod differs from the reference value");
	}
}
#define W1(what, x) VP_WITNESS((x) != -1, what " empty"); VP_WITNESS((x) != 0, what " int"); VP_WITNESS((x) != 1, what " tracked"); VP_WITNESS((x) != 2, what " pod")
#define W2ROW(what, dname, dv, dt, st) VP_WITNESS(!((dt) == (dv) && (st) == -1), what " " dname " <- empty"); VP_WITNESS(!((dt) == (dv) && (st) == 0), what " " dname " <- int"); \
	VP_WITNESS(!((dt) == (dv) && (st) == 1), what " " dname " <- tracked"); VP_WITNESS(!((dt) == (dv) && (st) == 2), what " " dname " <- pod")
#define COMBOS(what, dt, st) W2ROW(what, "empty", -1, dt, st); W2ROW(what, "int", 0, dt, st); W2ROW(what, "tracked", 1, dt, st); W2ROW(what, "pod", 2, dt, st)
#define SET(s, t_, v_) do { tag[s] = (t_); val[s] = (v_); mf[s] = 0; } while(0)

void harness(void) {
	vp_region(&H0, sizeof H0); vp_region(&H1, sizeof H1);
	int nops = 0;
	for(int step = 0; step < K; step++) {
		int op, s; int32_t v;
		VP_INPUT(op); VP_INPUT(s); VP_INPUT(v);
		VP_NATIVE_ONLY(if(getenv("VP_RANDOM")) { op = (unsigned)op % NOPS; s = (unsigned)s & 1; })
		VP_ASSUME(op >= 0 && op < NOPS && s >= 0 && s <= 1);
		int o = 1 - s; var_t *d = hp(s), *src = hp(o), *r = d;
		int src_ok = alive[o] && !(tag[o] == 1 && mf[o]), self_ok = alive[s] && !(tag[s] == 1 && mf[s]);
		int dt = tag[s], st = tag[o];
		switch(op) {
		case 0: VP_PRE(!alive[s]); v2_ctor_default(d); alive[s] = 1; SET(s, -1, 0); VP_WITNESS(0, "variant()"); break;
		case 1: VP_PRE(!alive[s]); v2_ctor_int(d, v); alive[s] = 1; SET(s, 0, v); VP_WITNESS(0, "variant(int)"); break;
		case 2: VP_PRE(!alive[s]); v2_ctor_trk(d, v); alive[s] = 1; SET(s, 1, v); VP_WITNESS(0, "variant(tracked)"); break;
		case 3: VP_PRE(!alive[s]); v2_ctor_pod(d, v); alive[s] = 1; SET(s, 2, v); VP_WITNESS(0, "variant(pod)"); break;
		case 4: VP_PRE(!alive[s] && src_ok); v2_ctor_copy(d, src); alive[s] = 1; SET(s, tag[o], val[o]); W1("copy construction from", st); break;
		case 5: VP_PRE(!alive[s] && src_ok); v2_ctor_move(d, src); alive[s] = 1; SET(s, tag[o], val[o]); if(st == 1) mf[o] = 1; W1("move construction from", st); break;
		case 6: VP_PRE(alive[s] && src_ok); r = v2_assign_copy(d, src); SET(s, tag[o], val[o]); COMBOS("copy assignment", dt, st); break;
		case 7: VP_PRE(alive[s] && src_ok); r = v2_assign_move(d, src); SET(s, tag[o], val[o]); if(st == 1) mf[o] = 1; COMBOS("move assignment", dt, st); break;
		case 8: VP_PRE(self_ok); r = v2_assign_copy(d, d); W1("self copy-assignment,", dt); break;
		case 9: VP_PRE(self_ok); r = v2_assign_move(d, d); W1("self move-assignment,", dt); break;
		case 10: VP_PRE(alive[s]); r = v2_assign_int(d, v); SET(s, 0, v); W1("assignment of an int over", dt); break;
		case 11: VP_PRE(alive[s]); r = v2_assign_trk(d, v); SET(s, 1, v); W1("assignment of a tracked over", dt); break;
		case 12: VP_PRE(alive[s]); r = v2_assign_pod(d, v); SET(s, 2, v); W1("assignment of a pod over", dt); break;
		case 13: VP_PRE(alive[s]); r = v2_assign_empty(d); SET(s, -1, 0); W1("assignment of an empty variant over", dt); break;
		case 14: VP_PRE(alive[s]); v2_emplace_int(d, v); SET(s, 0, v); W1("emplace<int> over", dt); break;
		case 15: VP_PRE(alive[s]); v2_emplace_trk(d, v); SET(s, 1, v); W1("emplace<tracked> over", dt); break;
		case 16: VP_PRE(alive[s]); v2_emplace_pod(d, v); SET(s, 2, v); W1("emplace<pod> over", dt); break;
		case 17: VP_PRE(alive[s]); v2_dtor(d); alive[s] = 0; W1("destruction of", dt); break;
		default: VP_PRE(0);
		}
		VP_ASSERT(r == d, "variant::operator= does not return *this");
		check_slot(0); check_slot(1);
		VP_ASSERT(vp_live == TRK(0) + TRK(1), "lifetime: number of live tracked objects differs from the number of variants holding the tracked alternative (destructor skipped, or object leaked)");
		nops++;
		if(0) { skip: ; }
		VP_OBSERVE(alive[0] * 5 + tag[0] + 1 + 10 * (alive[1] * 5 + tag[1] + 1)); VP_OBSERVE(vp_live);
		VP_OBSERVE(alive[0] && tag[0] >= 0 ? *(const int32_t *)STOR(0) : -1); VP_OBSERVE(alive[1] && tag[1] >= 0 ? *(const int32_t *)STOR(1) : -1);
	}
	for(int s = 0; s < 2; s++) if(alive[s]) { v2_dtor(hp(s)); alive[s] = 0; }
	vp_end();
	VP_WITNESS(nops < K, "K operations executed");
}
