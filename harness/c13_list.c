/* C13 / C16 — frg::list<T, vp_allocator> (owning FIFO on top of intrusive_list) against a reference queue.
 *   -DC13_UNIT=<unit>  -DC13_TRK=0 int / 1 tracked   -DP=<concrete prefix of emplace_back operations>   -DK=<solver-chosen operations>   -DMAXN
 * Public API: list(alloc), list(), emplace_back(args...), empty(), front(), pop_front(), destructor.  After every operation the public
 * observers AND the chain of nodes (forward links, back links, payloads, one exact-size block per node) are compared with the reference.
 * The run ends with "destroy the list; vp_end()": no element alive, no node allocated (C16).
 * Every operation case carries its own continuation (no merging of different shapes, see c13_seq.c). */
#define VP_PANIC_VIOLATION
#include "vp.h"
#include <stdlib.h>
#include <string.h>
#define C13_STR(x) #x
#define C13_XSTR(x) C13_STR(x)
#define vp_ctor c13_unitdecl_vp_ctor
#define vp_ctor_default c13_unitdecl_vp_ctor_default
#define vp_copy c13_unitdecl_vp_copy
#define vp_move c13_unitdecl_vp_move
#define vp_assign_copy c13_unitdecl_vp_assign_copy
#define vp_assign_move c13_unitdecl_vp_assign_move
#define vp_dtor c13_unitdecl_vp_dtor
#define vp_alloc c13_unitdecl_vp_alloc
#define vp_free c13_unitdecl_vp_free
#define vp_dealloc c13_unitdecl_vp_dealloc
#include C13_XSTR(C13_UNIT.h)
#undef vp_ctor
#undef vp_ctor_default
#undef vp_copy
#undef vp_move
#undef vp_assign_copy
#undef vp_assign_move
#undef vp_dtor
#undef vp_alloc
#undef vp_free
#undef vp_dealloc
#ifndef K
#define K 3
#endif
#ifndef P
#define P 0
#endif
#ifndef MAXN
#define MAXN (P + K)
#endif
#ifndef VP_MAXBLK
#define VP_MAXBLK (P + K + 1)
#endif
/* native run WITHOUT AddressSanitizer (the generated-C side of the translator validation): malloc may hand a freed address out again and
 * vp_release() would then see the stale registry entry of the same address ("released twice"); ASan builds quarantine freed blocks */
#if defined(VP_NATIVE) && !defined(__SANITIZE_ADDRESS__)
#define VP_NO_REAL_FREE
#endif
#include "vp_track.h"

typedef struct S_struct_frg__list list_t;
#if C13_TRK
typedef struct S_struct_frg__list_tracked__vp_allocator___item item_t;
typedef struct S_struct_tracked elem_t;
#define HOOK(it) ((it)->f1)
#define VAL(p) ((int32_t)(p)->f0)
#define ELEM_OK(p) VP_ASSERT((p)->f1 == VP_ALIVE, "lifetime: an element the list exposes is not a live object")
#else
typedef struct S_struct_frg__list_int__vp_allocator___item item_t;
typedef uint32_t elem_t;
#define HOOK(it) ((it)->f2)
#define VAL(p) ((int32_t)*(p))
#define ELEM_OK(p) ((void)0)
#endif
list_t Lq;
int32_t ref[MAXN + 1]; int len, nops, last_op = -1;
#define VP_PRE(c) VP_PRE_OR(c, goto skip)

static void check_all(void) {
	VP_ASSERT((l_empty(&Lq) != 0) == (len == 0), "empty() is not (no elements)");
	if(len > 0) { elem_t *f = l_front(&Lq); ELEM_OK(f); VP_ASSERT(VAL(f) == ref[0], "front() differs from the oldest element of the reference");
		VP_ASSERT((void *)f == (void *)Lq.f1.f0, "front() does not designate the object inside the first node"); }
	/* the chain itself: forwards and via the back links */
	item_t *it = Lq.f1.f0, *prev = 0;
	for(int j = 0; j < MAXN; j++) if(j < len) {
		VP_ASSERT(it != 0, "chain ends before the reference sequence does");
		VP_ASSERT(HOOK(it).f1 == prev && HOOK(it).f2 == 1, "back link / in_list of a node is wrong");
		ELEM_OK((elem_t *)&it->f0);
		VP_ASSERT(VAL((elem_t *)&it->f0) == ref[j], "forward iteration order differs from the reference sequence");
		prev = it; it = HOOK(it).f0;
	}
	VP_ASSERT(it == 0 && Lq.f1.f1 == prev, "chain is longer than the reference sequence, or _back is not the last node");
	VP_ASSERT(vp_outstanding == len, "allocator: the list does not hold exactly one block per element");
#if C13_TRK
	VP_ASSERT(vp_live == len, "lifetime: number of live element objects differs from the number of elements");
#endif
	VP_OBSERVE(len);
}
enum { Q_EMPLACE, Q_EMPLACE_COPY, Q_POP, Q_SET_FRONT, Q_REBUILD, Q_NOPS };
#ifdef __CPROVER__
/* --slice-formula drops assignments no assertion depends on — including the input log the runner reads counterexamples from.
 * This (always reachable) witness depends on every logged input and so keeps the log in the formula and in every trace. */
static void c13_keep_inputs(void) { uint64_t h = 0; for(int i = 0; i < vp_in_n; i++) h += vp_in_log[i]; VP_WITNESS(h != 0x5EEDu, "input log kept in the sliced formula"); }
#else
static void c13_keep_inputs(void) { }
#endif
static void finish(void) {
	c13_keep_inputs();
	VP_WITNESS(nops < P + K, "prefix and K solver-chosen operations executed");
	/* non-vacuity per operation: each operation is the last one of some complete history */
	VP_WITNESS(last_op != Q_EMPLACE, "a history ending in emplace_back(args) runs to the end");
	VP_WITNESS(last_op != Q_EMPLACE_COPY, "a history ending in emplace_back(const T&) runs to the end");
	VP_WITNESS(last_op != Q_POP, "a history ending in pop_front runs to the end");
	VP_WITNESS(last_op != Q_SET_FRONT, "a history ending in a write through front() runs to the end");
	VP_WITNESS(last_op != Q_REBUILD, "a history ending in destroy + default-construct runs to the end");
	l_dtor(&Lq);
	vp_end();
#ifdef __CPROVER__
	__CPROVER_assume(0);      /* this history is complete: drop its state instead of merging it with the other cases at the function exits */
#endif
}
#define DONE do { check_all(); nops++; run(depth + 1); return; } while(0)
static void run(int depth) {
	if(depth == P + K) { finish(); return; }
	int op; int32_t x; VP_INPUT(op); VP_INPUT(x);
	VP_NATIVE_ONLY(if(getenv("VP_RANDOM")) op = (unsigned)op % Q_NOPS;)
	if(depth < P) op = Q_EMPLACE;
	VP_ASSUME(op >= 0 && op < Q_NOPS);
	if(depth == P + K - 1) last_op = op;
	switch(op) {
	case Q_EMPLACE: VP_PRE(len < MAXN); l_emplace_back(&Lq, (uint32_t)x); ref[len++] = x; DONE;
	case Q_EMPLACE_COPY: VP_PRE(len < MAXN); l_emplace_back_copy(&Lq, (uint32_t)x); ref[len++] = x; DONE;
	case Q_POP: VP_PRE(len > 0); l_pop_front(&Lq); for(int j = 0; j < MAXN; j++) ref[j] = ref[j + 1]; len--; DONE;
	case Q_SET_FRONT: VP_PRE(len > 0); l_set_front(&Lq, (uint32_t)x); ref[0] = x; DONE;
	case Q_REBUILD: l_dtor(&Lq);                       /* destroy (possibly non-empty) and start over with the default constructor */
		VP_ASSERT(vp_outstanding == 0, "allocator: nodes still allocated after the list was destroyed (leak)");
		VP_ASSERT(vp_live == 0, "lifetime: elements still alive after the list was destroyed");
		l_ctor_default(&Lq); len = 0; DONE;
	default: VP_PRE(0);
	}
	skip: run(depth + 1);
}
void harness(void) {
	l_ctor(&Lq);
	check_all();
	run(0);
}
