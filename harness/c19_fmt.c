/* C19 — fmt(): the {}-spec grammar  ([0-9]+)?(:0?[0-9]*[bcdioXx]?)?  (formatting.hpp, the only documentation) and
 * "malformed or out-of-range specs are echoed unchanged", "{{" is a literal brace, an unclosed spec is echoed as is.
 *
 * The format string is built from a TEMPLATE (one per query, props/C19.py): 'D' = a solver-chosen digit, '?' = a solver-chosen
 * byte, every other character stands for itself — the positions of { } : are concrete, so symbolic execution follows one parse.
 * The oracle fmt_ref() is an independent interpreter of the documented grammar over the ACTUAL bytes (it does not know the template).
 * Arguments: (int a, unsigned long b, char c).  -DFV: 0 = solver-chosen values (|a|, b < DMAX when a decimal rendering occurs, -DDEC),
 * k > 0 = concrete boundary values (constant-fold the digit loops). */
#define VP_PANIC_VIOLATION
#include "vp.h"
#include "c19_fmt.h"
#include "c19_ref.h"
#ifndef TEMPLATE
#define TEMPLATE "a{D:0DDx}b{}c"
#endif
#ifndef FV
#define FV 0
#endif
#ifndef NARGS
#define NARGS 3
#endif
#define FMAX 48

static char F[FMAX]; static int flen;
static int32_t A; static uint64_t B; static int8_t Cc;

/* text output (literals, echoed specs) accumulates in the current text piece */
static int text_open;
static void emit_text(char c) {
	if(!text_open) { if(npiece < NPIECE) piece_clear(&PC[npiece]); npiece++; text_open = 1; }
	if(npiece > NPIECE) return;
	struct piece *p = &PC[npiece - 1];
	if(p->nbody < 64) p->body[p->nbody] = c;
	p->nbody++;
}
static void emit_arg(int idx, int zero, int width, int conv) {
	/* conv: 0 none, else the letter */
	if(conv == 'c') {      /* the character itself (width with c: undocumented, excluded by the templates) */
		emit_text(idx == 0 ? (char)A : idx == 1 ? (char)B : (char)Cc);
		return;
	}
	int radix = conv == 'b' ? 2 : conv == 'o' ? 8 : (conv == 'x' || conv == 'X') ? 16 : 10;
	int neg = 0; uint64_t mag;
	if(idx == 0) { neg = A < 0; mag = neg ? (uint64_t)(0 - (uint32_t)A) : (uint64_t)A; }
	else if(idx == 1) mag = B;
	else { neg = Cc < 0; mag = neg ? (uint64_t)(uint8_t)(0 - (uint8_t)Cc) : (uint64_t)Cc; }
	text_open = 0;
	if(npiece >= NPIECE) { npiece++; return; }
	ref_number(&PC[npiece++], mag, FV == 0, radix, conv == 'X', neg ? '-' : 0, 0, 0, width, 0, zero, 1, 0);
}
static int is_digit(char c) { return c >= '0' && c <= '9'; }
/* the documented grammar, matched left to right:  ([0-9]+)?(:0?[0-9]*[bcdioXx]?)?  — returns 0 if spec[0..n) is not in the language */
static int spec_parse(const char *sp, int n, int *has_pos, int *pos, int *zero, int *width, int *conv) {
	int i = 0;
	*has_pos = 0; *pos = 0; *zero = 0; *width = 0; *conv = 0;
	while(i < n && is_digit(sp[i])) { *has_pos = 1; *pos = *pos * 10 + (sp[i] - '0'); i++; }
	if(i == n) return 1;
	if(sp[i] != ':') return 0;
	i++;
	if(i < n && sp[i] == '0') { *zero = 1; i++; }
	while(i < n && is_digit(sp[i])) { *width = *width * 10 + (sp[i] - '0'); i++; }
	if(i < n && (sp[i] == 'b' || sp[i] == 'c' || sp[i] == 'd' || sp[i] == 'i' || sp[i] == 'o' || sp[i] == 'X' || sp[i] == 'x')) { *conv = sp[i]; i++; }
	return i == n;
}
static void fmt_ref(void) {
	int i = 0, argctr = 0;
	npiece = 0; text_open = 0;
	while(i < flen) {
		char c = F[i];
		if(c != '{') { emit_text(c); i++; continue; }
		if(i + 1 < flen && F[i + 1] == '{') { emit_text('{'); i += 2; continue; }        /* "{{" is a literal brace */
		int j = i + 1;
		while(j < flen && F[j] != '}') j++;
		if(j == flen) { for(int k = i; k < flen; k++) emit_text(F[k]); break; }          /* unclosed spec: echoed as is */
		int has_pos, pos, zero, width, conv;
		int ok = spec_parse(&F[i + 1], j - i - 1, &has_pos, &pos, &zero, &width, &conv);
		int idx = has_pos ? pos : argctr;      /* a spec without a position takes the next argument (every closed spec counts) */
		argctr++;
		if(ok && idx < NARGS) emit_arg(idx, zero, width, conv);
		else for(int k = i; k <= j; k++) emit_text(F[k]);                                 /* malformed or out of range: echoed unchanged */
		i = j + 1;
	}
}

void harness_fmt(void) {
	static const char tpl[] = TEMPLATE;
	flen = (int)sizeof tpl - 1;
	for(int i = 0; i < flen; i++) {
		char c; VP_INPUT(c);
		if(tpl[i] == 'D') { VP_NATIVE_ONLY(if(getenv("VP_RANDOM")) c = (char)('0' + (uint8_t)c % 10);) VP_ASSUME(c >= '0' && c <= '9'); F[i] = c; }
		else if(tpl[i] == '?') { VP_NATIVE_ONLY(if(getenv("VP_RANDOM") && (c == '{' || c == '}')) c = 'q';) VP_ASSUME(c != '{' && c != '}'); F[i] = c; }   /* a stray byte that does not change the brace structure */
		else F[i] = tpl[i];
	}
	VP_INPUT(A); VP_INPUT(B); VP_INPUT(Cc);
#if FV == 0
#ifdef DEC
	VP_NATIVE_ONLY(if(getenv("VP_RANDOM")) { A = A % DMAX; B = B % DMAX; })
	VP_ASSUME(A > -DMAX && A < DMAX && B < DMAX);
#endif
#else
	{ static const int32_t av[] = { 0, 1, -1, INT32_MIN, INT32_MAX, 10, -10 }; static const uint64_t bv[] = { 0, 1, ~0ull, 1ull << 63, (1ull << 63) - 1, 10, 9 };
	  static const int8_t cv[] = { 0, 1, -1, -128, 127, 'a', 10 };
	  VP_NATIVE_ONLY(if(getenv("VP_RANDOM")) { A = av[FV - 1]; B = bv[FV - 1]; Cc = cv[FV - 1]; })
	  VP_ASSUME(A == av[FV - 1] && B == bv[FV - 1] && Cc == cv[FV - 1]); A = av[FV - 1]; B = bv[FV - 1]; Cc = cv[FV - 1]; }
#endif
	fmt_ref();
	VP_ASSERT(npiece <= NPIECE, "harness: template within the piece bound");
	VP_ASSERT(ref_finish() < 256, "harness: bounds keep every output shorter than 256 bytes");
	nput = 0;
	int n = NARGS ? (int)c19_fmt((uint8_t *)F, (uint64_t)flen, (uint32_t)A, B, (uint8_t)Cc) : (int)c19_fmt0((uint8_t *)F, (uint64_t)flen);
	CHECK_LENGTH(n, "fmt: number of bytes produced equals the documented rendering");
	VP_WITNESS(0, "format rendered and compared");
	OBSERVE_OUT();
}
