/* C12 — ticket_spinlock / simple_spinlock under all interleavings of NT threads doing PAIRS lock/unlock pairs.
 *  -DLOCK_TICKET or -DLOCK_SIMPLE, -DNT=2|3|4, -DPAIRS=1|2, -DHB (NT=2 only: happens-before monitor over the memory orders in the IR)
 * Interleavings: CBMC's partial-order encoding over the translated atomic operations (sequential consistency).
 * Memory orders: vector-clock monitor fed by the IR2C_EVENT_* hooks, which carry the order found in the LLVM IR.
 * Spin loops are unwound SPIN times; a thread that would spin longer is cut by assumption ("blocked"); their unwinding
 * assertions are therefore expected to fail and are ignored by the runner (only for the lock() loops). */
#include <stdint.h>
#ifndef VP_NATIVE
__CPROVER_thread_local int tid;
#else
int tid;
#endif
static int is_acq(const char *o) { return o[0] == 'a' || o[0] == 's'; }                                  /* acquire, acq_rel, seq_cst */
static int is_rel(const char *o) { return o[0] == 'r' || o[0] == 's' || (o[0] == 'a' && o[3] == '_'); }  /* release, acq_rel, seq_cst */
/* compile with -DIR2C_EVENTS: the generated code then calls ir2c_event_* (defined below) at every atomic access */
#define VP_PANIC_VIOLATION
#include "vp.h"
#include "c12.h"

#ifdef LITMUS
struct { uint32_t f0; uint32_t f1; } L;    /* f0 = the flag of the message-passing litmus test */
#define LOCK(l) ((void)0)
#define UNLOCK(l) ((void)0)
#define LOC0 ((const void *)&L.f0)
#define LOC1 ((const void *)0)
#elif defined(LOCK_TICKET)
struct S_struct_frg__ticket_spinlock L;
#define LOCK(l) t_lock(l)
#define UNLOCK(l) t_unlock(l)
#define LOC0 ((const void *)&L.f0)   /* next_ticket */
#define LOC1 ((const void *)&L.f1)   /* serving_ticket */
#else
struct S_struct_frg__simple_spinlock L;
#define LOCK(l) s_lock(l)
#define UNLOCK(l) s_unlock(l)
#define LOC0 ((const void *)&L.f0)
#define LOC1 ((const void *)0)
#endif

/* ---- happens-before monitor, two threads, scalar state selected by explicit tid tests (DESIGN 3.4) */
unsigned c00, c01, c10, c11;              /* cXY: thread X's knowledge of thread Y's clock */
unsigned a0, a1; int a_valid;             /* clock published on location 0 by the head of its release sequence */
unsigned b0, b1; int b_valid;             /* same for location 1 */
unsigned dw_clk; int dw_tid = -1;         /* last plain access to the protected datum */
unsigned tk0, tk1, tk2, tk3;                   /* ticket taken by each thread (ticket lock) */
static void join(unsigned x0, unsigned x1) { if(tid == 0) { if(x0 > c00) c00 = x0; if(x1 > c01) c01 = x1; } else { if(x0 > c10) c10 = x0; if(x1 > c11) c11 = x1; } }
static void publish(int loc) {
	unsigned m0, m1;
	if(tid == 0) { c00++; m0 = c00; m1 = c01; } else { c11++; m0 = c10; m1 = c11; }
	if(loc == 0) { a0 = m0; a1 = m1; a_valid = 1; } else { b0 = m0; b1 = m1; b_valid = 1; }
}
static int locof(const void *p) { return p == LOC0 ? 0 : (LOC1 && p == LOC1) ? 1 : -1; }
void ir2c_event_fence(const char *o) { (void)o; }
void ir2c_event_stored(const void *p, const char *o) { (void)p; (void)o; }
void ir2c_event_load(const void *p, const char *o) {
#ifdef HB
	int l = locof(p); if(l < 0) return;
	if(is_acq(o)) { if(l == 0 && a_valid) join(a0, a1); if(l == 1 && b_valid) join(b0, b1); }
#endif
}
void ir2c_event_store(const void *p, const char *o) {
#ifdef HB
	int l = locof(p); if(l < 0) return;
	if(is_rel(o)) publish(l); else { if(l == 0) a_valid = 0; else b_valid = 0; }   /* a relaxed store breaks the release sequence */
#endif
}
void ir2c_event_rmw(const void *p, const char *o) {
	int l = locof(p);
#ifdef LOCK_TICKET
	if(l == 0) { unsigned t = *(const uint32_t *)p; if(tid == 0) tk0 = t; else if(tid == 1) tk1 = t; else if(tid == 2) tk2 = t; else tk3 = t; }   /* old value = my ticket */
#endif
#ifdef HB
	if(l < 0) return;
	if(is_acq(o)) { if(l == 0 && a_valid) join(a0, a1); if(l == 1 && b_valid) join(b0, b1); }
	if(is_rel(o)) publish(l);       /* a relaxed RMW continues the release sequence: published clock stays */
#endif
}

int in_cs, grants, data, done_cnt;
#ifdef LITMUS
/* message passing: T1 writes data then sets the flag; T0 reads the flag and, if set, reads data.
 * LITMUS=0: release/acquire -> must verify; 1: relaxed store -> monitor must report; 2: relaxed load -> monitor must report */
static void plain_access(void) {
	__CPROVER_atomic_begin();
	if(dw_tid >= 0 && dw_tid != tid) VP_ASSERT((tid == 0 ? c01 : c10) >= dw_clk, "litmus: plain accesses not ordered by happens-before");
	if(tid == 0) { c00++; dw_clk = c00; } else { c11++; dw_clk = c11; }
	dw_tid = tid; data++;
	__CPROVER_atomic_end();
}
static void lit_writer(void) { tid = 1; __CPROVER_atomic_begin(); c11 = 1; __CPROVER_atomic_end(); plain_access(); if(LITMUS == 1) lit_store_rlx(&L.f0, 1); else lit_store_rel(&L.f0, 1); }
void harness_litmus(void) {
	L.f0 = 0;
__CPROVER_ASYNC_1: lit_writer();
	tid = 0; __CPROVER_atomic_begin(); c00 = 1; __CPROVER_atomic_end();
	uint32_t f = LITMUS == 2 ? lit_load_rlx(&L.f0) : lit_load_acq(&L.f0);
	if(f == 1) { plain_access(); VP_WITNESS(0, "reader saw the flag"); }
}
#else
static void critical_section(void) {
	__CPROVER_atomic_begin();
	VP_ASSERT(in_cs == 0, "mutual exclusion: two threads inside the critical section");
	in_cs = 1;
#ifdef LOCK_TICKET
	{ unsigned my = tid == 0 ? tk0 : tid == 1 ? tk1 : tid == 2 ? tk2 : tk3;
	  VP_ASSERT(my == (unsigned)grants, "ticket lock grants in ticket order (FIFO)");
	  VP_ASSERT(L.f1 == my, "ticket lock: the thread inside holds the ticket being served"); }
#else
	VP_ASSERT(L.f0 == 1, "simple lock: lock word set while a thread is inside");
#endif
	grants++;
#ifdef HB
	if(dw_tid >= 0 && dw_tid != tid)
		VP_ASSERT((tid == 0 ? c01 : c10) >= dw_clk, "acquire/release pairing: the previous holder's critical section does not happen-before this one (data race on protected data)");
	if(tid == 0) { c00++; dw_clk = c00; } else { c11++; dw_clk = c11; }
	dw_tid = tid;
#endif
	data++;
	__CPROVER_atomic_end();
	__CPROVER_atomic_begin();
	in_cs = 0;
	__CPROVER_atomic_end();
}
static void worker(int id) {
	tid = id;
#ifdef HB
	__CPROVER_atomic_begin(); if(id == 0) c00 = 1; else c11 = 1; __CPROVER_atomic_end();
#endif
	for(int k = 0; k < PAIRS; k++) { LOCK(&L); critical_section(); UNLOCK(&L); }
	__CPROVER_atomic_begin(); done_cnt++; __CPROVER_atomic_end();
}
void harness(void) {
#ifdef LOCK_TICKET
	t_init(&L);
#else
	s_init(&L);
#endif
#ifndef VP_NATIVE
__CPROVER_ASYNC_1: worker(1);
#if NT >= 3
__CPROVER_ASYNC_2: worker(2);
#endif
#if NT >= 4
__CPROVER_ASYNC_3: worker(3);
#endif
#endif
	worker(0);
	__CPROVER_atomic_begin();
	if(done_cnt == NT) {
		VP_ASSERT(grants == NT * PAIRS && data == NT * PAIRS, "every lock() was granted exactly once");
#ifdef LOCK_TICKET
		VP_ASSERT(L.f0 == NT * PAIRS && L.f1 == NT * PAIRS, "ticket lock: after all releases serving == next (every release handed the lock over exactly once)");
#else
		VP_ASSERT(L.f0 == 0, "simple lock: free after the last release");
#endif
		VP_WITNESS(0, "all threads completed all lock/unlock pairs");
	}
	__CPROVER_atomic_end();
}

/* sequential behaviour incl. is_locked() */
void harness_seq(void) {
#ifdef LOCK_TICKET
	t_init(&L);
	VP_ASSERT(!t_is_locked(&L), "fresh lock is unlocked");
	for(int k = 0; k < 3; k++) { t_lock(&L); VP_ASSERT(t_is_locked(&L), "is_locked() after lock()"); t_unlock(&L); VP_ASSERT(!t_is_locked(&L), "!is_locked() after unlock()"); }
#else
	s_init(&L);
	VP_ASSERT(!s_is_locked(&L), "fresh lock is unlocked");
	for(int k = 0; k < 3; k++) { s_lock(&L); VP_ASSERT(s_is_locked(&L), "is_locked() after lock()"); s_unlock(&L); VP_ASSERT(!s_is_locked(&L), "!is_locked() after unlock()"); }
#endif
	VP_WITNESS(0, "sequential lock/unlock");
}
#endif
void vp_mx_lock(uint32_t id) {} void vp_mx_unlock(uint32_t id) {} void vp_mx_lock_shared(uint32_t id) {} void vp_mx_unlock_shared(uint32_t id) {}
