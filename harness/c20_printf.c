/* C20 — frg::printf_format / frg::pop_arg on arbitrary format strings.
 *
 * What is asserted (nothing more than the property states):
 *   - every read of the format string stays inside its exact-size buffer (CBMC pointer checks; ASan in the replay),
 *   - no variadic argument beyond those the directives DECLARE is consumed: the va_list is built by hand so that every
 *     va_arg reads the next 8-byte slot of `slots`; the number of slots consumed so far is compared with declared(fmt)
 *     at every hook (sink, conversion callback, assertion hook, end),
 *   - no undefined behaviour (ir2c --ub-checks: "UB: ..." assertions), termination (unwinding assertions),
 *   - stopping through the library's assertion hook is admissible (VP_STOP).
 * The conversion callback only consumes the declared argument (wrap/c20_printf.cpp); formatting is C19's subject.
 */
#include "vp.h"
#include "c20_printf.h"
#include "c20_cases.h"
#ifndef VP_NATIVE
void *malloc(__CPROVER_size_t);
#endif

#ifndef L
#define L 3
#endif
#ifndef NSLOT
#define NSLOT (9 + L)
#endif
#ifndef LENIENT      /* 0: the agent refuses unknown conversion characters (printf_format returns), 1: it accepts them, consuming nothing */
#define LENIENT 0
#endif

struct S_struct_frg__va_struct VS;     /* harness-owned: overflow_arg_area is visible at every hook */
uint8_t *c20_fmt; uint64_t c20_fmt_size;  /* exact-size format buffer */
uint64_t *c20_slots;                    /* exact-size array of variadic slots */
int c20_declared, c20_judge;            /* declared(fmt); c20_judge (concrete) = 0: not judged in this entry */
int c20_nconv, c20_nout, c20_stop;

#ifdef VP_NATIVE
#define C20_USED() ((uint64_t)((uint8_t *)VS.f0.e[0].f2 - (uint8_t *)c20_slots) / 8)
#else      /* offset inside the slot object: also defined when the library has moved the pointer past the array */
#define C20_USED() ((uint64_t)__CPROVER_POINTER_OFFSET(VS.f0.e[0].f2) / 8)
#endif
static void c20_check_slots(void) {
	uint64_t used = C20_USED();
	if(c20_judge)             /* concrete: no path split */
		VP_ASSERT(used <= (uint64_t)c20_declared, "printf consumed a variadic argument beyond those the directives declare");
}
/* VP_PANIC_STOP of vp.h, plus the slot check at the moment of the stop */
int vp_stopped;
void frg_panic(uint8_t *m) { (void)m; c20_check_slots(); VP_WITNESS(0, "stop through the assertion hook"); vp_stopped = 1; VP_STOP(); }
void ir2c_trap_hook(void) { c20_check_slots(); vp_stopped = 1; VP_STOP(); }
void vp_out(uint8_t c) { (void)c; c20_nout++; c20_check_slots(); }
/* a run of literal text is handed to the sink as (pointer, length): the sink will read it, so it must lie inside the format buffer.
 * After a violation the path is abandoned (a parser that has left its buffer wanders through unconstrained memory: the single-path
 * exploration of that is huge and adds nothing). */
void vp_text(uint8_t *p, uint64_t n) {
	c20_nout++; c20_check_slots();
#ifdef VP_NATIVE
	int inside = (uintptr_t)p >= (uintptr_t)c20_fmt && n < c20_fmt_size && (uintptr_t)p - (uintptr_t)c20_fmt < c20_fmt_size - n;
#else
	int inside = __CPROVER_same_object(p, c20_fmt) && n < c20_fmt_size && (uint64_t)__CPROVER_POINTER_OFFSET(p) < c20_fmt_size - n;
#endif
	/* [p, p+n] inside: the run itself (read by the sink) and the byte after it (printf_format reads it next: the '%' or NUL that ended the run) */
	if(!inside) { VP_ASSERT(0, "literal text handed to the sink, or the byte that ends it, lies outside the format buffer"); VP_STOP(); }
	VP_NATIVE_ONLY(VP_OBSERVE(p - c20_fmt)); VP_OBSERVE(n);
}
void vp_conv_unknown(uint8_t t) {      /* lenient agent only */
	c20_check_slots();
	/* The format string ends at its first NUL.  A NUL handed out as the conversion character means printf_format has consumed the
	 * terminator as part of a directive; the lenient agent accepts it, so the parser steps over it and goes on reading behind the end
	 * of the string (outside the buffer when that NUL is its last byte).  The path is abandoned here: what follows is a walk
	 * through unconstrained memory, which single-path exploration cannot finish. */
	if(t == 0) { VP_ASSERT(0, "printf_format consumed the terminating NUL as a conversion character and continues reading behind the end of the format string"); VP_STOP(); }
	VP_OBSERVE(t);
}
void vp_conv(uint8_t t, uint32_t szmod, uint64_t v) {
	c20_nconv++; c20_check_slots();
	VP_OBSERVE(t); VP_OBSERVE(szmod); VP_OBSERVE(v);
	VP_WITNESS(0, "a conversion was dispatched and consumed its argument");
}

/* declared(fmt): how many variadic arguments the directives of fmt declare.  Independent, BRANCH-FREE scanner of the
 * directive grammar  %[n$ | -+ #0']*[digits|*][.[digits|*]][l|ll|h|hh|z|L|t|j]conv  (branch-free because in single-path
 * mode every branch here would multiply the number of paths of the code under test).
 *   pure sequential format: number of `*` and argument-consuming conversions (c p s d i o x X u: the stub agent's set);
 *   pure positional format: the largest n$;
 *   a format MIXING both styles (undefined in POSIX) is judged leniently: largest n$ + number of sequential consumptions.
 * `0$` is not a position (the library treats the directive as sequential).  Scanning stops at the NUL, or at a conversion
 * character the agent refuses (printf_format returns there). */
enum { T_, P_, F_, W_, WD_, D_, PS_, PD_, S_, SL_, SH_, C_, END_ };
#define UPD(var, cond, val) var = (cond) ? (val) : (var)
static int c20_scan(const uint8_t *f, int n) {   /* f[n] == 0 */
	int st = T_, skip = 0, dirpos = 0, maxpos = 0, count = 0;
	for(int i = 0; i <= n; i++) {
		uint8_t c = f[i], nx = i < n ? f[i + 1] : 0;
		int a = !skip && st != END_; skip = 0;
		int isd = c >= '0' && c <= '9';
		UPD(st, a && c == 0, END_); a = a && c != 0;
		int t = a && st == T_; UPD(st, t && c == '%', P_); a = a && !t;
		int p = a && st == P_, pp = p && c == '%'; UPD(st, pp, T_); UPD(st, p && !pp, F_); UPD(dirpos, p, 0); a = a && !pp;
		int f_ = a && st == F_, fpos = f_ && isd && nx == '$';
		UPD(maxpos, fpos && c - '0' > maxpos, c - '0'); UPD(dirpos, fpos, c != '0'); skip = fpos;
		int ffl = f_ && !fpos && (c == '-' || c == '+' || c == ' ' || c == '#' || c == '0' || c == '\'');
		UPD(st, f_ && !fpos && !ffl, W_); a = a && !(fpos || ffl);
		int w = a && st == W_, wst = w && c == '*', wd = w && isd; count += wst && !dirpos;
		UPD(st, w, wd ? WD_ : D_); a = a && !(wst || wd);
		int wdd = a && st == WD_; UPD(st, wdd && !isd, D_); a = a && !(wdd && isd);
		int d = a && st == D_, dd = d && c == '.'; UPD(st, d, dd ? PS_ : S_); a = a && !dd;
		int ps = a && st == PS_, pst = ps && c == '*', psd = ps && isd; count += pst && !dirpos;
		UPD(st, ps, psd ? PD_ : S_); a = a && !(pst || psd);
		int pd = a && st == PD_; UPD(st, pd && !isd, S_); a = a && !(pd && isd);
		int s = a && st == S_, sl = s && c == 'l', sh = s && c == 'h', s1 = s && (c == 'z' || c == 'L' || c == 't' || c == 'j');
		UPD(st, s, sl ? SL_ : sh ? SH_ : C_); a = a && !(sl || sh || s1);
		int q = a && st == SL_, ql = q && c == 'l'; UPD(st, q, C_); a = a && !ql;
		q = a && st == SH_; int qh = q && c == 'h'; UPD(st, q, C_); a = a && !qh;
		int cv = a && st == C_;
		int known = c == 'c' || c == 'p' || c == 's' || c == 'd' || c == 'i' || c == 'o' || c == 'x' || c == 'X' || c == 'u';
		count += cv && known && !dirpos; UPD(st, cv, (known || LENIENT) ? T_ : END_);   /* lenient agent: an unknown conversion consumes nothing, parsing goes on */
	}
	return maxpos + count;
}

static void c20_setup(int len, int nslot) {
	c20_fmt = (uint8_t *)malloc(len + 1); c20_fmt_size = (uint64_t)len + 1;
	c20_slots = (uint64_t *)malloc(8 * nslot);
	for(int i = 0; i < nslot; i++) VP_INPUT(c20_slots[i]);
	VS.f0.e[0].f0 = 48; VS.f0.e[0].f1 = 304;      /* gp_offset, fp_offset: register save areas exhausted */
	VS.f0.e[0].f2 = (uint8_t *)c20_slots;          /* overflow_arg_area: every va_arg takes the next slot */
	VS.f0.e[0].f3 = 0;                             /* reg_save_area: never used */
	VS.f1 = (struct S_union_frg__arg *)malloc(9 * sizeof(struct S_union_frg__arg));   /* positions 1$..9$ */
	VS.f2 = 0;
}
static void c20_run(void) {
	int r = LENIENT ? (int)c20_printf_lenient(c20_fmt, &VS) : (int)c20_printf(c20_fmt, &VS);
	c20_check_slots();
	VP_OBSERVE(r); VP_OBSERVE(c20_nout); VP_OBSERVE(c20_nconv);
	VP_OBSERVE(C20_USED());
	VP_WITNESS(r != 0, "printf_format completed");
	if(!LENIENT) VP_WITNESS(r == 0, "printf_format returned the agent's error");
}

/* byte classes (for -DC0=k: constrain byte 0 to one class) */
static int c20_class(uint8_t c) {
	return c == 0 ? 0 : c == '%' ? 1 : (c >= '1' && c <= '9') ? 2 : (c == '0' || c == '-' || c == '+' || c == ' ' || c == '#' || c == '\'') ? 3
	     : (c == '*' || c == '.' || c == '$') ? 4 : (c == 'l' || c == 'h' || c == 'z' || c == 'L' || c == 't' || c == 'j') ? 5
	     : (c == 'c' || c == 'p' || c == 's' || c == 'd' || c == 'i' || c == 'o' || c == 'x' || c == 'X' || c == 'u') ? 6 : 7;
}

/* (1) every byte string of length <= L (NUL-terminated at L; shorter strings have an earlier NUL) */
void harness_bytes(void) {
	c20_setup(L, NSLOT);
	for(int i = 0; i < L; i++) VP_INPUT(c20_fmt[i]);
	c20_fmt[L] = 0;
#ifdef C0      /* split of one length across queries: 1: byte 0 is '%' (concrete), 8: byte 0 is any byte except '%' and NUL; else: class C0 */
	if(C0 == 1) c20_fmt[0] = '%'; else if(C0 == 8) VP_ASSUME(c20_fmt[0] != '%' && c20_fmt[0] != 0); else VP_ASSUME(c20_class(c20_fmt[0]) == C0);
#endif
	c20_declared = c20_scan(c20_fmt, L); c20_judge = 1;
	c20_run();
}

/* path split: returns v as a CONCRETE value on each path (single-path mode: one path per value, everything downstream folds) */
static int c20_concretize(int v, int lo, int hi) { for(int k = lo; k < hi; k++) if(v == k) return k; return hi; }

/* (2) long digit runs for the width / precision accumulators: "%<D digits>d" (PREC=0) and "%.<D digits>d" (PREC=1).
 * Single-path mode does not prune infeasible branches, and an infeasible exit from the digit loop sends the rest of a symbolic
 * digit run through the whole directive parser again (7^D syntactic paths; D = 10 all-symbolic: no verdict in 15 min, path
 * merging: symex does not finish).  So: the leading D-KSYM digits come from four boundary families, made concrete per path,
 * and only the last KSYM digits are symbolic:
 *   family 0: 99..9   1: 10..0   2: 2147483647 (INT_MAX) cut/extended with 0s to D digits   3: 4294967296 (2^32) likewise */
#ifndef D
#define D 3
#endif
#ifndef PREC
#define PREC 0
#endif
#ifndef KSYM
#define KSYM 1
#endif
void harness_digits(void) {
	static const char fam2[] = "2147483647000000", fam3[] = "4294967296000000";
	int fam; VP_INPUT_RANGE(fam, 0, 3); fam = c20_concretize(fam, 0, 3);
	c20_setup(1 + PREC + D + 1, 1);
	int k = 0;
	c20_fmt[k++] = '%'; if(PREC) c20_fmt[k++] = '.';
	for(int i = 0; i < D; i++) {
		uint8_t dg = fam == 0 ? '9' : fam == 1 ? (i == 0 ? '1' : '0') : fam == 2 ? fam2[i] : fam3[i];
		if(i >= D - KSYM) VP_INPUT_RANGE(dg, (i == 0 && !PREC) ? '1' : '0', '9');     /* a leading 0 of a width is a flag: harness_bytes */
		c20_fmt[k++] = dg;
	}
	c20_fmt[k++] = 'd'; c20_fmt[k] = 0;
	c20_declared = 1; c20_judge = 1;
	c20_run();
}

/* (3) positional sequences "%a$d%b$d%c$d", a,b,c in 1..POSMAX, with EXACTLY max(a,b,c) slots supplied */
#ifndef POSMAX
#define POSMAX 3
#endif
#ifndef NPOS
#define NPOS POSMAX
#endif
void harness_positional(void) {
	uint8_t a, b, c;
	VP_INPUT_RANGE(a, 1, POSMAX); VP_INPUT_RANGE(b, 1, POSMAX); VP_INPUT_RANGE(c, 1, POSMAX);
	a = (uint8_t)c20_concretize(a, 1, POSMAX); b = (uint8_t)c20_concretize(b, 1, POSMAX); c = (uint8_t)c20_concretize(c, 1, POSMAX);
	int mx = a > b ? a : b; mx = mx > c ? mx : c;
	VP_ASSUME(mx == NPOS);         /* one query per slot count: the slot array has a concrete exact size */
	c20_setup(12, NPOS);
	uint8_t s[13] = { '%', '0' + a, '$', 'd', '%', '0' + b, '$', 'd', '%', '0' + c, '$', 'd', 0 };
	for(int i = 0; i < 13; i++) c20_fmt[i] = s[i];
	c20_declared = mx; c20_judge = 1;
	c20_run();
}

/* (4) concrete well-formed (and a few malformed) formats of realistic length, EXACTLY declared(fmt) slots (single path: with a
 * concrete format everything folds) */
#ifndef CASE
#define CASE 0
#endif
void harness_concrete(void) {
	const char *f = c20_printf_cases[CASE];      /* table generated from props/C20.py (c20_cases.h) */
	int len = 0; while(f[len]) len++;
	int decl = c20_scan((const uint8_t *)f, len);
	int dummy; VP_INPUT(dummy);            /* so that a counterexample of a format without arguments is replayed natively as well */
	c20_setup(len, decl);
	for(int i = 0; i <= len; i++) c20_fmt[i] = (uint8_t)f[i];
	c20_declared = decl; c20_judge = 1;
	c20_run();
}

/* translator validation: formats drawn from the directive alphabet, in PADDED buffers (reads past the intended end are
 * benign and identical in both builds; this entry compares the two builds, it does not judge the property) */
void harness_validate(void) {
	static const char alpha[] = "%%%%dsxcupl hz*.$0123456789-+#'q";
	static uint8_t fbuf[64]; static uint64_t sl[64]; static struct S_union_frg__arg al[16];
	int n; VP_INPUT_RANGE(n, 0, 10);
	for(int i = 0; i < n; i++) { int k; VP_INPUT_RANGE(k, 0, (int)sizeof alpha - 2); fbuf[i] = (uint8_t)alpha[k]; }
	fbuf[n] = 0;
	for(int i = n + 1; i < 64; i++) fbuf[i] = (uint8_t)"%d\0"[(i - n - 1) % 3];   /* padding in which any over-reading scanner stops at once, identically in both builds */
	for(int i = 0; i < 64; i++) sl[i] = 0x0101010101010101ULL * (uint64_t)(i + 1);
	c20_fmt = fbuf; c20_fmt_size = 64; c20_slots = sl;
	VS.f0.e[0].f0 = 48; VS.f0.e[0].f1 = 304; VS.f0.e[0].f2 = (uint8_t *)sl; VS.f0.e[0].f3 = 0; VS.f1 = al; VS.f2 = 0;
	c20_judge = 0;
	c20_run();
}
