#!/bin/sh
# tool-presence self-test; everything else is Python + the installed clang/cbmc/gcc (nothing to build)
for t in cbmc clang++-14 gcc g++ python3 z3 c++filt; do command -v $t >/dev/null || { echo "missing tool: $t"; exit 1; }; done
mkdir -p /verif/evidence
echo "setup ok"
