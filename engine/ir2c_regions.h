/* flat memory split into small word-granular regions (each a separate small C array so CBMC flattens it) */
#ifndef IR2C_REGIONS_H
#define IR2C_REGIONS_H
#include <stdint.h>
#define RWORDS 64            /* 256 bytes per region */
#ifndef NREG
#define NREG 8
#endif
extern const uint64_t REG_BASE[NREG];
uint32_t R0[RWORDS], R1[RWORDS], R2[RWORDS], R3[RWORDS], R4[RWORDS], R5[RWORDS], R6[RWORDS], R7[RWORDS];
#ifndef IR2C_ACCESS
#define IR2C_ACCESS(a, n, w) ((void)0)
#endif
static inline uint32_t ir2c_ldw(uint64_t a) {
	uint64_t w = (a & 0xFF) >> 2;
	if((a & ~0xFFULL) == REG_BASE[0]) return R0[w];
	if((a & ~0xFFULL) == REG_BASE[1]) return R1[w];
	if((a & ~0xFFULL) == REG_BASE[2]) return R2[w];
	if((a & ~0xFFULL) == REG_BASE[3]) return R3[w];
	if((a & ~0xFFULL) == REG_BASE[4]) return R4[w];
	if((a & ~0xFFULL) == REG_BASE[5]) return R5[w];
	if((a & ~0xFFULL) == REG_BASE[6]) return R6[w];
	if((a & ~0xFFULL) == REG_BASE[7]) return R7[w];
	__CPROVER_assert(0, "flat memory: access outside every region");
	return 0;
}
static inline void ir2c_stw(uint64_t a, uint32_t v) {
	uint64_t w = (a & 0xFF) >> 2;
	if((a & ~0xFFULL) == REG_BASE[0]) R0[w] = v;
	else if((a & ~0xFFULL) == REG_BASE[1]) R1[w] = v;
	else if((a & ~0xFFULL) == REG_BASE[2]) R2[w] = v;
	else if((a & ~0xFFULL) == REG_BASE[3]) R3[w] = v;
	else if((a & ~0xFFULL) == REG_BASE[4]) R4[w] = v;
	else if((a & ~0xFFULL) == REG_BASE[5]) R5[w] = v;
	else if((a & ~0xFFULL) == REG_BASE[6]) R6[w] = v;
	else if((a & ~0xFFULL) == REG_BASE[7]) R7[w] = v;
	else __CPROVER_assert(0, "flat memory: access outside every region");
}
static inline uint32_t ir2c_ld4(uint64_t a) { __CPROVER_assert((a & 3) == 0, "aligned 4"); IR2C_ACCESS(a, 4, 0); return ir2c_ldw(a); }
static inline uint64_t ir2c_ld8(uint64_t a) { __CPROVER_assert((a & 7) == 0, "aligned 8"); IR2C_ACCESS(a, 8, 0); return (uint64_t)ir2c_ldw(a) | (uint64_t)ir2c_ldw(a + 4) << 32; }
static inline uint8_t ir2c_ld1(uint64_t a) { IR2C_ACCESS(a, 1, 0); return (uint8_t)(ir2c_ldw(a & ~3ULL) >> (8 * (a & 3))); }
static inline uint16_t ir2c_ld2(uint64_t a) { __CPROVER_assert((a & 1) == 0, "aligned 2"); IR2C_ACCESS(a, 2, 0); return (uint16_t)(ir2c_ldw(a & ~3ULL) >> (8 * (a & 3))); }
static inline void ir2c_st4(uint64_t a, uint32_t v) { __CPROVER_assert((a & 3) == 0, "aligned 4"); IR2C_ACCESS(a, 4, 1); ir2c_stw(a, v); }
static inline void ir2c_st8(uint64_t a, uint64_t v) { __CPROVER_assert((a & 7) == 0, "aligned 8"); IR2C_ACCESS(a, 8, 1); ir2c_stw(a, (uint32_t)v); ir2c_stw(a + 4, (uint32_t)(v >> 32)); }
static inline void ir2c_st1(uint64_t a, uint8_t v) { IR2C_ACCESS(a, 1, 1); uint32_t sh = 8 * (a & 3); uint32_t o = ir2c_ldw(a & ~3ULL); ir2c_stw(a & ~3ULL, (o & ~(0xFFu << sh)) | ((uint32_t)v << sh)); }
static inline void ir2c_st2(uint64_t a, uint16_t v) { IR2C_ACCESS(a, 2, 1); uint32_t sh = 8 * (a & 3); uint32_t o = ir2c_ldw(a & ~3ULL); ir2c_stw(a & ~3ULL, (o & ~(0xFFFFu << sh)) | ((uint32_t)v << sh)); }
static inline void ir2c_flat_memmove(uint64_t d, uint64_t s, uint64_t n) { for(uint64_t i = 0; i < n; i++) { uint64_t k = d <= s ? i : n - 1 - i; ir2c_st1(d + k, ir2c_ld1(s + k)); } }
static inline void ir2c_flat_memset(uint64_t d, uint8_t c, uint64_t n) { for(uint64_t i = 0; i < n; i++) ir2c_st1(d + i, c); }
#endif
