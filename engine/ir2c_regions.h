/* Flat memory for `ir2c --flat` units, split into small word-granular regions: each region is its own small C array so that CBMC
 * flattens it, and an access at a concrete address (single-path mode) touches exactly one word.  Regions are 256 bytes
 * (64 32-bit words) and are selected by the address bits above the low 8.  The harness chooses the region base addresses
 * (REG_BASE, NREG <= 24) and defines IR2C_REGIONS_IMPL in exactly one translation unit (the harness itself). */
#ifndef IR2C_REGIONS_H
#define IR2C_REGIONS_H
#include <stdint.h>
#define RWORDS 64            /* 256 bytes per region */
#ifndef NREG
#define NREG 16
#endif
extern const uint64_t REG_BASE[NREG];
extern uint32_t R0[RWORDS];
extern uint32_t R1[RWORDS];
extern uint32_t R2[RWORDS];
extern uint32_t R3[RWORDS];
extern uint32_t R4[RWORDS];
extern uint32_t R5[RWORDS];
extern uint32_t R6[RWORDS];
extern uint32_t R7[RWORDS];
extern uint32_t R8[RWORDS];
extern uint32_t R9[RWORDS];
extern uint32_t R10[RWORDS];
extern uint32_t R11[RWORDS];
extern uint32_t R12[RWORDS];
extern uint32_t R13[RWORDS];
extern uint32_t R14[RWORDS];
extern uint32_t R15[RWORDS];
extern uint32_t R16[RWORDS];
extern uint32_t R17[RWORDS];
extern uint32_t R18[RWORDS];
extern uint32_t R19[RWORDS];
extern uint32_t R20[RWORDS];
extern uint32_t R21[RWORDS];
extern uint32_t R22[RWORDS];
extern uint32_t R23[RWORDS];
void ir2c_access_hook(uint64_t a, uint64_t n, int write);     /* every load/store of translated code; harness-defined when IR2C_ACCESS_HOOK */
#ifdef IR2C_ACCESS_HOOK
#define IR2C_ACCESS(a, n, w) ir2c_access_hook((a), (n), (w))
#else
#define IR2C_ACCESS(a, n, w) ((void)0)
#endif
#ifdef __CPROVER__
#define IR2C_RASSERT(c, m) __CPROVER_assert(c, m)
#else
#include <assert.h>
#define IR2C_RASSERT(c, m) assert((c) && m)
#endif
static inline int ir2c_region_of(uint64_t a) {
	for(int r = 0; r < NREG; r++) if((a & ~0xFFULL) == REG_BASE[r]) return r;
	return -1;
}
/* raw word access (no hook): also used by the harness for its own reads and writes */
static inline uint32_t ir2c_ldw(uint64_t a) {
	uint64_t w = (a & 0xFF) >> 2;
	if(0 < NREG && (a & ~0xFFULL) == REG_BASE[0 < NREG ? 0 : 0]) return R0[w];
	if(1 < NREG && (a & ~0xFFULL) == REG_BASE[1 < NREG ? 1 : 0]) return R1[w];
	if(2 < NREG && (a & ~0xFFULL) == REG_BASE[2 < NREG ? 2 : 0]) return R2[w];
	if(3 < NREG && (a & ~0xFFULL) == REG_BASE[3 < NREG ? 3 : 0]) return R3[w];
	if(4 < NREG && (a & ~0xFFULL) == REG_BASE[4 < NREG ? 4 : 0]) return R4[w];
	if(5 < NREG && (a & ~0xFFULL) == REG_BASE[5 < NREG ? 5 : 0]) return R5[w];
	if(6 < NREG && (a & ~0xFFULL) == REG_BASE[6 < NREG ? 6 : 0]) return R6[w];
	if(7 < NREG && (a & ~0xFFULL) == REG_BASE[7 < NREG ? 7 : 0]) return R7[w];
	if(8 < NREG && (a & ~0xFFULL) == REG_BASE[8 < NREG ? 8 : 0]) return R8[w];
	if(9 < NREG && (a & ~0xFFULL) == REG_BASE[9 < NREG ? 9 : 0]) return R9[w];
	if(10 < NREG && (a & ~0xFFULL) == REG_BASE[10 < NREG ? 10 : 0]) return R10[w];
	if(11 < NREG && (a & ~0xFFULL) == REG_BASE[11 < NREG ? 11 : 0]) return R11[w];
	if(12 < NREG && (a & ~0xFFULL) == REG_BASE[12 < NREG ? 12 : 0]) return R12[w];
	if(13 < NREG && (a & ~0xFFULL) == REG_BASE[13 < NREG ? 13 : 0]) return R13[w];
	if(14 < NREG && (a & ~0xFFULL) == REG_BASE[14 < NREG ? 14 : 0]) return R14[w];
	if(15 < NREG && (a & ~0xFFULL) == REG_BASE[15 < NREG ? 15 : 0]) return R15[w];
	if(16 < NREG && (a & ~0xFFULL) == REG_BASE[16 < NREG ? 16 : 0]) return R16[w];
	if(17 < NREG && (a & ~0xFFULL) == REG_BASE[17 < NREG ? 17 : 0]) return R17[w];
	if(18 < NREG && (a & ~0xFFULL) == REG_BASE[18 < NREG ? 18 : 0]) return R18[w];
	if(19 < NREG && (a & ~0xFFULL) == REG_BASE[19 < NREG ? 19 : 0]) return R19[w];
	if(20 < NREG && (a & ~0xFFULL) == REG_BASE[20 < NREG ? 20 : 0]) return R20[w];
	if(21 < NREG && (a & ~0xFFULL) == REG_BASE[21 < NREG ? 21 : 0]) return R21[w];
	if(22 < NREG && (a & ~0xFFULL) == REG_BASE[22 < NREG ? 22 : 0]) return R22[w];
	if(23 < NREG && (a & ~0xFFULL) == REG_BASE[23 < NREG ? 23 : 0]) return R23[w];
	IR2C_RASSERT(0, "memory access outside every mapped region (wild pointer)");
	return 0;
}
static inline void ir2c_stw(uint64_t a, uint32_t v) {
	uint64_t w = (a & 0xFF) >> 2;
	if(0 < NREG && (a & ~0xFFULL) == REG_BASE[0 < NREG ? 0 : 0]) R0[w] = v;
	else if(1 < NREG && (a & ~0xFFULL) == REG_BASE[1 < NREG ? 1 : 0]) R1[w] = v;
	else if(2 < NREG && (a & ~0xFFULL) == REG_BASE[2 < NREG ? 2 : 0]) R2[w] = v;
	else if(3 < NREG && (a & ~0xFFULL) == REG_BASE[3 < NREG ? 3 : 0]) R3[w] = v;
	else if(4 < NREG && (a & ~0xFFULL) == REG_BASE[4 < NREG ? 4 : 0]) R4[w] = v;
	else if(5 < NREG && (a & ~0xFFULL) == REG_BASE[5 < NREG ? 5 : 0]) R5[w] = v;
	else if(6 < NREG && (a & ~0xFFULL) == REG_BASE[6 < NREG ? 6 : 0]) R6[w] = v;
	else if(7 < NREG && (a & ~0xFFULL) == REG_BASE[7 < NREG ? 7 : 0]) R7[w] = v;
	else if(8 < NREG && (a & ~0xFFULL) == REG_BASE[8 < NREG ? 8 : 0]) R8[w] = v;
	else if(9 < NREG && (a & ~0xFFULL) == REG_BASE[9 < NREG ? 9 : 0]) R9[w] = v;
	else if(10 < NREG && (a & ~0xFFULL) == REG_BASE[10 < NREG ? 10 : 0]) R10[w] = v;
	else if(11 < NREG && (a & ~0xFFULL) == REG_BASE[11 < NREG ? 11 : 0]) R11[w] = v;
	else if(12 < NREG && (a & ~0xFFULL) == REG_BASE[12 < NREG ? 12 : 0]) R12[w] = v;
	else if(13 < NREG && (a & ~0xFFULL) == REG_BASE[13 < NREG ? 13 : 0]) R13[w] = v;
	else if(14 < NREG && (a & ~0xFFULL) == REG_BASE[14 < NREG ? 14 : 0]) R14[w] = v;
	else if(15 < NREG && (a & ~0xFFULL) == REG_BASE[15 < NREG ? 15 : 0]) R15[w] = v;
	else if(16 < NREG && (a & ~0xFFULL) == REG_BASE[16 < NREG ? 16 : 0]) R16[w] = v;
	else if(17 < NREG && (a & ~0xFFULL) == REG_BASE[17 < NREG ? 17 : 0]) R17[w] = v;
	else if(18 < NREG && (a & ~0xFFULL) == REG_BASE[18 < NREG ? 18 : 0]) R18[w] = v;
	else if(19 < NREG && (a & ~0xFFULL) == REG_BASE[19 < NREG ? 19 : 0]) R19[w] = v;
	else if(20 < NREG && (a & ~0xFFULL) == REG_BASE[20 < NREG ? 20 : 0]) R20[w] = v;
	else if(21 < NREG && (a & ~0xFFULL) == REG_BASE[21 < NREG ? 21 : 0]) R21[w] = v;
	else if(22 < NREG && (a & ~0xFFULL) == REG_BASE[22 < NREG ? 22 : 0]) R22[w] = v;
	else if(23 < NREG && (a & ~0xFFULL) == REG_BASE[23 < NREG ? 23 : 0]) R23[w] = v;
	else IR2C_RASSERT(0, "memory access outside every mapped region (wild pointer)");
}
static inline uint32_t ir2c_ld4(uint64_t a) { IR2C_RASSERT((a & 3) == 0, "misaligned 4-byte access"); IR2C_ACCESS(a, 4, 0); return ir2c_ldw(a); }
static inline uint64_t ir2c_ld8(uint64_t a) { IR2C_RASSERT((a & 7) == 0, "misaligned 8-byte access"); IR2C_ACCESS(a, 8, 0); return (uint64_t)ir2c_ldw(a) | (uint64_t)ir2c_ldw(a + 4) << 32; }
static inline uint8_t ir2c_ld1(uint64_t a) { IR2C_ACCESS(a, 1, 0); return (uint8_t)(ir2c_ldw(a & ~3ULL) >> (8 * (a & 3))); }
static inline uint16_t ir2c_ld2(uint64_t a) { IR2C_RASSERT((a & 1) == 0, "misaligned 2-byte access"); IR2C_ACCESS(a, 2, 0); return (uint16_t)(ir2c_ldw(a & ~3ULL) >> (8 * (a & 3))); }
static inline void ir2c_st4(uint64_t a, uint32_t v) { IR2C_RASSERT((a & 3) == 0, "misaligned 4-byte access"); IR2C_ACCESS(a, 4, 1); ir2c_stw(a, v); }
static inline void ir2c_st8(uint64_t a, uint64_t v) { IR2C_RASSERT((a & 7) == 0, "misaligned 8-byte access"); IR2C_ACCESS(a, 8, 1); ir2c_stw(a, (uint32_t)v); ir2c_stw(a + 4, (uint32_t)(v >> 32)); }
static inline void ir2c_st1(uint64_t a, uint8_t v) { IR2C_ACCESS(a, 1, 1); uint32_t sh = 8 * (a & 3); uint32_t o = ir2c_ldw(a & ~3ULL); ir2c_stw(a & ~3ULL, (o & ~(0xFFu << sh)) | ((uint32_t)v << sh)); }
static inline void ir2c_st2(uint64_t a, uint16_t v) { IR2C_ACCESS(a, 2, 1); uint32_t sh = 8 * (a & 3); uint32_t o = ir2c_ldw(a & ~3ULL); ir2c_stw(a & ~3ULL, (o & ~(0xFFFFu << sh)) | ((uint32_t)v << sh)); }
static inline void ir2c_flat_memmove(uint64_t d, uint64_t s, uint64_t n) {
	if(((d | s | n) & 3) == 0) { for(uint64_t i = 0; i < n; i += 4) { uint64_t k = d <= s ? i : n - 4 - i; ir2c_st4(d + k, ir2c_ld4(s + k)); } }
	else for(uint64_t i = 0; i < n; i++) { uint64_t k = d <= s ? i : n - 1 - i; ir2c_st1(d + k, ir2c_ld1(s + k)); }
}
static inline void ir2c_flat_memset(uint64_t d, uint8_t c, uint64_t n) {
	if(((d | n) & 3) == 0) { for(uint64_t i = 0; i < n; i += 4) ir2c_st4(d + i, 0x01010101u * c); }
	else for(uint64_t i = 0; i < n; i++) ir2c_st1(d + i, c);
}
#ifdef IR2C_REGIONS_IMPL
uint32_t R0[RWORDS]; uint32_t R1[RWORDS]; uint32_t R2[RWORDS]; uint32_t R3[RWORDS]; uint32_t R4[RWORDS]; uint32_t R5[RWORDS]; uint32_t R6[RWORDS]; uint32_t R7[RWORDS]; uint32_t R8[RWORDS]; uint32_t R9[RWORDS]; uint32_t R10[RWORDS]; uint32_t R11[RWORDS]; uint32_t R12[RWORDS]; uint32_t R13[RWORDS]; uint32_t R14[RWORDS]; uint32_t R15[RWORDS]; uint32_t R16[RWORDS]; uint32_t R17[RWORDS]; uint32_t R18[RWORDS]; uint32_t R19[RWORDS]; uint32_t R20[RWORDS]; uint32_t R21[RWORDS]; uint32_t R22[RWORDS]; uint32_t R23[RWORDS];
#endif
#endif
