/* vp.h — harness support shared by all checks.
 *
 * One harness source serves three builds:
 *   (1) CBMC      : inputs are solver variables, VP_ASSERT is the property, VP_ASSUME a precondition.
 *   (2) replay    : -DVP_NATIVE, linked against the REAL C++ wrapper (g++ + ASan/UBSan); inputs are read
 *                   from the file named by $VP_INPUTS (one integer per line, the values CBMC chose).
 *   (3) validation: -DVP_NATIVE, run twice (generated C vs. real C++) on pseudo-random inputs
 *                   ($VP_RANDOM=<seed>); the VP_OBSERVE logs and exit codes must agree.
 * Exit codes of a native run: 0 completed, 77 VP_ASSERT failed, 78 VP_ASSUME false (input rejected),
 * 76 admissible stop through the library's assertion hook.
 */
#ifndef VP_H
#define VP_H
#include <stdint.h>
#include <stddef.h>

#define VP_MAX_INPUTS 1024

#ifdef __CPROVER__

#define VP_ASSERT(c, msg) __CPROVER_assert((c), msg)
#define VP_ASSUME(c) __CPROVER_assume(c)
uint64_t vp_in_log[VP_MAX_INPUTS];
int vp_in_n;
/* an uninitialised local is a fresh nondeterministic value in CBMC */
#define VP_INPUT(v) do { __typeof__(v) vp_t_; (v) = vp_t_; vp_in_log[vp_in_n++] = (uint64_t)(v); } while(0)
#define VP_INPUT_RANGE(v, lo, hi) do { VP_INPUT(v); __CPROVER_assume((v) >= (lo) && (v) <= (hi)); } while(0)
#define VP_OBSERVE(x) ((void)0)
#define VP_PRE_OR(c, stmt) __CPROVER_assume(c)   /* precondition of one step; a native random run skips the step instead (stmt) */
#define VP_STOP() __CPROVER_assume(0)
#define VP_NATIVE_ONLY(x)
#ifdef VP_WITNESS_ON   /* reachability twin: every WITNESS assertion must FAIL (= the point is reachable under the assumptions) */
#define VP_WITNESS(c, msg) __CPROVER_assert((c), "WITNESS " msg)
#else
#define VP_WITNESS(c, msg) ((void)0)
#endif

#else /* native */

#include <stdio.h>
#include <stdlib.h>
#include <string.h>
static uint64_t vp_vals[VP_MAX_INPUTS]; static int vp_nvals = -1, vp_in_n; static uint64_t vp_rng;
static int vp_quiet;
static uint64_t vp_next_input(void) {
	if(vp_nvals < 0) {
		const char *f = getenv("VP_INPUTS"), *r = getenv("VP_RANDOM");
		vp_nvals = 0; vp_quiet = getenv("VP_QUIET") != 0;
		if(f) { FILE *fp = fopen(f, "r"); if(!fp) { perror(f); exit(2); }
			unsigned long long x; while(vp_nvals < VP_MAX_INPUTS && fscanf(fp, "%llu", &x) == 1) vp_vals[vp_nvals++] = x; fclose(fp); }
		else if(r) { vp_rng = strtoull(r, 0, 10) * 0x9E3779B97F4A7C15ULL + 1; vp_nvals = 0; }
	}
	if(vp_in_n < vp_nvals) return vp_vals[vp_in_n++];
	vp_in_n++;
	/* splitmix64; small values are made frequent so that range assumptions are often satisfied */
	vp_rng += 0x9E3779B97F4A7C15ULL; uint64_t z = vp_rng; z = (z ^ (z >> 30)) * 0xBF58476D1CE4E5B9ULL; z = (z ^ (z >> 27)) * 0x94D049BB133111EBULL; z ^= z >> 31;
	switch(z & 3) { case 0: return (z >> 8) & 7; case 1: return (z >> 8) & 0xFF; case 2: return (uint64_t)(int64_t)(int8_t)(z >> 8); default: return z >> 2; }
}
#define VP_ASSERT(c, msg) do { if(!(c)) { printf("VP-ASSERT-FAILED: %s\n", msg); fflush(stdout); exit(77); } } while(0)
#define VP_ASSUME(c) do { if(!(c)) { if(!vp_quiet) printf("VP-ASSUME-FALSE: %s\n", #c); fflush(stdout); exit(78); } } while(0)
#define VP_INPUT(v) do { (v) = (__typeof__(v))vp_next_input(); } while(0)
#define VP_INPUT_RANGE(v, lo, hi) do { VP_INPUT(v); if(getenv("VP_RANDOM")) { int64_t vp_l = (int64_t)(lo), vp_h = (int64_t)(hi); (v) = (__typeof__(v))(vp_l + (int64_t)((uint64_t)(v) % (uint64_t)(vp_h - vp_l + 1))); } VP_ASSUME((v) >= (lo) && (v) <= (hi)); } while(0)
#define VP_PRE_OR(c, stmt) do { if(!(c)) { if(getenv("VP_RANDOM")) { stmt; } else VP_ASSUME(c); } } while(0)
#define VP_OBSERVE(x) do { printf("obs %s=%lld\n", #x, (long long)(x)); } while(0)
#define VP_STOP() do { printf("VP-STOP (library assertion hook)\n"); fflush(stdout); exit(76); } while(0)
#define VP_NATIVE_ONLY(x) x
#define VP_WITNESS(c, msg) ((void)0)
#define __CPROVER_assume(c) VP_ASSUME(c)
#define __CPROVER_assert(c, m) VP_ASSERT(c, m)
#define __CPROVER_atomic_begin() ((void)0)
#define __CPROVER_atomic_end() ((void)0)
#ifdef VP_ENTRY
void VP_ENTRY(void);
int main(void) { setvbuf(stdout, 0, _IOLBF, 0); VP_ENTRY(); printf("VP-COMPLETED\n"); return 0; }
#endif

#endif

/* The library's assertion hook.  FRG_ASSERT lowers to: if(frg_panic) frg_panic(msg); trap.
 * VP_PANIC_VIOLATION: a panic on an input that satisfies the documented preconditions is a violation.
 * VP_PANIC_STOP     : a panic is an admissible, defined way to stop (C20). */
#ifdef VP_FLAT      /* harness of an `ir2c --flat` unit: pointers are 64-bit addresses */
typedef uint64_t vp_msg_t;
#else
typedef uint8_t *vp_msg_t;
#endif
#if defined(VP_PANIC_VIOLATION)
void frg_panic(vp_msg_t m) { (void)m; VP_ASSERT(0, "library assertion (FRG_ASSERT) fired on an input inside the property's preconditions"); }
void ir2c_trap_hook(void) { VP_ASSERT(0, "trap reached"); }
#elif defined(VP_PANIC_STOP)
int vp_stopped;
void frg_panic(vp_msg_t m) { (void)m; vp_stopped = 1; VP_STOP(); }
void ir2c_trap_hook(void) { vp_stopped = 1; VP_STOP(); }
#endif

#endif
