#!/usr/bin/env python3
"""
run.py — query scheduler for the solver-based checks (see /verif/DESIGN.md section 6).

  ./check <Cxx> [quick|thorough] [--only <regex>] [--keep] [--jobs N] [--replay <dir>]

For one property it (1) re-lowers the wrapper translation units from /repo's CURRENT working tree
(clang -> LLVM IR -> ir2c -> C), (2) validates the translation differentially (generated C vs. the real
C++ on pseudo-random inputs), (3) discharges the property's CBMC queries in parallel, each under a time
and memory limit, together with their reachability-witness twins, (4) replays any counterexample against
the real C++ build (ASan/UBSan), (5) writes /verif/evidence/<Cxx>.json.

Exit status: 0 property held on everything explored (KNOWN-FINDING lines may be printed);
             1 a violation was found (a line `VIOLATION property=<id> replay=<path>` is printed);
             2 the check itself is broken or inconclusive (vacuous witness, translator disagreement,
               mandatory query without verdict) — never reported as success.
"""
import shlex
import sys, os, re, json, time, subprocess, shutil, importlib.util, signal, threading, hashlib
from concurrent.futures import ThreadPoolExecutor, as_completed

VERIF = os.path.dirname(os.path.dirname(os.path.abspath(__file__)))
REPO = os.environ.get('VP_REPO', '/repo')
ENGINE = os.path.join(VERIF, 'engine')
CLANG = 'clang++-14'
CLANG_FLAGS = ['-std=c++20', '-O1', '-fno-exceptions', '-fno-rtti', '-fno-vectorize', '-fno-slp-vectorize',
               '-fno-unroll-loops', '-fno-threadsafe-statics', '-DMANAGARM_FRIGG_VERIF', '-S', '-emit-llvm']
TOTAL_MEM_GB = 54

class Q:
    """one solver query"""
    def __init__(self, name, unit, harness, entry, defs=None, unwind=None, unwindset=(), paths=False,
                 checks='std', extra=(), expect='pass', match=None, kind='main', timeout=600, mem_gb=6,
                 optional=False, bounds=None, known=None, replay=True, solver='cadical', what=None, group=None, inline_witness=False, witness='all', unwind_fn=None, ignore=None, recursion=None, unwind_kind=None):
        self.name = name; self.units = [unit] if isinstance(unit, str) else list(unit)
        self.harness = harness; self.entry = entry; self.defs = dict(defs or {})
        self.unwind = unwind; self.unwindset = list(unwindset); self.paths = paths; self.checks = checks
        self.extra = list(extra); self.expect = expect; self.match = match; self.kind = kind
        self.timeout = timeout; self.mem_gb = mem_gb; self.optional = optional
        self.bounds = bounds or {}; self.known = known; self.replay = replay; self.solver = solver
        self.what = what; self.group = group or name; self.inline_witness = inline_witness
        if inline_witness: self.defs['VP_WITNESS_ON'] = 1
        self.witness = witness; self.unwind_fn = unwind_fn or []; self.ignore = ignore; self.recursion = recursion or []; self.unwind_kind = unwind_kind or []
        self.res = None

class Unit:
    def __init__(self, name, flat=False, ub=True, cxxflags=(), src=None):
        self.name = name; self.flat = flat; self.ub = ub; self.cxxflags = list(cxxflags)
        self.src = src or os.path.join(VERIF, 'wrap', name + '.cpp')

def sh(cmd, **kw):
    return subprocess.run(cmd, stdout=subprocess.PIPE, stderr=subprocess.STDOUT, text=True, **kw)

class Broken(Exception):
    pass

class Runner:
    def __init__(self, prop, tier, only=None, keep=False, jobs=None):
        self.prop = prop; self.tier = tier; self.only = only; self.keep = keep
        self.jobs = jobs or min(16, os.cpu_count() or 4)
        self.seed = int(os.environ.get('VERIF_SEED', '1') or 1)
        self.work = '/var/tmp/verif-%d-%s' % (os.getpid(), prop)
        os.makedirs(self.work, exist_ok=True)
        self.t0 = time.time()
        spec = importlib.util.spec_from_file_location(prop, os.path.join(VERIF, 'props', prop + '.py'))
        self.mod = importlib.util.module_from_spec(spec); spec.loader.exec_module(self.mod)
        self.units = {}; self.functions = {}
        self.mem_lock = threading.Condition(); self.mem_used = 0
        self.validation = []
        self.running = {}; self.abort = False; self.run_lock = threading.Lock()
        self.log = open(os.path.join(self.work, 'run.log'), 'w')

    def safe(self, name):
        """file-system safe, collision-free rendering of a query name"""
        return re.sub(r'[^A-Za-z0-9_.-]', lambda m: '_%02x' % ord(m.group(0)), name)

    def say(self, *a):
        msg = ' '.join(str(x) for x in a)
        print(msg, flush=True); self.log.write(msg + '\n'); self.log.flush()

    # ------------------------------------------------------------------ lowering
    def build_unit(self, u):
        if u.name in self.units: return
        ll = os.path.join(self.work, u.name + '.ll'); c = os.path.join(self.work, u.name + '.c')
        r = sh([CLANG] + CLANG_FLAGS + u.cxxflags + ['-I', os.path.join(REPO, 'include'), '-I', os.path.join(VERIF, 'wrap'),
                u.src, '-o', ll])
        if r.returncode != 0:
            raise Broken('clang failed on %s:\n%s' % (u.src, r.stdout[-3000:]))
        cmd = [sys.executable, os.path.join(ENGINE, 'ir2c.py'), ll, c, '--list']
        if u.ub: cmd.append('--ub-checks')
        if u.flat: cmd.append('--flat')
        r = sh(cmd)
        if r.returncode != 0:
            raise Broken('ir2c failed on %s:\n%s' % (ll, r.stdout[-3000:]))
        pairs = [l.split('\t') for l in r.stdout.split('\n') if '\t' in l]
        fns = [p[0] for p in pairs]                       # C identifiers (what CBMC calls the functions)
        self.functions[u.name] = fns
        self.llvm_names = getattr(self, 'llvm_names', {}); self.llvm_names[u.name] = [p[1] for p in pairs]
        self.units[u.name] = u
        h = hashlib.sha256(open(ll, 'rb').read()).hexdigest()[:16]
        self.say('[lower] %s: %d functions encoded from current /repo tree (IR sha %s)' % (u.name, len(fns), h))

    def demangle(self, names):
        try:
            r = subprocess.run(['c++filt'], input='\n'.join(names), stdout=subprocess.PIPE, text=True)
            return [x for x in r.stdout.split('\n') if x]
        except Exception:
            return names

    # ------------------------------------------------------------------ native builds (validation, replay)
    def native_build(self, q, real, out, sanitize=True):
        """build the harness natively against the real C++ wrapper (real=True) or the generated C"""
        defs = ['-D%s=%s' % kv for kv in q.defs.items()] + ['-DVP_NATIVE', '-DVP_ENTRY=' + q.entry]
        if real and any(self.units[u].flat for u in q.units): defs.append('-DVP_REAL=1')     # flat-memory harness: real pointers against the real C++
        inc = ['-I', self.work, '-I', ENGINE, '-I', os.path.join(VERIF, 'harness')]
        hobj = out + '.h.o'
        san = ['-fsanitize=address,undefined', '-fno-sanitize-recover=undefined', '-fno-sanitize=nonnull-attribute'] if sanitize else []     # memcpy(p, nullptr, 0) on empty strings is outside every property
        r = sh(['gcc', '-std=gnu11', '-g', '-O0', '-w', '-c', os.path.join(VERIF, 'harness', q.harness), '-o', hobj] + defs + inc + (san if real else []))
        if r.returncode != 0: raise Broken('gcc failed on harness %s (native):\n%s' % (q.harness, r.stdout[-3000:]))
        objs = [hobj]
        for un in q.units:
            u = self.units[un]
            o = out + '.' + un + ('.real.o' if real else '.gen.o')
            if real:
                key = ('real', un, sanitize)
                cached = os.path.join(self.work, '%s.real%d.o' % (un, sanitize))
                if not os.path.exists(cached):
                    r = sh(['g++', '-std=c++20', '-g', '-O1', '-w', '-fno-exceptions', '-fno-rtti', '-DMANAGARM_FRIGG_VERIF', '-c', u.src, '-o', cached,
                            '-I', os.path.join(REPO, 'include'), '-I', os.path.join(VERIF, 'wrap')] + u.cxxflags + san)
                    if r.returncode != 0: raise Broken('g++ failed on %s:\n%s' % (u.src, r.stdout[-3000:]))
                objs.append(cached)
            else:
                dkey = hashlib.sha256(' '.join(sorted(defs)).encode()).hexdigest()[:10]     # the generated C depends on the query's defines (region layout, event hooks)
                cached = os.path.join(self.work, '%s.%s.gen.o' % (un, dkey))
                if not os.path.exists(cached):
                    r = sh(['gcc', '-std=gnu11', '-g', '-O1', '-w', '-c', os.path.join(self.work, un + '.c'), '-o', cached] + inc + defs)
                    if r.returncode != 0: raise Broken('gcc failed on generated %s.c:\n%s' % (un, r.stdout[-3000:]))
                objs.append(cached)
        r = sh(['g++', '-o', out] + objs + (san if real else []) + ['-pthread'])
        if r.returncode != 0: raise Broken('link failed (%s):\n%s' % (out, r.stdout[-3000:]))
        return out

    def validate(self, q, n):
        """differential translator validation on pseudo-random inputs: generated C vs real C++"""
        base = os.path.join(self.work, 'val_' + self.safe(q.name))
        a = self.native_build(q, False, base + '.gen'); b = self.native_build(q, True, base + '.real')
        agree = 0; accepted = 0; sample = None
        for i in range(n):
            env = dict(os.environ, VP_RANDOM=str(self.seed * 100003 + i), VP_QUIET='1',
                       ASAN_OPTIONS='detect_leaks=0:exitcode=79', UBSAN_OPTIONS='halt_on_error=1:exitcode=79')
            ra = subprocess.run([a], env=env, stdout=subprocess.PIPE, stderr=subprocess.DEVNULL, text=True, timeout=60)
            rb = subprocess.run([b], env=env, stdout=subprocess.PIPE, stderr=subprocess.DEVNULL, text=True, timeout=60)
            ca = ra.returncode; cb = rb.returncode
            # a failed UB assertion in the generated C (abort) corresponds to a sanitizer stop / crash in the real build
            bad = lambda c: c not in (0, 76, 77, 78)
            same = (ra.stdout == rb.stdout and ca == cb) or (bad(ca) and bad(cb)) or (bad(ca) and cb in (0, 77) and getattr(self.mod, 'UB_TOLERANT_VALIDATION', False))
            if not same:
                raise Broken('translator validation: generated C and real C++ disagree on %s, VP_RANDOM=%s (exit %d vs %d)\n--- generated C\n%s\n--- real C++\n%s'
                             % (q.name, env['VP_RANDOM'], ca, cb, ra.stdout[-1500:], rb.stdout[-1500:]))
            agree += 1
            if ca != 78:
                accepted += 1
                if sample is None: sample = {'VP_RANDOM': env['VP_RANDOM'], 'exit': ca, 'log': ra.stdout.split('\n')[:6]}
        self.validation.append({'harness': q.harness, 'entry': q.entry, 'defs': q.defs, 'vectors': n, 'accepted_by_assumptions': accepted,
                                'disagreements': 0, 'sample': sample})
        self.say('[validate] %s: %d random vectors (%d inside the assumptions), generated C == real C++' % (q.name, n, accepted))

    # ------------------------------------------------------------------ cbmc
    def cbmc_cmd(self, q, trace=True):
        cmd = ['cbmc', os.path.join(VERIF, 'harness', q.harness)] + [os.path.join(self.work, u + '.c') for u in q.units]
        cmd += ['--function', q.entry, '-I', self.work, '-I', ENGINE, '-I', os.path.join(VERIF, 'harness')]
        for k, v in q.defs.items(): cmd += ['-D', '%s=%s' % (k, v)]
        if q.unwind is not None: cmd += ['--unwind', str(q.unwind)]
        if q.unwindset: cmd += ['--unwindset', ','.join(q.unwindset)]
        cmd += ['--unwinding-assertions', '--drop-unused-functions', '--no-malloc-may-fail']
        if q.checks == 'none': cmd += ['--no-standard-checks']
        elif q.checks == 'std': cmd += ['--pointer-overflow-check'] if False else []
        if q.paths: cmd += ['--paths', 'lifo']
        if q.solver in ('z3', 'cvc5'): cmd += ['--' + q.solver]
        elif q.solver == 'kissat': cmd += ['--external-sat-solver', 'kissat']
        elif q.solver and not q.paths: cmd += ['--sat-solver', q.solver]
        if trace: cmd += ['--trace']
        cmd += ['--verbosity', '8']
        cmd += q.extra
        return cmd

    def acquire(self, gb):
        with self.mem_lock:
            while self.mem_used + gb > TOTAL_MEM_GB and self.mem_used > 0:
                self.mem_lock.wait()
            self.mem_used += gb
    def release(self, gb):
        with self.mem_lock:
            self.mem_used -= gb; self.mem_lock.notify_all()

    def run_query(self, q):
        if self.abort:
            q.res = {'name': q.name, 'kind': q.kind, 'expect': q.expect, 'wall_s': 0.0, 'bounds': q.bounds, 'entry': q.entry, 'harness': q.harness, 'defs': q.defs, 'verdict': 'skipped', 'failed': [],
                     'note': 'not run: a violation had already been found and confirmed in this run (fail-fast)'}
            return q.res
        self.acquire(q.mem_gb)
        try:
            return self._run_query(q)
        finally:
            self.release(q.mem_gb)

    def loop_bounds(self, q):
        """per-loop bounds: loops of functions matching a regex in q.unwind_fn get that bound (ids from cbmc --show-loops)"""
        cmd = ['cbmc', os.path.join(VERIF, 'harness', q.harness)] + [os.path.join(self.work, u + '.c') for u in q.units]
        cmd += ['--function', q.entry, '-I', self.work, '-I', ENGINE, '-I', os.path.join(VERIF, 'harness'), '--show-loops', '--drop-unused-functions']
        for k, v in q.defs.items(): cmd += ['-D', '%s=%s' % (k, v)]
        r = sh(cmd)
        out = []
        for m in re.finditer(r'^Loop ([^\s:]+):', r.stdout, re.M):
            lid = m.group(1); fn = lid.rsplit('.', 1)[0]
            for (rx, k) in q.unwind_fn:
                if re.search(rx, fn): out.append('%s:%d' % (lid, k)); break
        return out

    def _run_query(self, q):
        if not getattr(q, '_lb_done', False):
            if q.unwind_fn: q.unwindset = list(q.unwindset) + self.loop_bounds(q)
            if q.unwind_kind:                # per-loop bounds by (function regex, loop-kind regex): kinds come from ir2c's loop classification
                for u in q.units:
                    meta = json.load(open(os.path.join(self.work, u + '.loops.json')))
                    for fn, loops in meta.items():
                        for i, lp in enumerate(loops):
                            for (frx, krx, k) in q.unwind_kind:
                                if re.search(frx, fn) and re.search(krx, lp['kind']):
                                    q.unwindset.append('%s.%d:%d' % (fn, i, k)); break
            for (rx, k) in q.recursion:      # recursion depth per function: --unwindset <function>:k (checked by unwinding assertions)
                for u in q.units:
                    for fn in self.functions.get(u, []):
                        if re.search(rx, fn): q.unwindset.append('%s:%d' % (fn, k))
            q._lb_done = True
        cmd = self.cbmc_cmd(q)
        out = os.path.join(self.work, 'q_' + self.safe(q.name) + '.out')
        with open(out[:-4] + '.cmd', 'w') as fc: fc.write(' '.join(shlex.quote(c) for c in cmd) + '\n')
        t0 = time.time()
        wrapper = 'ulimit -v %d; exec /usr/bin/time -f "VPRSS=%%M" "$@"' % (int(q.mem_gb * 1024 * 1024))
        with open(out, 'w') as fo:
            p = subprocess.Popen(['bash', '-c', wrapper, 'x'] + cmd, stdout=fo, stderr=subprocess.STDOUT, start_new_session=True)
            with self.run_lock: self.running[p.pid] = p
            try:
                p.wait(timeout=q.timeout); timed_out = False
            except subprocess.TimeoutExpired:
                timed_out = True
                try: os.killpg(p.pid, signal.SIGKILL)
                except ProcessLookupError: pass
                p.wait()
        with self.run_lock: self.running.pop(p.pid, None)
        wall = time.time() - t0
        txt = open(out, errors='replace').read()
        res = {'name': q.name, 'kind': q.kind, 'expect': q.expect, 'wall_s': round(wall, 1), 'bounds': q.bounds, 'entry': q.entry,
               'harness': q.harness, 'defs': q.defs, 'mode': 'single-path (--paths lifo)' if q.paths else 'path-merging',
               'solver': q.solver if not q.paths else 'minisat (per path)', 'unwind': q.unwind, 'unwindset': q.unwindset}
        m = re.search(r'VPRSS=(\d+)', txt); res['rss_mb'] = int(m.group(1)) // 1024 if m else None
        m = re.findall(r'(\d+) variables, (\d+) clauses', txt)
        if m: res['sat_vars'] = int(m[-1][0]); res['sat_clauses'] = int(m[-1][1])
        m = re.findall(r'Runtime Solver: ([0-9.e+-]+)s', txt); res['solver_s'] = round(sum(float(x) for x in m), 2) if m else None
        m = re.findall(r'Runtime decision procedure: ([0-9.e+-]+)s', txt)
        if m: res['decision_s'] = round(sum(float(x) for x in m), 2)
        failed = re.findall(r'^\[([^\]]+)\] (?:line (\d+) )?(.*): FAILURE$', txt, re.M)
        res['failed'] = [{'id': f[0], 'line': f[1], 'desc': f[2]} for f in failed if not (q.ignore and re.search(q.ignore, f[0]))]
        res['ignored_failures'] = sorted(set(f[0] for f in failed if q.ignore and re.search(q.ignore, f[0])))
        res['witness_unreached'] = sorted(set(re.findall(r'^\[[^\]]+\] (?:line \d+ )?(WITNESS .*): SUCCESS$', txt, re.M)))
        res['witness_reached'] = len(set(d for (_, _, d) in failed if d.startswith('WITNESS')))
        m = re.search(r'\*\* (\d+) of (\d+) failed', txt)
        if m: res['props_failed'] = int(m.group(1)); res['props_total'] = int(m.group(2))
        if self.abort and p.returncode in (-9, 137): res['verdict'] = 'skipped'; res['note'] = 'stopped: a violation had already been found and confirmed in this run (fail-fast)'
        elif timed_out: res['verdict'] = 'timeout'
        elif 'VERIFICATION SUCCESSFUL' in txt: res['verdict'] = 'verified'
        elif 'VERIFICATION FAILED' in txt: res['verdict'] = 'failed' if res['failed'] else 'verified'
        elif re.search(r'std::bad_alloc|Out of memory|out of memory|MemoryError|Killed|memory exhausted', txt) or p.returncode in (-9, 137, 134, -6): res['verdict'] = 'out-of-memory'
        else:
            res['verdict'] = 'error'; res['tail'] = txt[-1500:]
        if q.inline_witness and res['verdict'] == 'failed':
            real = [x for x in res['failed'] if not x['desc'].startswith('WITNESS')]
            if not real and res['witness_reached'] and not (res['witness_unreached'] and q.witness == 'all'):
                res['verdict'] = 'verified'; res['failed'] = []
        res['out'] = out
        q.res = res
        return res

    def traces(self, txt):
        """split CBMC's output into (property id, trace text) pairs, real violations first"""
        parts = re.split(r'^Trace for ([^\n:]+):\n', txt, flags=re.M)
        out = []
        for i in range(1, len(parts) - 1, 2):
            out.append((parts[i].strip(), parts[i + 1]))
        def rank(t):
            pid = t[0]
            if 'unwind' in pid: return 3
            body = t[1][-600:]
            if 'WITNESS' in body: return 4
            if '.assertion.' in pid: return 0
            return 1
        return sorted(out, key=rank)

    def extract_inputs(self, txt):
        vals = {}
        for m in re.finditer(r'^\s*vp_in_log\[(\d+)l?\]=(-?\d+)', txt, re.M):
            vals[int(m.group(1))] = int(m.group(2)) & 0xFFFFFFFFFFFFFFFF
        n = max(vals) + 1 if vals else 0
        return [vals.get(i, 0) for i in range(n)]

    def replay(self, q, res):
        """replay a counterexample against the real C++ build; returns (status, dir)"""
        d = os.path.join(VERIF, 'replays', '%s_%s' % (self.prop, self.safe(q.name)))
        shutil.rmtree(d, ignore_errors=True); os.makedirs(d)
        txt = open(res['out'], errors='replace').read()
        trs = [t for t in self.traces(txt) if not t[1][-600:].count('WITNESS')] or [('output', txt[-20000:])]
        return self.replay_traces(q, res, d, trs)

    def replay_traces(self, q, res, d, trs):
        best = None
        for k, (pid, tr) in enumerate(trs[:4]):
            st = self.replay_one(q, res, d, pid, tr, k)
            if best is None: best = st
            if st.startswith('reproduced'): best = st; break
        return best, d

    def replay_one(self, q, res, d, pid, tr, k):
        sfx = '' if k == 0 else '.%d' % k
        open(os.path.join(d, 'cbmc_trace%s.txt' % sfx), 'w').write('Trace for %s:\n' % pid + tr[:400000])
        vals = self.extract_inputs(tr)
        open(os.path.join(d, 'inputs%s.txt' % sfx), 'w').write('\n'.join(str(v) for v in vals) + '\n')
        info = {'property': self.prop, 'query': q.name, 'cbmc_property': pid, 'harness': q.harness, 'entry': q.entry, 'defs': q.defs,
                'failed_assertions': res['failed'], 'inputs': vals}
        status = 'trace-only'
        if q.replay and vals:
            try:
                exe = self.native_build(q, q.replay != 'generated', os.path.join(self.work, 'replay_' + self.safe(q.name)))      # replay='generated': native run of the translated C (flat-memory hooks exist only there)
                env = dict(os.environ, VP_INPUTS=os.path.join(d, 'inputs%s.txt' % sfx), ASAN_OPTIONS='detect_leaks=0:exitcode=79',
                           UBSAN_OPTIONS='halt_on_error=1:exitcode=79:print_stacktrace=1')
                r = subprocess.run([exe], env=env, stdout=subprocess.PIPE, stderr=subprocess.STDOUT, text=True, timeout=120)
                open(os.path.join(d, 'native_replay%s.txt' % sfx), 'w').write('exit=%d\n%s' % (r.returncode, r.stdout[-20000:]))
                if r.returncode == 0 or r.returncode == 76: status = 'not-reproduced'
                elif r.returncode == 78: status = 'not-reproduced (assumption false natively)'
                else: status = 'reproduced (exit %d)' % r.returncode
                # self-contained replay script
                srcs = ' '.join(self.units[u].src for u in q.units)
                defs = ' '.join('-D%s=%s' % kv for kv in q.defs.items())
                open(os.path.join(d, 'replay.sh'), 'w').write(
                    '#!/bin/sh\n# re-lowers nothing: builds the harness against the real headers of /repo and feeds the solver-chosen inputs\n'
                    'cd %s && ./check %s --replay %s\n' % (VERIF, self.prop, d))
                os.chmod(os.path.join(d, 'replay.sh'), 0o755)
            except (Broken, subprocess.TimeoutExpired) as e:
                status = 'replay-build-failed'; info['replay_error'] = str(e)[-2000:]
        info['replay_status'] = status
        json.dump(info, open(os.path.join(d, 'counterexample%s.json' % sfx), 'w'), indent=1)
        return status

    # ------------------------------------------------------------------ main
    def known_findings(self):
        out = []
        p = os.path.join(VERIF, 'known_findings.txt')
        if os.path.exists(p):
            for l in open(p):
                l = l.strip()
                m = re.match(r'(open|fixed): property=(\S+) (\S+) (.*)', l)
                if m and m.group(2) == self.prop:
                    out.append({'status': m.group(1), 'key': m.group(3), 'what': m.group(4)})
        return out

    def main(self):
        mod = self.mod
        qs = mod.queries(self.tier)
        if self.only: qs = [q for q in qs if re.search(self.only, q.name)]
        if os.environ.get('VP_SKIP_FILE'):      # resume an interrupted exploration: names listed in the file (one per line) are not run again
            skip = set(l.strip() for l in open(os.environ['VP_SKIP_FILE'])); qs = [q for q in qs if q.name not in skip]
        for u in mod.UNITS:
            self.build_unit(u)
        if hasattr(mod, 'prepare'): mod.prepare(self)       # generated inputs (e.g. enumerated shape lists) go to the scratch directory
        # translator validation
        nval = getattr(mod, 'VALIDATE_VECTORS', 60)
        self.validation_broken = []
        for q in getattr(mod, 'validation_queries', lambda t: [])(self.tier):
            try:
                self.validate(q, nval)
            except Broken as e:
                # do not stop here: a change that breaks the property can also make the two native builds disagree (e.g. only the
                # real build runs under ASan); the solver queries decide, and the disagreement is reported as BROKEN only if they pass
                self.validation_broken.append(str(e)); self.say('[validate] DISAGREEMENT (queries still run): ' + str(e)[:300].replace('\n', ' | '))
        self.say('[run] %s tier=%s: %d queries on %d workers' % (self.prop, self.tier, len(qs), self.jobs))
        qs_sorted = sorted(qs, key=lambda q: -q.timeout * (2 if q.kind == 'main' else 1))
        # two-ended scheduling: most workers take the longest queries first (makespan), a quarter of them take the shortest first, so that
        # cheap queries are never starved by expensive ones (a seeded defect can make every expensive query run into its timeout)
        import collections, queue
        dq = collections.deque(qs_sorted); dlock = threading.Lock(); resq = queue.Queue()
        def worker(short):
            while True:
                with dlock:
                    if not dq: return
                    q = dq.pop() if short else dq.popleft()
                try: resq.put((q, self.run_query(q), None))
                except BaseException as e: resq.put((q, None, e))
        nshort = max(1, self.jobs // 4) if len(qs_sorted) > self.jobs else 0
        for i in range(self.jobs): threading.Thread(target=worker, args=(i < nshort,), daemon=True).start()
        if True:
            for _ in range(len(qs_sorted)):
                q, r, e = resq.get()
                if e is not None: raise e
                if r['verdict'] != 'skipped':
                    self.say('  [%s] %-40s %-9s %6.1fs %s%s' % (q.kind, q.name, r['verdict'], r['wall_s'], ('%d MB' % r['rss_mb']) if r.get('rss_mb') else '',
                             ('  failed: ' + '; '.join(sorted(set(x['desc'] for x in r['failed']))[:3])) if r['failed'] and q.kind == 'main' else ''))
                # fail-fast (default): once a main query has a real counterexample, stop the queries still running or queued -- a seeded defect can make
                # other queries explode (e.g. a parser running off its buffer in single-path mode) and the verdict of the run is already decided
                if (not self.abort and os.environ.get('VP_FAILFAST', '1') != '0' and q.kind == 'main' and r['verdict'] == 'failed'
                        and any(not x['desc'].startswith('WITNESS') and 'unwinding assertion' not in x['desc'] for x in r['failed'])):
                    nfail = getattr(self, 'nfail', 0) + 1; self.nfail = nfail
                    def stop(why):
                        if self.abort: return
                        self.abort = True
                        self.say('[run] %s: stopping the remaining queries (fail-fast; VP_FAILFAST=0 runs everything)' % why)
                        with self.run_lock:
                            for pid in list(self.running):
                                try: os.killpg(pid, signal.SIGKILL)
                                except ProcessLookupError: pass
                    if nfail >= int(os.environ.get('VP_FAILFAST_AFTER', '3')): stop('%d queries have counterexamples' % nfail)
                    elif nfail == 1:      # one counterexample decides the run; give the other queries a grace period, then stop them
                        t = threading.Timer(float(os.environ.get('VP_FAILFAST_GRACE', '120')), stop, args=('a counterexample was found %s s ago' % os.environ.get('VP_FAILFAST_GRACE', '120'),))
                        t.daemon = True; t.start()
        return self.judge(qs)

    def judge(self, qs):
        violations = []; broken = []; noverdict = []; known_lines = []
        kf = self.known_findings()
        open_keys = {k['key']: k for k in kf if k['status'] == 'open'}
        for q in qs:
            r = q.res
            if r['verdict'] == 'skipped': continue
            if r['verdict'] in ('timeout', 'out-of-memory'):
                (noverdict if q.optional else broken).append((q, 'no verdict (%s after %.0fs)' % (r['verdict'], r['wall_s'])))
                if q.optional: r['note'] = 'optional stretch query without verdict: not part of the claim'
                continue
            if r['verdict'] == 'error':
                broken.append((q, 'cbmc error: ' + r.get('tail', '')[-600:])); continue
            descs = [x['desc'] for x in r['failed']]
            unwind_fail = [d for d in descs if 'unwinding assertion' in d or 'recursion unwinding' in d]
            if q.kind in ('witness', 'litmus-fail'):
                if r['verdict'] == 'verified':
                    broken.append((q, 'reachability witness was NOT reachable (vacuous harness)'))
                elif r.get('witness_unreached'):
                    broken.append((q, 'unreachable witness points: %s' % r['witness_unreached'][:5]))
                elif q.match and not any(re.search(q.match, d) for d in descs):
                    broken.append((q, 'witness failed but not on the expected assertion: %s' % descs[:3]))
                continue
            if q.kind == 'known':
                k = open_keys.get(q.known)
                if r['verdict'] == 'failed' and (not q.match or any(re.search(q.match, d) for d in descs)):
                    if k: known_lines.append('KNOWN-FINDING: property=%s %s %s' % (self.prop, q.known, k['what']))
                    else:
                        st, d = self.replay(q, r); violations.append((q, d, st))
                elif r['verdict'] == 'verified':
                    r['note'] = 'listed finding no longer reproduces'
                continue
            # main / litmus-pass
            if q.inline_witness:
                real = [x for x in r['failed'] if not x['desc'].startswith('WITNESS') and 'unwinding assertion' not in x['desc']]
                # a genuine assertion failure is a violation even if it also cuts the path before the witness point (library panic + trap)
                if not real and ((r.get('witness_unreached') and q.witness == 'all') or not r.get('witness_reached')):
                    broken.append((q, 'reachability witness not reachable (vacuous harness): %s' % (r.get('witness_unreached') or 'no witness point')[:5])); continue
                r['failed'] = [x for x in r['failed'] if not x['desc'].startswith('WITNESS')]
                descs = [x['desc'] for x in r['failed']]
                unwind_fail = [d for d in descs if 'unwinding assertion' in d or 'recursion unwinding' in d]
                if not r['failed']: r['verdict'] = 'verified'
            if r['verdict'] == 'verified': continue
            if unwind_fail and len(unwind_fail) == len(descs):
                broken.append((q, 'unwinding bound too small: ' + '; '.join(sorted(set(x['id'] for x in r['failed']))[:4]))); continue
            st, d = self.replay(q, r)
            violations.append((q, d, st))
        for e in getattr(self, 'validation_broken', []):
            broken.append((Q('translator-validation', self.mod.UNITS[0].name, '-', '-'), e[:1500]))
        self.write_evidence([q for q in qs], violations, [b for b in broken if b[0].res is not None], noverdict, known_lines)
        for l in known_lines: self.say(l)
        for (q, why) in noverdict: self.say('NO-VERDICT (optional query, outside the claim): %s: %s' % (q.name, why))
        for (q, why) in broken: self.say('BROKEN: %s: %s' % (q.name, why))
        for (q, d, st) in violations:
            self.say('counterexample for %s: %s [replay against the real C++: %s]' % (q.name, '; '.join(sorted(set(x['desc'] for x in q.res['failed']))[:4]), st))
            self.say('VIOLATION property=%s replay=%s' % (self.prop, d))
        if violations: return 1
        if broken: return 2
        self.say('[ok] %s %s: all %d queries discharged in %.0fs' % (self.prop, self.tier, len(qs), time.time() - self.t0))
        return 0

    def write_evidence(self, qs, violations, broken, noverdict, known_lines):
        mod = self.mod
        mains = [q for q in qs if q.kind in ('main', 'litmus-pass')]
        wit_ok = {q.group for q in qs if (q.kind == 'witness' and q.res['verdict'] == 'failed') or (q.inline_witness and q.res.get('witness_reached') and not (q.res.get('witness_unreached') and q.witness == 'all'))}
        distinct = len({q.group for q in mains if q.res['verdict'] == 'verified' and q.group in wit_ok})
        fn_all = []
        for u, f in getattr(self, 'llvm_names', {}).items(): fn_all += f
        dem = self.demangle(fn_all)
        pats = getattr(mod, 'FUNCTION_PATTERNS', None)
        if pats: dem_sel = [d for d in dem if any(re.search(p, d) for p in pats)]
        else: dem_sel = dem
        qrec = []
        for q in qs:
            r = dict(q.res); r.pop('out', None); r.pop('tail', None)
            if q.what: r['what'] = q.what
            qrec.append(r)
        ev = {
            'property_id': self.prop, 'tier': self.tier, 'seed': self.seed, 'level': getattr(mod, 'LEVEL', 'model_checking'),
            'coverage': {
                'evaluations': len([q for q in qs if q.res['verdict'] in ('verified', 'failed')]),
                'distinct_nontrivial': distinct,
                'rule': 'one evaluation = one CBMC query (a SAT decision over ALL values inside the stated bounds, not a sampled run); a main query counts as '
                        'distinct and non-trivial when it is verified AND its reachability-witness twin (same harness, same assumptions, extra assertion that must fail) '
                        'was shown reachable, i.e. the assumptions are satisfiable and the code under test is actually executed up to the checked assertion',
                'samples': [{'query': q.name, 'what': q.what, 'bounds': q.bounds, 'verdict': q.res['verdict'], 'wall_s': q.res['wall_s']} for q in mains[:12]],
                'exhaustive': False,
                'technique': getattr(mod, 'TECHNIQUE', 'bounded symbolic execution of the clang-lowered real code with CBMC (SAT)'),
                'functions_encoded': dem_sel[:400], 'functions_encoded_count': len(dem),
                'units': [self.units[u].src for u in self.units],
                'queries': qrec,
                'queries_total': len(qs), 'queries_verified': len([q for q in mains if q.res['verdict'] == 'verified']),
                'witnesses_reachable': len(wit_ok), 'solver_time_s': round(sum((q.res.get('solver_s') or 0) for q in qs), 1),
                'cpu_wall_sum_s': round(sum(q.res['wall_s'] for q in qs), 1),
                'translator_validation': self.validation,
                'no_verdict': [{'query': q.name, 'why': w} for (q, w) in noverdict] + [{'query': q.name, 'why': w} for (q, w) in broken],
                'known_findings_reported': known_lines,
                'outside_claim': getattr(mod, 'OUTSIDE', []),
                'violations': [{'query': q.name, 'replay_dir': d, 'replay_status': st, 'failed': q.res['failed'][:6]} for (q, d, st) in violations],
            },
            'assumptions': getattr(mod, 'ASSUMPTIONS', []),
            'wall_s': round(time.time() - self.t0, 1), 'violations': len(violations),
        }
        os.makedirs(os.path.join(VERIF, 'evidence'), exist_ok=True)
        json.dump(ev, open(os.path.join(VERIF, 'evidence', self.prop + '.json'), 'w'), indent=1)

    def cleanup(self):
        self.log.close()
        if not self.keep: shutil.rmtree(self.work, ignore_errors=True)

def do_replay(prop, d):
    """re-run a stored counterexample against the real C++ headers of the current /repo tree"""
    info = json.load(open(os.path.join(d, 'counterexample.json')))
    R = Runner(prop, 'quick')
    try:
        for u in R.mod.UNITS: R.build_unit(u)
        q = [x for x in R.mod.queries('thorough') + R.mod.queries('quick') if x.name == info['query']]
        if not q: print('query %s no longer exists' % info['query']); return 2
        q = q[0]
        exe = R.native_build(q, True, os.path.join(R.work, 'replay'))
        env = dict(os.environ, VP_INPUTS=os.path.join(d, 'inputs.txt'), ASAN_OPTIONS='detect_leaks=0:exitcode=79', UBSAN_OPTIONS='halt_on_error=1:exitcode=79:print_stacktrace=1')
        r = subprocess.run([exe], env=env)
        print('replay exit status %d (77 = property assertion failed, 79/signal = sanitizer or crash, 0 = not reproduced)' % r.returncode)
        return 1 if r.returncode not in (0, 76, 78) else 0
    finally:
        R.cleanup()

def main():
    a = sys.argv[1:]
    if not a: print(__doc__); return 2
    prop = a[0]; tier = os.environ.get('VERIF_TIER', 'quick'); only = None; keep = False; jobs = None
    i = 1
    while i < len(a):
        if a[i] in ('quick', 'thorough'): tier = a[i]
        elif a[i] == '--tier': i += 1; tier = a[i]
        elif a[i] == '--only': i += 1; only = a[i]
        elif a[i] == '--keep': keep = True
        elif a[i] == '--jobs': i += 1; jobs = int(a[i])
        elif a[i] == '--replay': i += 1; return do_replay(prop, a[i])
        i += 1
    R = Runner(prop, tier, only, keep, jobs)
    def on_term(signum, frame):      # a check that is stopped from outside must not leave solver processes behind (they run in their own sessions)
        for sg in (signal.SIGTERM, signal.SIGINT, signal.SIGHUP): signal.signal(sg, signal.SIG_IGN)      # not re-entrant: a second signal during cleanup is ignored
        R.abort = True
        got = R.run_lock.acquire(timeout=2)
        for pid in list(R.running):
            try: os.killpg(pid, signal.SIGKILL)
            except ProcessLookupError: pass
        if got: R.run_lock.release()
        R.say('BROKEN: check interrupted by signal %d' % signum); R.cleanup(); os._exit(2)
    signal.signal(signal.SIGTERM, on_term); signal.signal(signal.SIGINT, on_term); signal.signal(signal.SIGHUP, on_term)
    try:
        return R.main()
    except Broken as e:
        R.say('BROKEN: ' + str(e)); return 2
    finally:
        R.cleanup()

if __name__ == '__main__':
    sys.exit(main())
