#!/usr/bin/env python3
"""
ir2c: LLVM-14 textual IR (typed pointers) -> C translator, for feeding clang-lowered
C++ (frigg headers) into CBMC's C front end.

Usage: ir2c.py in.ll out.c [--ub-checks] [--flat]
Writes out.c (function bodies, global definitions) and out.h (types, prototypes, extern
declarations) next to it; out.c includes out.h.  See /verif/DESIGN.md section 2.2.
"""
import re, sys

# ----------------------------------------------------------------------------
# Tokenizer
# ----------------------------------------------------------------------------
TOK = re.compile(r'''
    (?P<ws>\s+)
  | (?P<cstr>c"(?:[^"\\]|\\[0-9A-Fa-f]{2}|\\\\)*")
  | (?P<str>"(?:[^"\\]|\\.)*")
  | (?P<lident>%(?:"(?:[^"\\]|\\.)*"|[-a-zA-Z$._0-9]+))
  | (?P<gident>@(?:"(?:[^"\\]|\\.)*"|[-a-zA-Z$._0-9]+))
  | (?P<comdat>\$(?:"(?:[^"\\]|\\.)*"|[-a-zA-Z$._0-9]+))
  | (?P<meta>![-a-zA-Z$._0-9]*)
  | (?P<attr>\#[0-9]+)
  | (?P<hexfp>0x[KLMHR]?[0-9A-Fa-f]+)
  | (?P<fp>-?[0-9]+\.[0-9]*(?:e[+-]?[0-9]+)?)
  | (?P<int>-?[0-9]+)
  | (?P<dots>\.\.\.)
  | (?P<word>[a-zA-Z_][a-zA-Z_0-9.]*)
  | (?P<punct>[()\[\]{}<>,*=:|])
''', re.X)

def tokenize(s):
    out = []
    pos = 0
    n = len(s)
    while pos < n:
        if s[pos] == ';':
            break
        m = TOK.match(s, pos)
        if not m:
            raise SyntaxError("cannot tokenize at: %r" % s[pos:pos+40])
        pos = m.end()
        k = m.lastgroup
        if k == 'ws':
            continue
        out.append((k, m.group(k)))
    return out

class Toks:
    def __init__(self, toks, src=''):
        self.t = toks; self.i = 0; self.src = src
    def peek(self, k=0):
        j = self.i + k
        return self.t[j] if j < len(self.t) else ('eof', '')
    def next(self):
        x = self.peek(); self.i += 1; return x
    def accept(self, val):
        if self.peek()[1] == val:
            self.i += 1; return True
        return False
    def expect(self, val):
        x = self.next()
        if x[1] != val:
            raise SyntaxError("expected %r got %r in: %s" % (val, x, self.src))
    def eof(self):
        return self.i >= len(self.t)

# ----------------------------------------------------------------------------
# Types
# ----------------------------------------------------------------------------
class Ty:
    pass
class IntTy(Ty):
    def __init__(s, bits): s.bits = bits
    def key(s): return ('i', s.bits)
class FpTy(Ty):
    def __init__(s, name): s.name = name
    def key(s): return ('fp', s.name)
class VoidTy(Ty):
    def key(s): return ('void',)
class PtrTy(Ty):
    def __init__(s, to): s.to = to
    def key(s): return ('p', s.to.key())
class ArrTy(Ty):
    def __init__(s, n, el): s.n = n; s.el = el
    def key(s): return ('a', s.n, s.el.key())
class StructTy(Ty):   # literal struct
    def __init__(s, fields, packed): s.fields = fields; s.packed = packed
    def key(s): return ('s', s.packed, tuple(f.key() for f in s.fields))
class NamedTy(Ty):
    def __init__(s, name): s.name = name
    def key(s): return ('n', s.name)
class FnTy(Ty):
    def __init__(s, ret, params, vararg): s.ret = ret; s.params = params; s.vararg = vararg
    def key(s): return ('f', s.ret.key(), tuple(p.key() for p in s.params), s.vararg)
class OpaqueTy(Ty):
    def key(s): return ('opaque',)

FPNAMES = {'float', 'double', 'x86_fp80', 'half', 'fp128'}

def parse_type(tk):
    k, v = tk.next()
    if k == 'word' and re.fullmatch(r'i[0-9]+', v):
        t = IntTy(int(v[1:]))
    elif k == 'word' and v == 'void':
        t = VoidTy()
    elif k == 'word' and v in FPNAMES:
        t = FpTy(v)
    elif k == 'word' and v == 'opaque':
        t = OpaqueTy()
    elif k == 'lident':
        t = NamedTy(v)
    elif v == '[':
        n = int(tk.next()[1]); tk.expect('x'); el = parse_type(tk); tk.expect(']')
        t = ArrTy(n, el)
    elif v == '{':
        fs = []
        if not tk.accept('}'):
            while True:
                fs.append(parse_type(tk))
                if tk.accept('}'): break
                tk.expect(',')
        t = StructTy(fs, False)
    elif v == '<':
        if tk.accept('{'):
            fs = []
            if not tk.accept('}'):
                while True:
                    fs.append(parse_type(tk))
                    if tk.accept('}'): break
                    tk.expect(',')
            tk.expect('>')
            t = StructTy(fs, True)
        else:
            raise NotImplementedError("vector type in: " + tk.src)
    else:
        raise SyntaxError("bad type start %r in: %s" % ((k, v), tk.src))
    while True:
        if tk.accept('*'):
            t = PtrTy(t)
        elif tk.peek()[1] == '(' :
            # function type
            tk.next()
            ps = []; va = False
            if not tk.accept(')'):
                while True:
                    if tk.accept('...'):
                        va = True
                    else:
                        ps.append(parse_type(tk))
                        skip_param_attrs(tk)
                    if tk.accept(')'): break
                    tk.expect(',')
            t = FnTy(t, ps, va)
        else:
            break
    return t

PARAM_ATTR_WORDS = {'noundef', 'nonnull', 'nocapture', 'readonly', 'writeonly', 'readnone', 'signext',
    'zeroext', 'inreg', 'noalias', 'returned', 'nofree', 'immarg', 'nest', 'swiftself', 'noinline',
    'nounwind', 'inbounds', 'nsw', 'nuw', 'exact', 'volatile', 'tail', 'musttail', 'notail',
    'dso_local', 'local_unnamed_addr', 'unnamed_addr', 'swifterror'}

def skip_param_attrs(tk):
    """skips parameter attributes; returns dict of interesting ones (byval/sret types)"""
    info = {}
    while True:
        k, v = tk.peek()
        if k == 'word' and v in ('noundef', 'nonnull', 'nocapture', 'readonly', 'writeonly', 'readnone',
                'signext', 'zeroext', 'inreg', 'noalias', 'returned', 'nofree', 'immarg', 'nest'):
            tk.next()
        elif k == 'word' and v in ('align', ):
            tk.next(); tk.next()
        elif k == 'word' and v in ('dereferenceable', 'dereferenceable_or_null'):
            tk.next(); tk.expect('('); tk.next(); tk.expect(')')
        elif k == 'word' and v in ('byval', 'sret', 'byref', 'inalloca', 'preallocated', 'elementtype'):
            tk.next(); tk.expect('('); info[v] = parse_type(tk); tk.expect(')')
        else:
            return info

# ----------------------------------------------------------------------------
# Module model
# ----------------------------------------------------------------------------
class Module:
    def __init__(s):
        s.named = {}      # name -> StructTy or OpaqueTy
        s.named_order = []
        s.globals = {}    # name -> (ty, init_tokens or None, is_const, linkage)
        s.gorder = []
        s.funcs = {}      # name -> Func
        s.forder = []

class Func:
    def __init__(s):
        s.name = None; s.ret = None; s.params = []  # (ty, name, info)
        s.vararg = False
        s.blocks = []   # (label, [line strings])
        s.defined = False

def parse_module(text):
    M = Module()
    lines = text.split('\n')
    i = 0
    cur = None
    while i < len(lines):
        ln = lines[i]; i += 1
        s = ln.strip()
        if not s or s.startswith(';'):
            continue
        if cur is not None:
            if s == '}':
                cur = None
                continue
            # label?
            m = re.match(r'^([-a-zA-Z$._0-9]+|"[^"]*"):', s)
            if m:
                cur.blocks.append((m.group(1), []))
                continue
            # switch spanning lines
            if s.startswith('switch ') and not s.rstrip().endswith(']'):
                while not lines[i].strip().startswith(']'):
                    s += ' ' + lines[i].strip(); i += 1
                s += ' ]'; i += 1
            cur.blocks[-1][1].append(s)
            continue
        if s.startswith('source_filename') or s.startswith('target ') or s.startswith('attributes ') \
                or s.startswith('!') or s.startswith('$') or s.startswith('module asm'):
            continue
        if s.startswith('%') and ' = type ' in s:
            tk = Toks(tokenize(s), s)
            name = tk.next()[1]; tk.expect('='); tk.expect('type')
            ty = parse_type(tk)
            M.named[name] = ty; M.named_order.append(name)
            continue
        if s.startswith('@'):
            parse_global(M, s)
            continue
        if s.startswith('declare ') and '@llvm.' in s:
            continue
        if s.startswith('declare ') or s.startswith('define '):
            f = parse_fn_header(s)
            if s.startswith('define '):
                f.defined = True
                unnamed = sum(1 for (t, n, info) in f.params if re.fullmatch(r'%[0-9]+', n))
                f.blocks.append((str(unnamed), []))
                cur = f
            if f.name not in M.funcs or f.defined:
                if f.name not in M.funcs:
                    M.forder.append(f.name)
                M.funcs[f.name] = f
            continue
        raise SyntaxError("unhandled top-level line: " + s)
    return M

LINKAGE = {'private', 'internal', 'linkonce_odr', 'linkonce', 'weak', 'weak_odr', 'external', 'common',
           'available_externally', 'extern_weak', 'appending'}
def parse_global(M, s):
    tk = Toks(tokenize(s), s)
    name = tk.next()[1]; tk.expect('=')
    linkage = None; is_const = False
    while True:
        k, v = tk.peek()
        if v in LINKAGE:
            linkage = v; tk.next()
        elif v in ('dso_local', 'unnamed_addr', 'local_unnamed_addr', 'hidden', 'default', 'thread_local',
                   'dso_preemptable', 'protected', 'externally_initialized'):
            tk.next()
        elif v == 'constant':
            is_const = True; tk.next(); break
        elif v == 'global':
            tk.next(); break
        elif v == 'alias':
            raise NotImplementedError("alias: " + s)
        else:
            raise SyntaxError("global? " + s)
    ty = parse_type(tk)
    init = None
    if not tk.eof() and tk.peek()[1] != ',':
        init = parse_const(tk, ty)
    M.globals[name] = (ty, init, is_const, linkage)
    M.gorder.append(name)

def parse_fn_header(s):
    tk = Toks(tokenize(s), s)
    tk.next()  # define/declare
    f = Func()
    while True:
        k, v = tk.peek()
        if k == 'word' and (v in LINKAGE or v in ('dso_local', 'hidden', 'default', 'protected', 'noundef',
                'nonnull', 'signext', 'zeroext', 'noalias', 'unnamed_addr', 'local_unnamed_addr', 'fastcc',
                'ccc', 'dso_preemptable')):
            tk.next()
        elif k == 'word' and v == 'align':
            tk.next(); tk.next()
        elif k == 'word' and v in ('dereferenceable', 'dereferenceable_or_null'):
            tk.next(); tk.expect('('); tk.next(); tk.expect(')')
        else:
            break
    f.ret = parse_type_noparen(tk)
    f.name = tk.next()[1]
    tk.expect('(')
    if not tk.accept(')'):
        n = 0
        while True:
            if tk.accept('...'):
                f.vararg = True
            else:
                ty = parse_type(tk)
                info = skip_param_attrs(tk)
                k, v = tk.peek()
                if k == 'lident':
                    tk.next(); pname = v
                else:
                    pname = '%' + str(n)
                f.params.append((ty, pname, info))
                n += 1
            if tk.accept(')'): break
            tk.expect(',')
    return f

def parse_type_noparen(tk):
    """Return type in a function header: a type NOT followed by '(' args as fn type."""
    # parse primary + stars manually so the '(' of the param list is not eaten
    save = tk.i
    t = parse_type_primary(tk)
    while True:
        if tk.accept('*'):
            t = PtrTy(t)
        elif tk.peek()[1] == '(':
            # function-pointer return type: look ahead: after matching ')' must come '*'
            j = tk.i; depth = 0
            while True:
                v = tk.t[j][1]
                if v == '(': depth += 1
                elif v == ')':
                    depth -= 1
                    if depth == 0: break
                j += 1
            if j + 1 < len(tk.t) and tk.t[j+1][1] == '*':
                tk.next()
                ps = []; va = False
                if not tk.accept(')'):
                    while True:
                        if tk.accept('...'): va = True
                        else:
                            ps.append(parse_type(tk)); skip_param_attrs(tk)
                        if tk.accept(')'): break
                        tk.expect(',')
                t = FnTy(t, ps, va)
            else:
                break
        else:
            break
    return t

def parse_type_primary(tk):
    # parse a type without trailing * or (..)
    sub = Toks(tk.t, tk.src); sub.i = tk.i
    k, v = sub.peek()
    if v in ('[', '{', '<'):
        # find matching close
        depth = 0; j = sub.i
        openers = '[{<'; closers = ']}>'
        while True:
            x = tk.t[j][1]
            if x in openers and len(x) == 1: depth += 1
            elif x in closers and len(x) == 1:
                depth -= 1
                if depth == 0: break
            j += 1
        inner = Toks(tk.t[tk.i:j+1], tk.src)
        t = parse_type(inner)
        tk.i = j + 1
        return t
    one = Toks([tk.t[tk.i]], tk.src)
    t = parse_type(one)
    tk.i += 1
    return t

# ----------------------------------------------------------------------------
# Constants / values
# ----------------------------------------------------------------------------
class Val:
    """kind: reg/global/int/null/undef/zero/cstr/agg/cexpr/fp ; carries type"""
    def __init__(s, kind, ty, data=None): s.kind = kind; s.ty = ty; s.data = data

CAST_OPS = {'bitcast', 'ptrtoint', 'inttoptr', 'trunc', 'zext', 'sext', 'addrspacecast'}
BIN_OPS = {'add', 'sub', 'mul', 'udiv', 'sdiv', 'urem', 'srem', 'shl', 'lshr', 'ashr', 'and', 'or', 'xor'}

def parse_const(tk, ty):
    """parse a value of known type ty"""
    k, v = tk.peek()
    if k == 'lident':
        tk.next(); return Val('reg', ty, v)
    if k == 'gident':
        tk.next(); return Val('global', ty, v)
    if k == 'int':
        tk.next(); return Val('int', ty, int(v))
    if k in ('fp', 'hexfp'):
        tk.next(); return Val('fp', ty, v)
    if k == 'word' and v in ('true', 'false'):
        tk.next(); return Val('int', ty, 1 if v == 'true' else 0)
    if k == 'word' and v == 'null':
        tk.next(); return Val('null', ty)
    if k == 'word' and v in ('undef', 'poison'):
        tk.next(); return Val('undef', ty)
    if k == 'word' and v == 'zeroinitializer':
        tk.next(); return Val('zero', ty)
    if k == 'cstr':
        tk.next(); return Val('cstr', ty, decode_cstr(v))
    if v == '[' or v == '{' or v == '<':
        close = {'[': ']', '{': '}', '<': '>'}[v]
        tk.next()
        packed_struct = False
        if v == '<' and tk.peek()[1] == '{':
            tk.next(); packed_struct = True
        elems = []
        endtok = '}' if packed_struct else close
        if not tk.accept(endtok):
            while True:
                ety = parse_type(tk)
                elems.append(parse_const(tk, ety))
                if tk.accept(endtok): break
                tk.expect(',')
        if packed_struct:
            tk.expect('>')
        return Val('agg', ty, elems)
    if k == 'word' and v == 'getelementptr':
        tk.next(); tk.accept('inbounds'); tk.expect('(')
        bty = parse_type(tk); tk.expect(',')
        pty = parse_type(tk); p = parse_const(tk, pty)
        idx = []
        while tk.accept(','):
            tk.accept('inrange')
            ity = parse_type(tk); idx.append(parse_const(tk, ity))
        tk.expect(')')
        return Val('cexpr', ty, ('gep', bty, p, idx))
    if k == 'word' and v in CAST_OPS:
        tk.next(); tk.expect('(')
        sty = parse_type(tk); x = parse_const(tk, sty); tk.expect('to'); dty = parse_type(tk); tk.expect(')')
        return Val('cexpr', dty, ('cast', v, x, dty))
    if k == 'word' and v == 'icmp':
        tk.next(); pred = tk.next()[1]; tk.expect('(')
        aty = parse_type(tk); a = parse_const(tk, aty); tk.expect(',')
        bty = parse_type(tk); b = parse_const(tk, bty); tk.expect(')')
        return Val('cexpr', IntTy(1), ('icmp', pred, a, b))
    if k == 'word' and v in BIN_OPS:
        tk.next()
        while tk.peek()[1] in ('nsw', 'nuw', 'exact'): tk.next()
        tk.expect('(')
        aty = parse_type(tk); a = parse_const(tk, aty); tk.expect(',')
        bty = parse_type(tk); b = parse_const(tk, bty); tk.expect(')')
        return Val('cexpr', aty, ('bin', v, a, b))
    if k == 'word' and v == 'select':
        tk.next(); tk.expect('(')
        cty = parse_type(tk); c = parse_const(tk, cty); tk.expect(',')
        aty = parse_type(tk); a = parse_const(tk, aty); tk.expect(',')
        bty = parse_type(tk); b = parse_const(tk, bty); tk.expect(')')
        return Val('cexpr', aty, ('select', c, a, b))
    raise SyntaxError("bad constant %r in: %s" % ((k, v), tk.src))

def decode_cstr(tokv):
    body = tokv[2:-1]
    out = bytearray(); i = 0
    while i < len(body):
        c = body[i]
        if c == '\\':
            if body[i+1] == '\\':
                out.append(92); i += 2
            else:
                out.append(int(body[i+1:i+3], 16)); i += 3
        else:
            out.append(ord(c)); i += 1
    return bytes(out)

def parse_typed_value(tk):
    ty = parse_type(tk)
    info = skip_param_attrs(tk)
    v = parse_const(tk, ty)
    v.info = info
    return v

# ----------------------------------------------------------------------------
# C emission
# ----------------------------------------------------------------------------
def cid(name):
    """C identifier for an LLVM name (global or local, with sigil)"""
    sig = name[0]; body = name[1:]
    if body.startswith('"'): body = body[1:-1]
    s = re.sub(r'[^A-Za-z0-9_]', lambda m: '_%02x' % ord(m.group(0)), body)
    if sig == '%':
        return 'r_' + s
    if re.match(r'^[A-Za-z_]', s) and s == body:
        return s
    return 'g_' + s

class Emitter:
    def __init__(s, M, ub_checks=False):
        s.M = M; s.ub = ub_checks; s.split_ptrphi = True
        s.tydefs = []      # emitted type definitions in order
        s.tynames = {}     # key -> C type name
        s.struct_done = set()
        s.out = []
        s.fnptr_n = 0

    # ---- types
    def resolve(s, ty):
        while isinstance(ty, NamedTy):
            ty = s.M.named[ty.name]
        return ty

    def cty(s, ty):
        """C type name usable as a prefix type (pointers applied with *)"""
        if isinstance(ty, IntTy):
            b = ty.bits
            if b == 1 or b <= 8: return 'uint8_t'
            if b <= 16: return 'uint16_t'
            if b <= 32: return 'uint32_t'
            if b <= 64: return 'uint64_t'
            if b <= 128: return 'unsigned __int128'
            raise NotImplementedError("int width %d" % b)
        if isinstance(ty, FpTy):
            return {'float': 'float', 'double': 'double', 'x86_fp80': 'long double'}[ty.name]
        if isinstance(ty, VoidTy):
            return 'void'
        if isinstance(ty, PtrTy):
            if isinstance(ty.to, FnTy):
                return s.fnptr_typedef(ty.to)
            if isinstance(ty.to, VoidTy):
                return 'void *'
            return s.cty(ty.to) + ' *'
        if isinstance(ty, NamedTy):
            nm = 'struct ' + s.sname(ty.name)
            s.ensure_named(ty.name)
            return nm
        if isinstance(ty, (StructTy, ArrTy)):
            k = ty.key()
            if k not in s.tynames:
                nm = 'struct L%d' % len(s.tynames)
                s.tynames[k] = nm
                s.define_struct(nm, ty)
            return s.tynames[k]
        if isinstance(ty, OpaqueTy):
            return 'void'
        if isinstance(ty, FnTy):
            raise NotImplementedError("bare fn type")
        raise NotImplementedError(str(ty))

    def sname(s, name):
        body = name[1:]
        if body.startswith('"'): body = body[1:-1]
        return 'S_' + re.sub(r'[^A-Za-z0-9_]', '_', body)

    def ensure_named(s, name, full=False):
        pass  # definitions are emitted up-front in dependency order (see emit_types)

    def define_struct(s, cname, ty):
        """emit definition of a literal struct / array wrapper; by-value members must be defined first"""
        if isinstance(ty, ArrTy):
            el = s.cty_member(ty.el)
            n = ty.n if ty.n > 0 else 1   # zero-size arrays: keep 1 element (flexible trailing) -- spike
            s.tydefs.append('%s { %s e[%d]; };' % (cname, el, n))
        else:
            fs = []
            for i, f in enumerate(ty.fields):
                fs.append('%s f%d;' % (s.cty_member(f), i))
            attr = ' __attribute__((packed))' if ty.packed else ''
            body = ' '.join(fs) if fs else 'char _empty;'
            s.tydefs.append('%s { %s }%s;' % (cname, body, attr))

    def cty_member(s, ty):
        if isinstance(ty, NamedTy):
            s.define_named(ty.name)
        return s.cty(ty)

    def define_named(s, name):
        if name in s.struct_done:
            return
        s.struct_done.add(name)
        ty = s.M.named[name]
        cname = 'struct ' + s.sname(name)
        if isinstance(ty, OpaqueTy):
            s.tydefs.append('%s;' % cname)
            return
        s.define_struct(cname, ty)

    def fnptr_typedef(s, fty):
        k = ('fnptr', fty.key())
        if k not in s.tynames:
            nm = 'fnptr_%d' % s.fnptr_n; s.fnptr_n += 1
            s.tynames[k] = nm
            ps = ', '.join(s.cty(p) for p in fty.params)
            if fty.vararg:
                ps = (ps + ', ...') if ps else '...'
            if not ps: ps = 'void'
            s.tydefs.append('typedef %s (*%s)(%s);' % (s.cty(fty.ret), nm, ps))
        return s.tynames[k]

    def forward_decls(s):
        return ['struct %s;' % s.sname(n) for n in s.M.named_order]

    # ---- int helpers
    def sty(s, ty):
        b = ty.bits
        if b <= 8: return 'int8_t'
        if b <= 16: return 'int16_t'
        if b <= 32: return 'int32_t'
        if b <= 64: return 'int64_t'
        return '__int128'

    def norm(s, ty, expr):
        """cast expr to the canonical unsigned rep of int type ty (masking odd widths)"""
        b = ty.bits
        c = '(%s)(%s)' % (s.cty(ty), expr)
        if b in (8, 16, 32, 64, 128):
            return c
        return '(%s)(%s & (((%s)1 << %d) - 1))' % (s.cty(ty), c, s.cty(ty), b)

    def signed(s, ty, expr):
        b = ty.bits
        if b in (8, 16, 32, 64, 128):
            return '((%s)(%s))' % (s.sty(ty), expr)
        # sign-extend odd width
        st = s.sty(ty); ut = s.cty(ty)
        tot = {'int8_t': 8, 'int16_t': 16, 'int32_t': 32, 'int64_t': 64, '__int128': 128}[st]
        sh = tot - b
        return '((%s)((%s)((%s)(%s) << %d)) >> %d)' % (st, st, ut, expr, sh, sh)

    # ---- values
    def val(s, v):
        ty = v.ty
        if v.kind == 'reg':
            return cid(v.data)
        if v.kind == 'global':
            g = v.data
            if g in s.M.funcs:
                return '(%s)%s' % (s.cty(ty), cid(g))
            return '(%s)&%s' % (s.cty(ty), cid(g))
        if v.kind == 'int':
            b = ty.bits
            x = v.data & ((1 << b) - 1)
            if b > 64:
                hi = x >> 64; lo = x & ((1 << 64) - 1)
                return '((((unsigned __int128)%dULL) << 64) | %dULL)' % (hi, lo)
            return '((%s)%dULL)' % (s.cty(ty), x)
        if v.kind == 'null':
            return '((%s)0)' % s.cty(ty)
        if v.kind in ('undef', 'zero'):
            rt = s.resolve(ty)
            if isinstance(rt, (IntTy, PtrTy, FpTy)):
                return '((%s)0)' % s.cty(ty)
            return '(%s){0}' % s.cty(ty)
        if v.kind == 'fp':
            return s.fpconst(ty, v.data)
        if v.kind == 'cexpr':
            return s.cexpr(v)
        if v.kind == 'agg' or v.kind == 'cstr':
            return '(%s)%s' % (s.cty(ty), s.init(v))
        raise NotImplementedError(v.kind)

    def fpconst(s, ty, txt):
        import struct
        if txt.startswith('0x') and txt[2] not in 'KLMHR':
            bits = int(txt, 16)
            d = struct.unpack('<d', struct.pack('<Q', bits))[0]
            return '((%s)%r)' % (s.cty(ty), d)
        if txt.startswith('0x'):
            raise NotImplementedError("fp80 const")
        return '((%s)%s)' % (s.cty(ty), txt)

    def cexpr(s, v):
        d = v.data
        if d[0] == 'gep':
            _, bty, p, idx = d
            return s.gep_expr(bty, s.val(p), [(i.ty, s.val(i), i) for i in idx], v.ty)
        if d[0] == 'cast':
            _, op, x, dty = d
            return s.cast_expr(op, x.ty, s.val(x), dty)
        if d[0] == 'icmp':
            _, pred, a, b = d
            return s.icmp_expr(pred, a.ty, s.val(a), s.val(b))
        if d[0] == 'bin':
            _, op, a, b = d
            return s.bin_expr(op, a.ty, s.val(a), s.val(b), set())[0]
        if d[0] == 'select':
            _, c, a, b = d
            return '((%s) ? (%s) : (%s))' % (s.val(c), s.val(a), s.val(b))
        raise NotImplementedError(d[0])

    def init(s, v):
        """C initializer for a constant of aggregate type"""
        ty = s.resolve(v.ty)
        if v.kind == 'cstr':
            return '{{' + ','.join(str(b) for b in v.data) + '}}'
        if v.kind == 'agg':
            inner = ', '.join(s.init(e) for e in v.data)
            if isinstance(ty, ArrTy):
                return '{{' + inner + '}}'
            return '{' + inner + '}'
        if v.kind in ('zero', 'undef'):
            if isinstance(ty, (IntTy, PtrTy, FpTy)):
                return '0'
            return '{0}'
        return s.val(v)

    def gep_expr(s, bty, base, idx, resty):
        """typed GEP -> C address expression"""
        (t0, i0, v0) = idx[0]
        cur_ty = bty
        e = '(%s)' % base
        if getattr(v0, 'kind', None) == 'int' and v0.data == 0:
            e = '(*%s)' % e
        else:
            e = '(%s[%s])' % (e, s.signed(t0, i0) if isinstance(t0, IntTy) else i0)
        for (t, i, v) in idx[1:]:
            rt = s.resolve(cur_ty)
            if isinstance(rt, StructTy):
                assert v.kind == 'int', "non-const struct index"
                e = '%s.f%d' % (e, v.data)
                cur_ty = rt.fields[v.data]
            elif isinstance(rt, ArrTy):
                e = '%s.e[%s]' % (e, s.signed(t, i))
                cur_ty = rt.el
            else:
                raise NotImplementedError("gep into non-aggregate")
        return '((%s)&%s)' % (s.cty(resty), e)

    def cast_expr(s, op, sty_, x, dty):
        if op in ('bitcast', 'addrspacecast'):
            rs = s.resolve(sty_); rd = s.resolve(dty)
            if isinstance(rs, PtrTy) and isinstance(rd, PtrTy):
                return '((%s)%s)' % (s.cty(dty), x)
            if isinstance(rs, IntTy) and isinstance(rd, IntTy):
                return x
            raise NotImplementedError("bitcast %s" % op)
        if op == 'ptrtoint':
            return s.norm(dty, 'IR2C_PTR2INT(%s)' % x)
        if op == 'inttoptr':
            return '((%s)IR2C_INT2PTR(%s))' % (s.cty(dty), x)
        if op == 'trunc':
            return s.norm(dty, x)
        if op == 'zext':
            return '((%s)%s)' % (s.cty(dty), x)
        if op == 'sext':
            return s.norm(dty, '(%s)%s' % (s.sty(dty), s.signed(sty_, x)))
        raise NotImplementedError(op)

    def icmp_expr(s, pred, ty, a, b):
        rt = s.resolve(ty)
        ops = {'eq': '==', 'ne': '!=', 'ugt': '>', 'uge': '>=', 'ult': '<', 'ule': '<=',
               'sgt': '>', 'sge': '>=', 'slt': '<', 'sle': '<='}
        if isinstance(rt, PtrTy):
            if pred in ('eq', 'ne'):
                return '((uint8_t)((void*)%s %s (void*)%s))' % (a, ops[pred], b)
            return '((uint8_t)((uintptr_t)%s %s (uintptr_t)%s))' % (a, ops[pred], b)
        if pred[0] == 's':
            return '((uint8_t)(%s %s %s))' % (s.signed(rt, a), ops[pred], s.signed(rt, b))
        return '((uint8_t)(%s %s %s))' % (a, ops[pred], b)

    def bin_expr(s, op, ty, a, b, flags):
        """returns (expr, [ub assertion strings])"""
        rt = s.resolve(ty)
        ut = s.cty(rt)
        checks = []
        wide = '(%s)' % ('unsigned __int128' if rt.bits > 64 else 'uint64_t')
        if op in ('add', 'sub', 'mul'):
            c = {'add': '+', 'sub': '-', 'mul': '*'}[op]
            if rt.bits in (32, 64):
                # unsigned arithmetic at the native width is already modular (no integer promotion above 32 bits);
                # keeping the operation at its own width lets CBMC share identical sub-terms with a reference model
                e = s.norm(rt, '%s %s %s' % (a, c, b))
            else:
                e = s.norm(rt, '%s%s %s %s%s' % (wide, a, c, wide, b))
            if s.ub and 'nsw' in flags:
                fn = {'add': 'plus', 'sub': 'minus', 'mul': 'mult'}[op]
                checks.append('!IR2C_SOVF_%s(%s, %s)' % (fn, s.signed(rt, a), s.signed(rt, b)))
            return e, checks
        if op in ('udiv', 'urem'):
            c = '/' if op == 'udiv' else '%'
            checks.append('%s != 0' % b)
            return s.norm(rt, '%s %s %s' % (a, c, b)), checks
        if op in ('sdiv', 'srem'):
            c = '/' if op == 'sdiv' else '%'
            checks.append('%s != 0' % b)
            return s.norm(rt, '%s %s %s' % (s.signed(rt, a), c, s.signed(rt, b))), checks
        if op in ('shl', 'lshr', 'ashr'):
            checks.append('%s < %d' % (b, rt.bits))
            # the C expression itself must stay defined when the amount is too large (the LLVM result is poison, tracked separately)
            g = '(%s < %d) ? ' % (b, rt.bits)
            if op == 'shl':
                return s.norm(rt, '%s(%s%s << %s) : 0' % (g, wide, a, b)), checks
            if op == 'lshr':
                return s.norm(rt, '%s(%s >> %s) : 0' % (g, a, b)), checks
            return s.norm(rt, '%s(%s >> %s) : 0' % (g, s.signed(rt, a), b)), checks
        if op in ('and', 'or', 'xor'):
            c = {'and': '&', 'or': '|', 'xor': '^'}[op]
            return s.norm(rt, '%s %s %s' % (a, c, b)), checks
        raise NotImplementedError(op)

    # ---- module
    def emit(s):
        M = s.M
        body = []
        # globals
        gl = []
        for g in M.gorder:
            ty, init, is_const, linkage = M.globals[g]
            ct = s.cty_member(ty)
            if init is None:
                gl.append('extern %s %s;' % (ct, cid(g)))
            else:
                gl.append(('GLOBAL', g))
        # function prototypes
        protos = []
        for fn in M.forder:
            f = M.funcs[fn]
            if fn.startswith('@llvm.'):
                continue
            protos.append(s.proto(f) + ';')
        fbodies = []
        for fn in M.forder:
            f = M.funcs[fn]
            if f.defined:
                fbodies.append(s.emit_fn(f))
        gdefs = []; pre_externs = []
        for item in gl:
            if isinstance(item, tuple):
                g = item[1]
                ty, init, is_const, linkage = M.globals[g]
                ct = s.cty_member(ty)
                rt = s.resolve(ty)
                ini = s.init(init)
                gdefs.append('%s%s %s = %s;' % ('static ' if linkage in ('private', 'internal') else '',
                                                  ct, cid(g), ini))
            else:
                pre_externs.append(item)
        # force all named types defined
        for n in M.named_order:
            s.define_named(n)
        hdr = ['/* generated by ir2c */', '#ifndef IR2C_UNIT_H_%s' % s.unit, '#define IR2C_UNIT_H_%s' % s.unit,
               '#include <stdint.h>', '#include <stddef.h>', '#include <string.h>', '#include "ir2c_rt.h"']
        externs = list(pre_externs)
        for g in M.gorder:
            ty, init, is_const, linkage = M.globals[g]
            if init is not None and linkage not in ('private', 'internal'):
                externs.append('extern %s %s;' % (s.cty_member(ty), cid(g)))
        header = '\n'.join(hdr + s.forward_decls() + s.tydefs + externs + protos + ['#endif']) + '\n'
        body = '\n'.join(['/* generated by ir2c */', '#include "%s.h"' % s.unit] + gdefs + fbodies) + '\n'
        return header, body

    def proto(s, f):
        ps = ', '.join('%s %s' % (s.cty(t), cid(n)) for (t, n, info) in f.params)
        if f.vararg:
            ps = (ps + ', ...') if ps else '...'
        if not ps: ps = 'void'
        return '%s %s(%s)' % (s.cty(f.ret), cid(f.name), ps)

    # ---- functions
    def emit_fn(s, f):
        s.decls = {}      # c name -> c type
        s.body = []
        s.tmpn = 0
        s.cur_fn = f
        s.ptrphi = {}
        s.pz = {}
        # map label -> index
        labels = [b[0] for b in f.blocks]
        s.phis = {}    # label -> list of (dest reg, ty, [(val, predlabel)])
        parsed = []
        for (lab, lines) in f.blocks:
            ins = []
            for ln in lines:
                ins.append(s.parse_inst(ln))
            parsed.append((lab, ins))
            s.phis[lab] = [i for i in ins if i[0] == 'phi']
            for i in ins:
                if i[0] == 'phi' and isinstance(s.resolve(i[2]), PtrTy) and s.split_ptrphi:
                    s.ptrphi[i[1]] = i
        for (t, n, info) in f.params:
            if 'byval' in info:
                # callee owns a private copy
                loc = 'byval_' + cid(n)
                s.decls[loc] = s.cty(info['byval'])
                s.body.append('  %s = *%s; %s = &%s;' % (loc, cid(n), cid(n), loc))
        # Emit the blocks in reverse post-order of the CFG, so that the only backward gotos are genuine loop back edges:
        # CBMC treats EVERY backward goto as a loop and unwinds it, and clang's block layout is not topological.
        succ = {}
        for (lab, lines) in f.blocks:
            term = lines[-1] if lines else ''
            succ[lab] = [m.lstrip('%').strip('"') for m in re.findall(r'label (%(?:"[^"]*"|[-a-zA-Z$._0-9]+))', term)]
        order = []; seen = set()
        entry = f.blocks[0][0]
        stack = [(entry, iter(succ.get(entry, [])))]; seen.add(entry)
        while stack:
            lab, it = stack[-1]
            nxt = None
            for t in it:
                if t not in seen and t in succ:
                    nxt = t; break
            if nxt is None:
                order.append(lab); stack.pop()
            else:
                seen.add(nxt); stack.append((nxt, iter(succ.get(nxt, []))))
        order.reverse()
        s.rpo = {l: i for i, l in enumerate(order)}
        # natural loops: back edge t->h when h does not come after t in RPO; depth(h) = number of loop bodies containing h
        preds = {}
        for a in order:
            for b in succ.get(a, []):
                preds.setdefault(b, []).append(a)
        bodies = {}
        for t in order:
            for h in succ.get(t, []):
                if h in s.rpo and s.rpo[h] <= s.rpo[t]:
                    body = bodies.setdefault(h, {h})
                    work = [t]
                    while work:
                        x = work.pop()
                        if x in body: continue
                        body.add(x); work.extend(preds.get(x, []))
        s.loop_depth = {h: sum(1 for h2, b in bodies.items() if h in b) for h in bodies}
        s.backedges = []          # in emission order == CBMC's loop numbering within the function
        # classify each loop header: 'const:N' counted loop compared against the constant N, 'counted' integer induction variable
        # without a constant limit, 'other' (e.g. pointer chasing).  Lets a check give tight per-kind unwinding bounds.
        s.loop_kind = {}
        alltxt = [ln for (_, lines) in f.blocks for ln in lines]
        for (lab, lines) in f.blocks:
            h = lab.strip('"')
            if h not in bodies: continue
            kind = 'other'
            for ln in lines:
                m = re.match(r'\s*(%[-\w.$\"]+) = phi i(\d+) ', ln)
                if not m: continue
                ph = re.escape(m.group(1))
                incs = [m2.group(1) for l2 in alltxt for m2 in [re.match(r'\s*(%[-\w.$\"]+) = (?:add|sub)(?: nuw| nsw)* i\d+ ' + ph + r', (?:1|-1)\b', l2)] if m2]
                if not incs: continue
                if kind == 'other': kind = 'counted'
                for v in [m.group(1)] + incs:
                    for l2 in alltxt:
                        m3 = re.search(r'icmp \w+ i\d+ ' + re.escape(v) + r', (\d+)\b', l2)
                        if m3: kind = 'const:%s' % m3.group(1)
            s.loop_kind[h] = kind
        byname = {lab.strip('"'): (lab, ins) for (lab, ins) in parsed}
        ordered = [byname[l] for l in order if l in byname]
        for (lab, ins) in ordered:
            s.body.append('%s: ;' % s.lab(lab))
            for i in ins:
                s.emit_inst(i, lab)
        s.loops_meta = getattr(s, 'loops_meta', {}); s.loops_meta[cid(f.name)] = s.backedges
        decl_lines = ['  %s %s;' % (t, n) for n, t in s.decls.items()]
        return '%s {\n%s\n%s\n}\n' % (s.proto(f), '\n'.join(decl_lines), '\n'.join(s.body))

    def lab(s, l):
        l = l.lstrip('%')
        if l.startswith('"'): l = l[1:-1]
        return 'L_' + re.sub(r'[^A-Za-z0-9_]', '_', l)

    def tmp(s, cty):
        s.tmpn += 1
        n = 't_%d' % s.tmpn
        s.decls[n] = cty
        return n

    def setreg(s, reg, ty, expr):
        n = cid(reg)
        s.decls[n] = s.cty(ty)
        s.body.append('  %s = %s;' % (n, expr))

    def pzof(s, v):
        return s.pz.get(v.data) if getattr(v, 'kind', None) == 'reg' else None

    def pz_pure(s, dest, operands, own=(), what=''):
        """poison flag of a side-effect-free instruction: own poison conditions OR the operands' flags"""
        terms = list(own) + [x for x in (s.pzof(o) for o in operands) if x]
        if not terms or dest is None: return
        n = 'pz_' + cid(dest); s.decls[n] = 'uint8_t'; s.pz[dest] = n
        s.body.append('  %s = %s;' % (n, ' || '.join('(%s)' % t for t in terms)))

    def pz_use(s, ln):
        """a side-effecting instruction uses these registers: poison reaching it is undefined behaviour"""
        for r in set(re.findall(r'%(?:"[^"]*"|[-a-zA-Z$._0-9]+)', ln)):
            if r in s.pz:
                s.body.append('  IR2C_UB(!%s, "poison value (signed overflow / over-wide shift) reaches a side effect");' % s.pz[r])

    def ubcheck(s, cond, what):
        s.body.append('  IR2C_UB(%s, "%s");' % (cond, what))

    def goto(s, frm, to):
        """emit phi copies for edge frm->to then goto"""
        f_, t_ = frm.lstrip('%').strip('"'), to.lstrip('%').strip('"')
        if hasattr(s, 'rpo') and f_ in s.rpo and t_ in s.rpo and s.rpo[t_] <= s.rpo[f_]:
            s.backedges.append({'header': t_, 'depth': s.loop_depth.get(t_, 1), 'kind': s.loop_kind.get(t_, 'other')})
        ph = s.phis.get(to.lstrip('%'), None)
        if ph is None:
            ph = s.phis.get(to, [])
        moves = []
        extra = []
        for p in ph:
            _, dest, ty, incoming = p
            for k, (v, pl) in enumerate(incoming):
                if pl.lstrip('%') == frm.lstrip('%'):
                    moves.append((dest, ty, v))
                    if s.pzof(v): extra.append('IR2C_UB(!%s, "poison value flows into a phi");' % s.pzof(v))
                    if dest in s.ptrphi:
                        d = cid(dest)
                        s.decls['sel_' + d] = 'int'
                        s.decls['pin_%s_%d' % (d, k)] = s.cty(ty)
                        extra.append('pin_%s_%d = %s; sel_%s = %d;' % (d, k, s.val(v), d, k))
                    break
            else:
                raise SyntaxError("phi without incoming for %s in %s" % (frm, to))
        if len(moves) == 1:
            d, ty, v = moves[0]
            s.decls[cid(d)] = s.cty(ty)
            return '{ %s %s = %s; goto %s; }' % (' '.join(extra), cid(d), s.val(v), s.lab(to))
        pre = list(extra); post = []
        for (d, ty, v) in moves:
            t = s.tmp(s.cty(ty))
            s.decls[cid(d)] = s.cty(ty)
            pre.append('%s = %s;' % (t, s.val(v)))
            post.append('%s = %s;' % (cid(d), t))
        return '{ %s %s goto %s; }' % (' '.join(pre), ' '.join(post), s.lab(to))

    def parse_inst(s, ln):
        if '@llvm.experimental.noalias.scope.decl' in ln or '@llvm.dbg.' in ln:
            ln = 'fence seq_cst'   # placeholder no-op
            return ('inst', None, 'nop', Toks([], ln), ln)
        tk = Toks(tokenize(ln), ln)
        dest = None
        if tk.peek()[0] == 'lident' and tk.peek(1)[1] == '=':
            dest = tk.next()[1]; tk.next()
        k, op = tk.next()
        if op in ('tail', 'musttail', 'notail'):
            k, op = tk.next()
        if op == 'phi':
            ty = parse_type(tk)
            inc = []
            while True:
                tk.expect('[')
                v = parse_const(tk, ty); tk.expect(',')
                pl = tk.next()[1]; tk.expect(']')
                inc.append((v, pl))
                if not tk.accept(','): break
            return ('phi', dest, ty, inc)
        return ('inst', dest, op, tk, ln)

    def emit_inst(s, inst, curlab):
        if inst[0] == 'phi':
            return
        _, dest, op, tk, ln = inst
        B = s.body
        if op not in BIN_OPS and op not in CAST_OPS and op not in ('icmp', 'select', 'getelementptr', 'extractvalue', 'insertvalue', 'freeze', 'nop', 'alloca'):
            s.pz_use(ln.split('=', 1)[1] if dest else ln)
        if op in BIN_OPS:
            flags = set()
            while tk.peek()[1] in ('nsw', 'nuw', 'exact'):
                flags.add(tk.next()[1])
            ty = parse_type(tk)
            a = parse_const(tk, ty); tk.expect(','); b = parse_const(tk, ty)
            e, checks = s.bin_expr(op, ty, s.val(a), s.val(b), flags)
            if op in ('udiv', 'sdiv', 'urem', 'srem'):
                for c in checks: s.ubcheck(c, op)          # division by zero is immediate UB
                s.pz_pure(dest, [a, b])
            else:
                # over-wide shifts and nsw overflow yield POISON, which is UB only when it reaches a side effect
                # (clang speculates such instructions when it turns branches into selects)
                s.pz_pure(dest, [a, b], ['!(%s)' % c for c in checks], op)
            s.setreg(dest, ty, e)
        elif op == 'icmp':
            pred = tk.next()[1]
            ty = parse_type(tk); a = parse_const(tk, ty); tk.expect(','); b = parse_const(tk, ty)
            s.pz_pure(dest, [a, b])
            s.setreg(dest, IntTy(1), s.icmp_expr(pred, ty, s.val(a), s.val(b)))
        elif op in CAST_OPS:
            sty_ = parse_type(tk); x = parse_const(tk, sty_); tk.expect('to'); dty = parse_type(tk)
            s.pz_pure(dest, [x])
            s.setreg(dest, dty, s.cast_expr(op, sty_, s.val(x), dty))
        elif op == 'select':
            c = parse_typed_value(tk); tk.expect(',')
            a = parse_typed_value(tk); tk.expect(',')
            b = parse_typed_value(tk)
            pc, pa, pb = s.pzof(c), s.pzof(a), s.pzof(b)
            if pc or pa or pb:
                n = 'pz_' + cid(dest); s.decls[n] = 'uint8_t'; s.pz[dest] = n
                s.body.append('  %s = %s || ((%s) ? %s : %s);' % (n, pc or '0', s.val(c), pa or '0', pb or '0'))
            if getattr(s, 'select_branch', False):
                # single-path exploration: a select on symbolic data would keep BOTH values alive as one symbolic term (e.g. a size-class
                # index computed branch-free by clang); as a branch, each path sees a concrete value and everything derived from it folds
                n = cid(dest); s.decls[n] = s.cty(a.ty)
                s.body.append('  if(%s) %s = %s; else %s = %s;' % (s.val(c), n, s.val(a), n, s.val(b)))
            else:
                s.setreg(dest, a.ty, '(%s) ? (%s) : (%s)' % (s.val(c), s.val(a), s.val(b)))
        elif op == 'getelementptr':
            inb = tk.accept('inbounds')
            bty = parse_type(tk); tk.expect(',')
            p = parse_typed_value(tk)
            idx = []
            while tk.accept(','):
                iv = parse_typed_value(tk); idx.append((iv.ty, s.val(iv), iv))
            resty = s.gep_result_type(bty, idx)
            s.pz_pure(dest, [p] + [iv for (_, _, iv) in idx])
            s.setreg(dest, resty, s.gep_expr(bty, s.val(p), idx, resty))
        elif op == 'load':
            atomic = tk.accept('atomic'); vol = tk.accept('volatile')
            ty = parse_type(tk); tk.expect(',')
            p = parse_typed_value(tk)
            order = None
            if atomic:
                if tk.peek()[1].startswith('syncscope'): tk.next(); tk.expect('('); tk.next(); tk.expect(')')
                order = tk.next()[1]
            if atomic:
                B.append('  IR2C_ATOMIC_BEGIN(); IR2C_EVENT_LOAD(%s, "%s");' % (s.val(p), order))
            if p.kind == 'reg' and p.data in s.ptrphi and not atomic:
                d = cid(p.data); inc = s.ptrphi[p.data][3]
                n = cid(dest); s.decls[n] = s.cty(ty)
                chain = ''
                for k in range(len(inc)):
                    cond = '' if k == len(inc) - 1 else 'if(sel_%s == %d) ' % (d, k)
                    chain += '%s%s = *pin_%s_%d; %s' % (cond, n, d, k, '' if k == len(inc) - 1 else 'else ')
                B.append('  ' + chain)
            else:
                s.setreg(dest, ty, '*%s' % s.val(p))
            if atomic:
                B.append('  IR2C_ATOMIC_END();')
        elif op == 'store':
            atomic = tk.accept('atomic'); vol = tk.accept('volatile')
            v = parse_typed_value(tk); tk.expect(',')
            p = parse_typed_value(tk)
            order = None
            if atomic:
                if tk.peek()[1].startswith('syncscope'): tk.next(); tk.expect('('); tk.next(); tk.expect(')')
                order = tk.next()[1]
                B.append('  IR2C_ATOMIC_BEGIN(); IR2C_EVENT_STORE(%s, "%s");' % (s.val(p), order))
            if p.kind == 'reg' and p.data in s.ptrphi and not atomic:
                d = cid(p.data); inc = s.ptrphi[p.data][3]
                chain = ''
                for k in range(len(inc)):
                    cond = '' if k == len(inc) - 1 else 'if(sel_%s == %d) ' % (d, k)
                    chain += '%s*pin_%s_%d = %s; %s' % (cond, d, k, s.val(v), '' if k == len(inc) - 1 else 'else ')
                B.append('  ' + chain)
            else:
                B.append('  *%s = %s;' % (s.val(p), s.val(v)))
            if atomic:
                B.append('  IR2C_EVENT_STORED(%s, "%s"); IR2C_ATOMIC_END();' % (s.val(p), order))
        elif op == 'atomicrmw':
            vol = tk.accept('volatile')
            rop = tk.next()[1]
            p = parse_typed_value(tk); tk.expect(',')
            v = parse_typed_value(tk)
            order = tk.next()[1]
            pv = s.val(p); vv = s.val(v)
            B.append('  IR2C_ATOMIC_BEGIN(); IR2C_EVENT_RMW(%s, "%s");' % (pv, order))
            s.setreg(dest, v.ty, '*%s' % pv)
            old = cid(dest)
            newv = {'xchg': vv, 'add': s.norm(v.ty, '%s + %s' % (old, vv)), 'sub': s.norm(v.ty, '%s - %s' % (old, vv)),
                    'and': '%s & %s' % (old, vv), 'or': '%s | %s' % (old, vv), 'xor': '%s ^ %s' % (old, vv)}[rop]
            B.append('  *%s = %s; IR2C_ATOMIC_END();' % (pv, newv))
        elif op == 'cmpxchg':
            weak = tk.accept('weak'); vol = tk.accept('volatile')
            p = parse_typed_value(tk); tk.expect(',')
            c = parse_typed_value(tk); tk.expect(',')
            n = parse_typed_value(tk)
            so = tk.next()[1]; fo = tk.next()[1]
            rty = StructTy([c.ty, IntTy(1)], False)
            d = cid(dest); s.decls[d] = s.cty(rty)
            B.append('  IR2C_ATOMIC_BEGIN(); IR2C_EVENT_RMW(%s, "%s");' % (s.val(p), so))
            B.append('  %s.f0 = *%s; %s.f1 = (%s.f0 == %s)%s;' % (d, s.val(p), d, d, s.val(c),
                     ' && IR2C_WEAK_CAS_OK()' if weak else ''))
            B.append('  if(%s.f1) *%s = %s; IR2C_ATOMIC_END();' % (d, s.val(p), s.val(n)))
            s.regty_extra = getattr(s, 'regty_extra', {}); s.regty_extra[dest] = rty
        elif op == 'fence':
            order = tk.next()[1]
            B.append('  IR2C_FENCE("%s");' % order)
        elif op == 'extractvalue':
            a = parse_typed_value(tk)
            s.pz_pure(dest, [a])
            e = s.val(a); cur = a.ty
            while tk.accept(','):
                if tk.peek()[0] != 'int': break
                i = int(tk.next()[1])
                rt = s.resolve(cur)
                if isinstance(rt, StructTy):
                    e = '%s.f%d' % (e, i); cur = rt.fields[i]
                else:
                    e = '%s.e[%d]' % (e, i); cur = rt.el
            s.setreg(dest, cur, e)
        elif op == 'insertvalue':
            a = parse_typed_value(tk); tk.expect(',')
            v = parse_typed_value(tk)
            s.pz_pure(dest, [a, v])
            d = cid(dest); s.decls[d] = s.cty(a.ty)
            B.append('  %s = %s;' % (d, s.val(a)))
            e = d; cur = a.ty
            while tk.accept(','):
                if tk.peek()[0] != 'int': break
                i = int(tk.next()[1])
                rt = s.resolve(cur)
                if isinstance(rt, StructTy):
                    e = '%s.f%d' % (e, i); cur = rt.fields[i]
                else:
                    e = '%s.e[%d]' % (e, i); cur = rt.el
            B.append('  %s = %s;' % (e, s.val(v)))
        elif op == 'alloca':
            ty = parse_type(tk)
            cnt = None
            if tk.accept(','):
                if tk.peek()[1] != 'align':
                    cv = parse_typed_value(tk); cnt = cv
            slot = 'slot_' + cid(dest)
            if cnt is not None and not (cnt.kind == 'int' and cnt.data == 1):
                if cnt.kind != 'int': raise NotImplementedError("dynamic alloca")
                s.decls[slot + '[%d]' % cnt.data] = s.cty_member(ty)
                s.setreg(dest, PtrTy(ty), '&%s[0]' % slot)
            else:
                s.decls[slot] = s.cty_member(ty)
                s.setreg(dest, PtrTy(ty), '&%s' % slot)
        elif op == 'br':
            if tk.peek()[1] == 'label':
                tk.next(); to = tk.next()[1]
                B.append('  ' + s.goto(curlab, to))
            else:
                c = parse_typed_value(tk); tk.expect(','); tk.expect('label'); t1 = tk.next()[1]
                tk.expect(','); tk.expect('label'); t2 = tk.next()[1]
                B.append('  if(%s) %s else %s' % (s.val(c), s.goto(curlab, t1), s.goto(curlab, t2)))
        elif op == 'switch':
            v = parse_typed_value(tk); tk.expect(','); tk.expect('label'); dflt = tk.next()[1]
            tk.expect('[')
            B.append('  switch(%s) {' % s.val(v))
            while not tk.accept(']'):
                cv = parse_typed_value(tk); tk.expect(','); tk.expect('label'); to = tk.next()[1]
                B.append('    case %s: %s' % (s.val(cv), s.goto(curlab, to)))
            B.append('    default: %s' % s.goto(curlab, dflt))
            B.append('  }')
        elif op == 'ret':
            if tk.peek()[1] == 'void':
                B.append('  return;')
            else:
                v = parse_typed_value(tk)
                B.append('  return %s;' % s.val(v))
        elif op == 'unreachable':
            B.append('  IR2C_UNREACHABLE();')
        elif op == 'call':
            s.emit_call(dest, tk, ln)
        elif op == 'nop':
            pass
        elif op == 'freeze':
            v = parse_typed_value(tk)
            s.setreg(dest, v.ty, s.val(v))
        elif op in ('fadd', 'fsub', 'fmul', 'fdiv', 'fcmp', 'fptoui', 'fptosi', 'uitofp', 'sitofp', 'fpext', 'fptrunc', 'fneg'):
            raise NotImplementedError("fp op (out of scope of the spike): " + ln)
        else:
            raise NotImplementedError("instruction: " + ln)

    def gep_result_type(s, bty, idx):
        cur = bty
        for (t, i, v) in idx[1:]:
            rt = s.resolve(cur)
            if isinstance(rt, StructTy):
                cur = rt.fields[v.data]
            else:
                cur = rt.el
        return PtrTy(cur)

    def emit_call(s, dest, tk, ln):
        B = s.body
        # skip cc / ret attrs
        while tk.peek()[0] == 'word' and tk.peek()[1] in ('fastcc', 'ccc', 'noundef', 'nonnull', 'signext', 'zeroext',
                                                          'noalias', 'nnan', 'ninf', 'nsz', 'arcp', 'contract', 'afn', 'reassoc', 'fast'):
            tk.next()
        while tk.peek()[1] in ('align', 'dereferenceable', 'dereferenceable_or_null'):
            if tk.next()[1] == 'align': tk.next()
            else:
                tk.expect('('); tk.next(); tk.expect(')')
        rty = parse_type_noparen(tk)
        # optional full fn type already consumed by parse_type_noparen if followed by '*'? handle "ret (params...)" form
        if tk.peek()[1] == '(' and tk.peek()[0] == 'punct' and not (tk.peek(-1)[0] in ('gident', 'lident')):
            # explicit function type e.g. "i32 (i8*, ...) @printf(" -> skip the parenthesised type list
            depth = 0
            while True:
                v = tk.next()[1]
                if v == '(': depth += 1
                elif v == ')':
                    depth -= 1
                    if depth == 0: break
        callee_k, callee = tk.next()
        tk.expect('(')
        args = []
        if not tk.accept(')'):
            while True:
                a = parse_typed_value(tk)
                args.append(a)
                if tk.accept(')'): break
                tk.expect(',')
        if callee_k == 'gident' and callee.startswith('@llvm.'):
            return s.emit_intrinsic(dest, rty, callee, args, ln)
        if callee_k == 'gident':
            fn = cid(callee)
        else:
            fn = '(%s)' % cid(callee)
        argl = []
        for a in args:
            argl.append(s.val(a))
        call = '%s(%s)' % (fn, ', '.join(argl))
        if dest is not None and not isinstance(rty, VoidTy):
            s.setreg(dest, rty, call)
        else:
            B.append('  %s;' % call)

    def emit_intrinsic(s, dest, rty, name, args, ln):
        B = s.body
        base = name[len('@llvm.'):]
        A = [s.val(a) for a in args]
        if base.startswith('lifetime.') or base.startswith('dbg.') or base.startswith('experimental.noalias') \
                or base == 'x86.sse2.pause' or base.startswith('invariant.'):
            return
        if base == 'trap':
            B.append('  IR2C_TRAP();'); return
        if base.startswith('memcpy.') or base.startswith('memmove.'):
            fn = 'memcpy' if base.startswith('memcpy') else 'memmove'
            B.append('  IR2C_%s(%s, %s, %s);' % (fn.upper(), A[0], A[1], A[2])); return
        if base.startswith('memset.'):
            B.append('  IR2C_MEMSET(%s, %s, %s);' % (A[0], A[1], A[2])); return
        if base == 'assume':
            B.append('  IR2C_UB(%s, "llvm.assume");' % A[0]); return
        if base.startswith('expect.'):
            s.setreg(dest, rty, A[0]); return
        for nm in ('umax', 'umin', 'smax', 'smin'):
            if base.startswith(nm + '.'):
                ty = args[0].ty
                if nm[0] == 's':
                    a, b = s.signed(ty, A[0]), s.signed(ty, A[1])
                else:
                    a, b = A[0], A[1]
                c = '>' if nm.endswith('max') else '<'
                if getattr(s, 'select_branch', False):
                    n = cid(dest); s.decls[n] = s.cty(rty)
                    s.body.append('  if(%s %s %s) %s = %s; else %s = %s;' % (a, c, b, n, A[0], n, A[1])); return
                s.setreg(dest, rty, '(%s %s %s) ? %s : %s' % (a, c, b, A[0], A[1])); return
        if base.startswith('ctlz.') or base.startswith('cttz.') or base.startswith('ctpop.'):
            bits = args[0].ty.bits
            s.setreg(dest, rty, 'ir2c_%s%d(%s)' % (base.split('.')[0], bits, A[0])); return
        if base.startswith('fshl.') or base.startswith('fshr.'):
            bits = args[0].ty.bits
            s.setreg(dest, rty, 'ir2c_%s%d(%s, %s, %s)' % (base.split('.')[0], bits, A[0], A[1], A[2])); return
        if base.startswith('abs.'):
            ty = args[0].ty
            s.setreg(dest, rty, s.norm(ty, '(%s < 0) ? -%s : %s' % (s.signed(ty, A[0]), s.signed(ty, A[0]), s.signed(ty, A[0])))); return
        m = re.match(r'(u|s)(add|sub|mul)\.with\.overflow\.i(\d+)', base)
        if m:
            sg, opn, bits = m.group(1), m.group(2), int(m.group(3))
            d = cid(dest); s.decls[d] = s.cty(rty)
            ty = args[0].ty
            e, _ = s.bin_expr(opn, ty, A[0], A[1], set())
            B.append('  %s.f0 = %s;' % (d, e))
            fn = {'add': 'plus', 'sub': 'minus', 'mul': 'mult'}[opn]
            if sg == 's':
                B.append('  %s.f1 = IR2C_SOVF_%s(%s, %s);' % (d, fn, s.signed(ty, A[0]), s.signed(ty, A[1])))
            else:
                B.append('  %s.f1 = IR2C_SOVF_%s(%s, %s);' % (d, fn, A[0], A[1]))
            return
        if base in ('va_start', 'va_end', 'va_copy'):
            B.append('  IR2C_%s(%s);' % (base.upper(), ', '.join(A))); return
        if base.startswith('bswap.'):
            s.setreg(dest, rty, 'ir2c_bswap%d(%s)' % (args[0].ty.bits, A[0])); return
        raise NotImplementedError("intrinsic " + name)

def gdefs_decl(g): return []
def gdefs_def(g): return g

# ----------------------------------------------------------------------------
# FLAT memory mode: pointers are uint64 addresses into one byte array MEM[]
# ----------------------------------------------------------------------------
class FlatEmitter(Emitter):
    def __init__(s, M, ub_checks=False):
        Emitter.__init__(s, M, ub_checks)
        s.split_ptrphi = False
        s.galloc = {}     # global name -> address
        s.gtop = 0x100    # globals live in [0x100, ...)
        s.stack_top = 0   # allocas: static offsets from IR2C_STACK_BASE
        s.reent = []

    # layout
    def layout(s, ty):
        """(size, align)"""
        ty = s.resolve(ty)
        if isinstance(ty, IntTy):
            b = (ty.bits + 7) // 8
            p = 1
            while p < b: p *= 2
            return (p, min(p, 16) if p <= 8 else 16)
        if isinstance(ty, PtrTy): return (8, 8)
        if isinstance(ty, FpTy): return {'float': (4, 4), 'double': (8, 8), 'x86_fp80': (16, 16)}[ty.name]
        if isinstance(ty, ArrTy):
            sz, al = s.layout(ty.el); return (sz * ty.n, al)
        if isinstance(ty, StructTy):
            off = 0; mal = 1
            for f in ty.fields:
                sz, al = s.layout(f)
                if not ty.packed:
                    off = (off + al - 1) // al * al; mal = max(mal, al)
                off += sz
            if not ty.packed:
                off = (off + mal - 1) // mal * mal
            return (off, mal)
        raise NotImplementedError("layout of %r" % ty)

    def field_off(s, ty, idx):
        ty = s.resolve(ty); off = 0
        for i, f in enumerate(ty.fields):
            sz, al = s.layout(f)
            if not ty.packed:
                off = (off + al - 1) // al * al
            if i == idx: return off
            off += sz

    def cty(s, ty):
        if isinstance(ty, PtrTy): return 'uint64_t'
        return Emitter.cty(s, ty)

    def val(s, v):
        if v.kind == 'global':
            g = v.data
            if g in s.M.funcs:
                return '((uint64_t)(uintptr_t)%s)' % cid(g)
            return '((uint64_t)%dULL /* %s */)' % (s.gaddr(g), g)
        if v.kind == 'null':
            return '((uint64_t)0)'
        return Emitter.val(s, v)

    def gaddr(s, g):
        if g.startswith('@.str') and g not in s.galloc:
            s.fake = getattr(s, 'fake', 0) + 1
            s.galloc[g] = 0xDEAD0000 + 0x100 * s.fake
            s.nomat = getattr(s, 'nomat', set()); s.nomat.add(g)
        if g not in s.galloc:
            ty = s.M.globals[g][0]
            sz, al = s.layout(ty)
            al = max(al, 8)
            s.gtop = (s.gtop + al - 1) // al * al
            s.galloc[g] = s.gtop
            s.gtop += max(sz, 1)
        return s.galloc[g]

    def gep_expr(s, bty, base, idx, resty):
        (t0, i0, v0) = idx[0]
        sz, _ = s.layout(bty)
        e = base
        if not (getattr(v0, 'kind', None) == 'int' and v0.data == 0):
            e = '(%s + (uint64_t)((int64_t)%s * %d))' % (e, s.signed(t0, i0), sz)
        cur = bty
        for (t, i, v) in idx[1:]:
            rt = s.resolve(cur)
            if isinstance(rt, StructTy):
                e = '(%s + %dULL)' % (e, s.field_off(rt, v.data)); cur = rt.fields[v.data]
            else:
                esz, _ = s.layout(rt.el)
                e = '(%s + (uint64_t)((int64_t)%s * %d))' % (e, s.signed(t, i), esz); cur = rt.el
        return e

    def cast_expr(s, op, sty_, x, dty):
        rs = s.resolve(sty_); rd = s.resolve(dty)
        if op == 'bitcast' and isinstance(rs, PtrTy): return x
        if op == 'ptrtoint': return s.norm(dty, x)
        if op == 'inttoptr': return '((uint64_t)%s)' % x
        return Emitter.cast_expr(s, op, sty_, x, dty)

    def icmp_expr(s, pred, ty, a, b):
        if isinstance(s.resolve(ty), PtrTy):
            ty = IntTy(64)
        return Emitter.icmp_expr(s, pred, ty, a, b)

    def emit_inst(s, inst, curlab):
        if inst[0] == 'phi': return
        _, dest, op, tk, ln = inst
        B = s.body
        if op == 'load':
            atomic = tk.accept('atomic'); tk.accept('volatile')
            ty = parse_type(tk); tk.expect(','); p = parse_typed_value(tk)
            sz, _ = s.layout(ty)
            rt = s.resolve(ty)
            if not isinstance(rt, (IntTy, PtrTy)): raise NotImplementedError("flat load of " + ln)
            if atomic: B.append('  IR2C_ATOMIC_BEGIN();')
            s.setreg(dest, ty, s.norm(rt, 'ir2c_ld%d(%s)' % (sz, s.val(p))) if isinstance(rt, IntTy) else 'ir2c_ld8(%s)' % s.val(p))
            if atomic: B.append('  IR2C_ATOMIC_END();')
            return
        if op == 'store':
            atomic = tk.accept('atomic'); tk.accept('volatile')
            v = parse_typed_value(tk); tk.expect(','); p = parse_typed_value(tk)
            sz, _ = s.layout(v.ty)
            if not isinstance(s.resolve(v.ty), (IntTy, PtrTy)): raise NotImplementedError("flat store of " + ln)
            if atomic: B.append('  IR2C_ATOMIC_BEGIN();')
            B.append('  ir2c_st%d(%s, %s);' % (sz, s.val(p), s.val(v)))
            if atomic: B.append('  IR2C_ATOMIC_END();')
            return
        if op == 'alloca':
            ty = parse_type(tk)
            sz, al = s.layout(ty)
            al = max(al, 8)
            s.stack_top = (s.stack_top + al - 1) // al * al
            s.setreg(dest, PtrTy(ty), '(IR2C_STACK_BASE + %dULL)' % s.stack_top)
            s.stack_top += max(sz, 1)
            return
        return Emitter.emit_inst(s, inst, curlab)

    def emit_intrinsic(s, dest, rty, name, args, ln):
        base = name[len('@llvm.'):]
        A = [s.val(a) for a in args]
        if base.startswith('memcpy.') or base.startswith('memmove.'):
            s.body.append('  ir2c_flat_memmove(%s, %s, %s);' % (A[0], A[1], A[2])); return
        if base.startswith('memset.'):
            s.body.append('  ir2c_flat_memset(%s, %s, %s);' % (A[0], A[1], A[2])); return
        return Emitter.emit_intrinsic(s, dest, rty, name, args, ln)

    def emit(s):
        M = s.M
        protos = []; fbodies = []
        for fn in M.forder:
            f = M.funcs[fn]
            if fn.startswith('@llvm.'): continue
            protos.append(s.proto(f) + ';')
        for fn in M.forder:
            f = M.funcs[fn]
            if f.defined: fbodies.append(s.emit_fn(f))
        # global initialisers -> byte stores
        init = ['void ir2c_init_globals(void) {']
        for g in list(s.galloc.keys()):
            ty, ini, is_const, linkage = M.globals[g]
            if ini is not None and g not in getattr(s, 'nomat', set()):
                s.init_bytes(init, s.galloc[g], ty, ini)
        init.append('}')
        for n in M.named_order: s.define_named(n)
        hdr = ['/* generated by ir2c (FLAT memory mode) */', '#ifndef IR2C_UNIT_H_%s' % s.unit, '#define IR2C_UNIT_H_%s' % s.unit,
               '#include <stdint.h>', '#include <stddef.h>',
               '#define IR2C_FLAT 1', '#include "ir2c_rt.h"', '#define IR2C_GLOBALS_END %dULL' % 0x10000]
        lay = ['/* layout: sizes of named types */']
        for n in M.named_order:
            try:
                if not isinstance(M.named[n], OpaqueTy):
                    lay.append('#define IR2C_SIZEOF_%s %d' % (s.sname(n), s.layout(M.named[n])[0]))
            except NotImplementedError:
                pass
        for g, a in s.galloc.items():
            lay.append('#define IR2C_GADDR_%s %dULL' % (cid(g), a))
        header = '\n'.join(hdr + s.forward_decls() + s.tydefs + lay + protos + ['void ir2c_init_globals(void);', '#endif']) + '\n'
        body = '\n'.join(['#include "%s.h"' % s.unit] + fbodies + init) + '\n'
        return header, body

    def init_bytes(s, out, addr, ty, v):
        rt = s.resolve(ty)
        if v.kind == 'cstr':
            for i, b in enumerate(v.data): out.append('  MEM[%d] = %d;' % (addr + i, b))
        elif v.kind in ('zero', 'undef'):
            pass
        elif isinstance(rt, ArrTy):
            esz, _ = s.layout(rt.el)
            for i, e in enumerate(v.data): s.init_bytes(out, addr + i * esz, rt.el, e)
        elif isinstance(rt, StructTy):
            for i, e in enumerate(v.data): s.init_bytes(out, addr + s.field_off(rt, i), rt.fields[i], e)
        else:
            sz, _ = s.layout(rt)
            out.append('  ir2c_st%d(%dULL, %s);' % (sz, addr, s.val(v)))

def main():
    src = open(sys.argv[1]).read()
    M = parse_module(src)
    cls = FlatEmitter if '--flat' in sys.argv else Emitter
    E = cls(M, ub_checks=('--ub-checks' in sys.argv))
    E.select_branch = '--flat' in sys.argv or '--select-branch' in sys.argv
    import os
    out = sys.argv[2]
    E.unit = os.path.basename(out)[:-2] if out.endswith('.c') else os.path.basename(out)
    header, body = E.emit()
    open(out, 'w').write(body)
    import json
    json.dump(getattr(E, 'loops_meta', {}), open((out[:-2] if out.endswith('.c') else out) + '.loops.json', 'w'))
    open(out[:-2] + '.h' if out.endswith('.c') else out + '.h', 'w').write(header)
    # function inventory for the evidence files
    if '--list' in sys.argv:
        for fn in M.forder:
            if M.funcs[fn].defined: print('%s\t%s' % (cid(fn), fn[1:].strip('"')))

if __name__ == '__main__':
    main()
