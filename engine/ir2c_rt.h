#ifndef IR2C_RT_H
#define IR2C_RT_H
#include <stdint.h>
#include <string.h>
#ifdef __CPROVER__
#define IR2C_UB(c, what) __CPROVER_assert((c), "UB: " what)
/* no do-while(0) here: CBMC counts every do-while as a loop, which would shift the loop numbering ir2c reports */
#define IR2C_TRAP() { ir2c_trap_hook(); __CPROVER_assume(0); }
#define IR2C_UNREACHABLE() { __CPROVER_assert(0, "UB: reached llvm unreachable"); __CPROVER_assume(0); }
#ifdef IR2C_NO_ATOMIC_SECTIONS   /* single-threaded harnesses whose event hooks call back into translated code (CBMC forbids nested atomic sections) */
#define IR2C_ATOMIC_BEGIN() ((void)0)
#define IR2C_ATOMIC_END() ((void)0)
#else
#define IR2C_ATOMIC_BEGIN() __CPROVER_atomic_begin()
#define IR2C_ATOMIC_END() __CPROVER_atomic_end()
#endif
_Bool nondet_bool(void);
#define IR2C_WEAK_CAS_OK() nondet_bool()
#else
#include <stdlib.h>
#include <assert.h>
#define IR2C_UB(c, what) assert((c) && what)
#define IR2C_TRAP() { ir2c_trap_hook(); abort(); }
#define IR2C_UNREACHABLE() abort()
#define IR2C_ATOMIC_BEGIN() ((void)0)
#define IR2C_ATOMIC_END() ((void)0)
#define IR2C_WEAK_CAS_OK() 1
#endif
void ir2c_trap_hook(void);
/* signed-overflow predicates for nsw arithmetic (64-bit and narrower operands, evaluated at operand width) */
#ifdef __CPROVER__
#define IR2C_SOVF_plus(a, b) __CPROVER_overflow_plus((a), (b))
#define IR2C_SOVF_minus(a, b) __CPROVER_overflow_minus((a), (b))
#define IR2C_SOVF_mult(a, b) __CPROVER_overflow_mult((a), (b))
#else
#define IR2C_SOVF_plus(a, b) ({ __typeof__(a) ir2c_r_; __builtin_add_overflow((a), (__typeof__(a))(b), &ir2c_r_); })
#define IR2C_SOVF_minus(a, b) ({ __typeof__(a) ir2c_r_; __builtin_sub_overflow((a), (__typeof__(a))(b), &ir2c_r_); })
#define IR2C_SOVF_mult(a, b) ({ __typeof__(a) ir2c_r_; __builtin_mul_overflow((a), (__typeof__(a))(b), &ir2c_r_); })
#endif
/* atomic-access event hooks (called inside the atomic section, BEFORE the access, with the memory order found in the IR).
 * The generated C is its own translation unit, so the hooks are functions the harness defines; -DIR2C_EVENTS turns them on. */
#ifdef IR2C_EVENTS
void ir2c_event_load(const void *p, const char *order);
void ir2c_event_store(const void *p, const char *order);
void ir2c_event_rmw(const void *p, const char *order);
void ir2c_event_stored(const void *p, const char *order);   /* after an atomic store, still inside its atomic section */
void ir2c_event_fence(const char *order);
#define IR2C_EVENT_LOAD(p, o) ir2c_event_load((p), (o))
#define IR2C_EVENT_STORE(p, o) ir2c_event_store((p), (o))
#define IR2C_EVENT_RMW(p, o) ir2c_event_rmw((p), (o))
#define IR2C_EVENT_STORED(p, o) ir2c_event_stored((p), (o))
#define IR2C_FENCE(o) ir2c_event_fence(o)
#else
#define IR2C_EVENT_LOAD(p, o) ((void)0)
#define IR2C_EVENT_STORE(p, o) ((void)0)
#define IR2C_EVENT_RMW(p, o) ((void)0)
#define IR2C_EVENT_STORED(p, o) ((void)0)
#define IR2C_FENCE(o) ((void)0)
#endif
#if defined(__CPROVER__) && !defined(IR2C_LIBC_MEM)
/* own memset/memcpy for lengths that are not compile-time constants: CBMC's built-in models turn a symbolic length
 * into array_replace/byte_update over the whole object (slow, and observed to disagree with a native run of the same
 * code for a memset whose length clang derived from pointer differences).  8-byte aligned requests go word-wise so
 * that uint64_t arrays are written at their own type. */
static inline void ir2c_memset(void *d, uint8_t c, uint64_t n) {
	if((__CPROVER_POINTER_OFFSET(d) & 7) == 0 && (n & 7) == 0) { uint64_t *p = (uint64_t *)d; uint64_t v = 0x0101010101010101ULL * c; for(uint64_t i = 0; i < n / 8; i++) p[i] = v; }
	else { uint8_t *p = (uint8_t *)d; for(uint64_t i = 0; i < n; i++) p[i] = c; }
}
static inline void ir2c_memcpy(void *d, const void *s, uint64_t n) {
	if((__CPROVER_POINTER_OFFSET(d) & 7) == 0 && (__CPROVER_POINTER_OFFSET(s) & 7) == 0 && (n & 7) == 0) { uint64_t *p = (uint64_t *)d; const uint64_t *q = (const uint64_t *)s; for(uint64_t i = 0; i < n / 8; i++) p[i] = q[i]; }
	else { uint8_t *p = (uint8_t *)d; const uint8_t *q = (const uint8_t *)s; for(uint64_t i = 0; i < n; i++) p[i] = q[i]; }
}
static inline void ir2c_memmove(void *d, const void *s, uint64_t n) {
	uint8_t *p = (uint8_t *)d; const uint8_t *q = (const uint8_t *)s;
	if(__CPROVER_same_object(d, s) && __CPROVER_POINTER_OFFSET(d) > __CPROVER_POINTER_OFFSET(s)) { for(uint64_t i = n; i > 0; i--) p[i - 1] = q[i - 1]; }
	else { for(uint64_t i = 0; i < n; i++) p[i] = q[i]; }
}
#define IR2C_MEMCPY(d, s, n) (__builtin_constant_p(n) ? (void)memcpy((d), (s), (n)) : ir2c_memcpy((d), (s), (n)))
#define IR2C_MEMMOVE(d, s, n) (__builtin_constant_p(n) ? (void)memmove((d), (s), (n)) : ir2c_memmove((d), (s), (n)))
#define IR2C_MEMSET(d, c, n) (__builtin_constant_p(n) ? (void)memset((d), (c), (n)) : ir2c_memset((d), (c), (n)))
#else
#define IR2C_MEMCPY(d, s, n) memcpy((d), (s), (n))
#define IR2C_MEMMOVE(d, s, n) memmove((d), (s), (n))
#define IR2C_MEMSET(d, c, n) memset((d), (c), (n))
#endif
static inline uint64_t ir2c_ctlz64(uint64_t x) { uint64_t n = 0; for(int i = 63; i >= 0; i--) { if((x >> i) & 1) break; n++; } return n; }
static inline uint32_t ir2c_ctlz32(uint32_t x) { uint32_t n = 0; for(int i = 31; i >= 0; i--) { if((x >> i) & 1) break; n++; } return n; }
static inline uint64_t ir2c_cttz64(uint64_t x) { uint64_t n = 0; for(int i = 0; i < 64; i++) { if((x >> i) & 1) break; n++; } return n; }
static inline uint64_t ir2c_ctpop64(uint64_t x) { uint64_t n = 0; for(int i = 0; i < 64; i++) n += (x >> i) & 1; return n; }
static inline uint32_t ir2c_fshl32(uint32_t a, uint32_t b, uint32_t c) { c &= 31; return c ? (a << c) | (b >> (32 - c)) : a; }
static inline uint32_t ir2c_fshr32(uint32_t a, uint32_t b, uint32_t c) { c &= 31; return c ? (a << (32 - c)) | (b >> c) : b; }
static inline uint64_t ir2c_fshl64(uint64_t a, uint64_t b, uint64_t c) { c &= 63; return c ? (a << c) | (b >> (64 - c)) : a; }
static inline uint64_t ir2c_fshr64(uint64_t a, uint64_t b, uint64_t c) { c &= 63; return c ? (a << (64 - c)) | (b >> c) : b; }
#endif
#if defined(IR2C_FLAT) && defined(IR2C_USE_REGIONS)
#include "ir2c_regions.h"
#elif defined(IR2C_FLAT)
#ifndef IR2C_MEMSZ
#define IR2C_MEMSZ 4096
#endif
#ifndef IR2C_STACK_BASE
#define IR2C_STACK_BASE 0x400ULL
#endif
extern uint8_t MEM[IR2C_MEMSZ];
#ifndef IR2C_ACCESS
#define IR2C_ACCESS(a, n, w) ((void)0)
#endif
#ifdef __CPROVER__
#define IR2C_INB(a, n) __CPROVER_assert((a) <= IR2C_MEMSZ - (n), "flat memory access in bounds")
#else
#define IR2C_INB(a, n) assert((a) <= IR2C_MEMSZ - (n))
#endif
static inline uint8_t  ir2c_ld1(uint64_t a) { IR2C_INB(a, 1); IR2C_ACCESS(a, 1, 0); return MEM[a]; }
static inline uint16_t ir2c_ld2(uint64_t a) { IR2C_INB(a, 2); IR2C_ACCESS(a, 2, 0); return (uint16_t)(MEM[a] | (uint16_t)MEM[a+1] << 8); }
static inline uint32_t ir2c_ld4(uint64_t a) { IR2C_INB(a, 4); IR2C_ACCESS(a, 4, 0); return (uint32_t)MEM[a] | (uint32_t)MEM[a+1] << 8 | (uint32_t)MEM[a+2] << 16 | (uint32_t)MEM[a+3] << 24; }
static inline uint32_t ir2c_ld4_raw(uint64_t a) { return (uint32_t)MEM[a] | (uint32_t)MEM[a+1] << 8 | (uint32_t)MEM[a+2] << 16 | (uint32_t)MEM[a+3] << 24; }
static inline uint64_t ir2c_ld8(uint64_t a) { IR2C_INB(a, 8); IR2C_ACCESS(a, 8, 0); return (uint64_t)ir2c_ld4_raw(a) | (uint64_t)ir2c_ld4_raw(a + 4) << 32; }
static inline void ir2c_st1(uint64_t a, uint8_t v) { IR2C_INB(a, 1); IR2C_ACCESS(a, 1, 1); MEM[a] = v; }
static inline void ir2c_st2(uint64_t a, uint16_t v) { IR2C_INB(a, 2); IR2C_ACCESS(a, 2, 1); MEM[a] = v; MEM[a+1] = v >> 8; }
static inline void ir2c_st4(uint64_t a, uint32_t v) { IR2C_INB(a, 4); IR2C_ACCESS(a, 4, 1); for(int i = 0; i < 4; i++) MEM[a+i] = v >> (8*i); }
static inline void ir2c_st8(uint64_t a, uint64_t v) { IR2C_INB(a, 8); IR2C_ACCESS(a, 8, 1); for(int i = 0; i < 8; i++) MEM[a+i] = v >> (8*i); }
static inline void ir2c_flat_memmove(uint64_t d, uint64_t s, uint64_t n) { for(uint64_t i = 0; i < n; i++) { uint64_t k = d <= s ? i : n - 1 - i; ir2c_st1(d + k, ir2c_ld1(s + k)); } }
static inline void ir2c_flat_memset(uint64_t d, uint8_t c, uint64_t n) { for(uint64_t i = 0; i < n; i++) ir2c_st1(d + i, c); }
#endif
#ifndef IR2C_VA_COPY
#define IR2C_VA_COPY(d, s) memcpy((void*)(d), (const void*)(s), 24)
#define IR2C_VA_END(a) ((void)0)
#endif
#ifndef IR2C_PTR2INT
#define IR2C_PTR2INT(p) ((uintptr_t)(p))
#define IR2C_INT2PTR(x) ((void*)(uintptr_t)(x))
#endif
