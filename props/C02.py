# C02 — slab pool: realloc/free semantics, content stability, bounded footprint (same harness as C01: harness/c01_slab.c)
import os, sys, importlib.util
HERE = os.path.dirname(__file__)
sys.path.insert(0, os.path.join(HERE, '..', 'engine'))
spec = importlib.util.spec_from_file_location('C01_shared', os.path.join(HERE, 'C01.py')); C01 = importlib.util.module_from_spec(spec); spec.loader.exec_module(C01)
UNITS = C01.UNITS
LEVEL = C01.LEVEL; TECHNIQUE = C01.TECHNIQUE; FUNCTION_PATTERNS = C01.FUNCTION_PATTERNS; VALIDATE_VECTORS = 100
def validation_queries(tier): return C01.validation_queries(tier)[:2]
def queries(tier):   # scenarios that free, deallocate or realloc (in place, moving, across the small/large threshold, null and zero cases), no faults
    return C01.select(tier, lambda t: not t['lockset'] and not t['preempt'] and not t['faults'] and any(o in (1, 2, 3) for o in t['ops']) and t['pol'] in (1, 3))
ASSUMPTIONS = C01.ASSUMPTIONS + ['footprint clause: slabs mapped per class <= ceil(peak live blocks of the class / blocks per slab), asserted from harness counters after every operation']
OUTSIDE = C01.OUTSIDE + ['arbitrarily long alloc/free churn (bounded histories only)']
