# C18 — bitset, array, PRNGs and sort agree with their standard references
import os, sys
sys.path.insert(0, os.path.join(os.path.dirname(__file__), '..', 'engine'))
from run import Q, Unit

NS_QUICK = [1, 12, 64, 65, 130]
NS_THOROUGH = [1, 2, 12, 45, 63, 64, 65, 100, 127, 128, 129, 130, 191, 192, 193, 253, 256, 257]
NOPS = 33
OPNAMES = ['ctor0', 'ctor_ull', 'set_all', 'reset_all', 'flip_all', 'set', 'reset', 'flip', 'test', 'index_const', 'ref_read', 'ref=bool', 'ref=ref(other)',
           'ref=ref(same)', '~ref', 'ref.flip', '&=', '|=', '^=', '~', '&', '|', '^', '<<=', '>>=', '<<', '>>', 'count', 'any', 'all', 'none', '==', 'size']
def _ns(tier): return NS_QUICK if tier == 'quick' else NS_THOROUGH
W = os.path.join(os.path.dirname(__file__), '..', 'wrap')
_bs_units = {n: Unit('c18_bitset_%d' % n, cxxflags=['-DVP_NBITS=%d' % n], src=os.path.join(W, 'c18_bitset.cpp')) for n in sorted(set(NS_QUICK + NS_THOROUGH))}
MISC = Unit('c18_misc')
UNITS = []

def queries(tier):
    qs = []
    UNITS[:] = [_bs_units[n] for n in _ns(tier)] + [MISC]
    for n in _ns(tier):
        nw = (n + 63) // 64
        for op in range(NOPS):
            defs = {'NB': n, 'NW': nw, 'UNIT_H': '"c18_bitset_%d.h"' % n, 'OP': op}
            b = {'N': n, 'words': nw, 'operation': OPNAMES[op], 'pre-state': 'arbitrary valid contents of the three bitsets involved (bits >= N clear)',
                 'arguments': 'any position < N, any 64-bit shift amount, any 64-bit constructor value'}
            qs.append(Q('bitset%d.%s' % (n, OPNAMES[op]), 'c18_bitset_%d' % n, 'c18_bitset.c', 'harness', defs=defs, unwind=nw + 2, unwind_fn=[(r'^(harness|bit|havoc_box|same|check_frame)$', n + 1), (r'^ir2c_ct', 65)], bounds=b,
                        timeout=600, mem_gb=3, inline_witness=True, witness='any',
                        what='bitset<%d> %s from an arbitrary valid state equals the bit-array reference (std::bitset semantics); guard words and bits >= N untouched' % (n, OPNAMES[op])))
    for op in range(19):
        qs.append(Q('array.op%d' % op, 'c18_misc', 'c18_misc.c', 'harness_array', defs={'OP': op}, unwind=9, inline_witness=True, witness='any', timeout=300, mem_gb=2,
                    bounds={'array': 'frg::array<int,4> with arbitrary contents between guard words', 'op': op},
                    what='array<int,4> accessor/iteration/comparison/concat #%d against a plain C array' % op))
    qs.append(Q('pcg.step', 'c18_misc', 'c18_misc.c', 'harness_pcg_step', unwind=3, solver='z3', inline_witness=True, timeout=300, mem_gb=3,
                bounds={'state': 'arbitrary 64-bit state and increment'}, what='one pcg_basic32 draw from an arbitrary state == reference pcg32_random_r (output and new state)'))
    qs.append(Q('pcg.seed', 'c18_misc', 'c18_misc.c', 'harness_pcg_seed', unwind=3, solver='z3', inline_witness=True, timeout=300, mem_gb=3,
                bounds={'seed': 'any 64-bit', 'seq': 'any 64-bit', 'prior state': 'arbitrary'}, what='pcg_basic32 constructor and seed() == reference pcg32_srandom_r'))
    bnds = [1, 2, 0x80000001] if tier == 'quick' else [1, 2, 3, 5, 6, 7, 10, 100, 1000, 65536, 0x7FFFFFFF, 0x80000000, 0x80000001, 0xAAAAAAAB, 0xFFFFFFFE, 0xFFFFFFFF]
    PCG_HARD = (5, 6, 7, 1000, 0xAAAAAAAB)     # urem by these constants: z3 needed 277-334 s (6, 1000) or gave no verdict in 600 s (5, 7, 0xAAAAAAAB): optional
    for b in bnds:
        qs.append(Q('pcg.bounded.%u' % b, 'c18_misc', 'c18_misc.c', 'harness_pcg_bounded', defs={'PCG_BOUND': '%uu' % b, 'PCG_DRAWS': 2}, unwind=4, solver='z3', inline_witness=True,
                    timeout=900 if b not in PCG_HARD else 600, optional=(b in PCG_HARD), mem_gb=3, bounds={'bound': b, 'state': 'arbitrary 64-bit state and increment', 'raw draws until acceptance': '<= 2 (rejection probability < 2^-1 per draw in the worst case bound=2^31+1)'},
                    what='pcg_basic32 bounded draw with bound=%u: inside [0,bound), equals reference pcg32_boundedrand_r, consumes exactly the rejected+accepted draws' % b))
    qs.append(Q('mt.next.notwist', 'c18_misc', 'c18_misc.c', 'harness_mt_next', unwind=626, inline_witness=True, timeout=900, mem_gb=6,
                bounds={'state': 'arbitrary 624 words', 'position': 'any 0..623'}, what='mt19937 draw without regeneration == reference tempering, state unchanged'))
    qs.append(Q('mt.next.twist', 'c18_misc', 'c18_misc.c', 'harness_mt_next', defs={'MT_TWIST': 1}, unwind=626, inline_witness=True, timeout=900, mem_gb=6,
                bounds={'state': 'arbitrary 624 words', 'position': '624 (regeneration)'}, what='mt19937 draw with state regeneration == reference genrand_int32 twist + tempering, whole new state compared'))
    # quick: concrete seeds only (symex folds the 623-step multiply chain; a symbolic seed costs 100-250 s even with 4 symbolic bits)
    bits = 0 if tier == 'quick' else 8
    for hi in ([0, 1, 5489, 0x7FFFFFFF, 0x80000000, 0xFFFFFFFF] if tier == 'quick' else [0, 5489, 0x7FFFFFFF, 0x80000000, 0xFFFFFFFF]):
        qs.append(Q('mt.seed.%08x' % hi, 'c18_misc', 'c18_misc.c', 'harness_mt_seed', defs={'MT_SEED_HIGH': '0x%xu' % hi, 'MT_SEED_BITS': bits}, unwind=626, inline_witness=True,
                    timeout=1500, mem_gb=6, bounds={'seed': 'high bits of 0x%08x, %d low bits symbolic (full 32-bit symbolic seed: no verdict in 200 s on cadical, z3, cvc5, cvc5 bv-as-int)' % (hi, bits),
                                                    'prior state': 'arbitrary position and boundary words'},
                    what='mt19937::seed / default constructor: all 624 words follow init_genrand, position reset to N'))
    maxn = 4 if tier == 'quick' else 6
    for n in range(0, maxn + 1):
        qs.append(Q('sort.len%d' % n, 'c18_misc', 'c18_misc.c', 'harness_sort', defs={'SORT_N': maxn, 'SORT_LEN': n}, unwind=maxn + 3, inline_witness=True, timeout=900, mem_gb=3,
                    bounds={'length': n, 'elements': 'arbitrary 32-bit ints', 'comparators': '< and >'},
                    what='insertion_sort on every int array of length %d: permutation, no comp(earlier, later), no write outside the range' % n))
    return qs

def validation_queries(tier):
    return [Q('bitset65.validate', 'c18_bitset_65', 'c18_bitset.c', 'harness', defs={'NB': 65, 'NW': 2, 'UNIT_H': '"c18_bitset_65.h"'}),
            Q('array.validate', 'c18_misc', 'c18_misc.c', 'harness_array'),
            Q('pcg.validate', 'c18_misc', 'c18_misc.c', 'harness_pcg_seed'),
            Q('pcgstep.validate', 'c18_misc', 'c18_misc.c', 'harness_pcg_step'),
            Q('mt.validate', 'c18_misc', 'c18_misc.c', 'harness_mt_seed'),
            Q('sort.validate', 'c18_misc', 'c18_misc.c', 'harness_sort', defs={'SORT_N': 5})]
VALIDATE_VECTORS = 60
LEVEL = 'model_checking'
TECHNIQUE = 'bounded model checking (CBMC; SAT cadical / SMT z3) of the clang-lowered real code; one step from an arbitrary valid state (inductive) per operation'
FUNCTION_PATTERNS = [r'frg::', r'^bs\d+_', r'^arr_', r'^pcg_', r'^mt_', r'^sort_']
ASSUMPTIONS = [
    'bitset: pre-state = arbitrary words with the bits at or beyond N clear (the representation invariant, re-established by every operation: checked); positions < N',
    'pcg bounded draw: concrete bound family, acceptance within 2 raw draws; mt19937::seed: only the low 4 (quick) / 8 (thorough) seed bits symbolic per high part',
    'clang-14 -O1 lowering is the semantics checked; the ir2c translation is validated differentially (generated C vs g++ build of the real headers) on every run',
]
OUTSIDE = ['bitset sizes N other than the listed instantiations', 'set/test/flip/operator[] with pos >= N (precondition of std::bitset as well)',
           'pcg bounded draws with a symbolic bound (no verdict in 200 s on cadical/z3/cvc5: two 32-bit dividers with symbolic divisor) and draws needing more than 2 rejections',
           'mt19937::seed for seeds outside the listed high parts x symbolic low bits', 'insertion_sort beyond length 4 (quick) / 6 (thorough), iterator types other than int*']
