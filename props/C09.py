# C09 — radix tree: exact map over all 64-bit keys, stable addresses, ordered iteration (sequential semantics)
import os, sys
sys.path.insert(0, os.path.join(os.path.dirname(__file__), '..', 'engine'))
from run import Q, Unit
UNITS = [Unit('c09')]
def _q(name, K, defs, what, tier, timeout=1800, mem=12, optional=False):
    d = {'K': K}; d.update(defs)
    depth = K + 2      # tree depth <= number of inner nodes + 1 <= K + 1 (each operation creates at most one inner node)
    return Q(name, 'c09', 'c09_radix.c', 'harness', defs=d, unwind=max(K + 2, 6),
             unwind_kind=[(r'^rx_destroy', r'^other$', 4 * K + 4), (r'rcu_radixtree|^rx_', r'^(const:\d+|counted)$', 17), (r'rcu_radixtree|^rx_', r'^other$', depth + 1)],
             unwind_fn=[(r'^ir2c_mem', 200)],
             inline_witness=True, witness='any', timeout=timeout, mem_gb=mem, optional=optional,
             bounds={'operations': K, 'keys': 'arbitrary 64-bit' + (', first two keys first differ at nibble %s' % defs['NIBBLE'] if 'NIBBLE' in defs else ', first two keys in one leaf' if 'SAMELEAF' in defs else ''),
                     'ops': 'find_or_insert / insert / erase (solver-chosen; concrete in the iter.* queries), structure invariant after every op, then find(arbitrary key), iteration (iter.* queries), destructor',
                     'descent loops': depth + 1, 'nibble loops': 17, 'value type': '1 byte'},
             what=what)
KEYSETS = [   # iteration order is checked on concrete key families (values symbolic): the 16-way link scans of begin()/operator++ only fold for concrete keys
    ('two-leaves-desc', [0x1100, 0x1000], [0, 0]), ('three-split-mid', [0x1000, 0x1100, 0x1010], [0, 0, 0]), ('extremes', [0xFFFFFFFFFFFFFFFF, 0, 0x8000000000000000], [0, 0, 0]),
    ('dense-leaf', [0x25, 0x21, 0x2F], [0, 0, 0]), ('root-split-then-deep', [0x1000000000000000, 0x2000000000000000, 0x1000000000000001], [0, 0, 0]),
    ('erase-middle', [0x30, 0x10, 0x20, 0x20], [0, 0, 0, 2]), ('erase-whole-leaf', [0x100, 0x200, 0x100, 0x300], [0, 0, 2, 0]), ('reinsert', [0x7, 0x7, 0x7, 0x9], [0, 2, 0, 0]),
]
def queries(tier):
    qs = [_q('hist.k1', 1, {'NO_ITER': 1}, 'one insertion of an arbitrary key, probe, structure invariant, destruction', tier, mem=6)]
    for (nm, ks, os_) in KEYSETS:
        qs.append(_q('iter.' + nm, len(ks), {'KEYSET': '{' + ','.join('0x%xULL' % k for k in ks) + '}', 'OPSET': '{' + ','.join(str(o) for o in os_) + '}'},
                     'ordered iteration + all other checks on the concrete key family %s with ops %s' % (['0x%x' % k for k in ks], os_), tier, mem=6))
    qs.append(_q('hist.k2.sameleaf', 2, {'SAMELEAF': 1, 'NO_ITER': 1}, 'two operations, second key in the leaf of the first (direct leaf slot case)', tier))
    nibs = [0, 1, 8, 14] if tier == 'quick' else list(range(15))
    for j in nibs:
        qs.append(_q('hist.k2.nibble%d' % j, 2, {'NIBBLE': j, 'NO_ITER': 1}, 'two insertions whose keys first differ at nibble %d (prefix split at depth %d%s)' % (j, j, ', the root split at depth 0' if j == 0 else ''), tier))
    if tier == 'thorough':
        qs.append(_q('hist.k2.any', 2, {'NO_ITER': 1}, 'two arbitrary operations (all three insertion cases, erase, re-insert)', tier))
        qs.append(_q('hist.k3.sameleaf', 3, {'SAMELEAF': 1, 'NO_ITER': 1}, 'three operations, first two keys in one leaf', tier, timeout=3000, mem=16, optional=True))
        for j in (0, 7, 14):
            qs.append(_q('hist.k3.nibble%d' % j, 3, {'NIBBLE': j, 'NO_ITER': 1}, 'three operations, first two keys split at nibble %d, third arbitrary (split above/below/inside, erase, re-insert)' % j, tier, timeout=3600, mem=20, optional=True))
    else:
        qs.append(_q('hist.k2.any', 2, {'NO_ITER': 1}, 'two arbitrary operations (all three insertion cases, erase, re-insert), probe, destruction (iteration in the pinned queries)', tier))
    return qs
def validation_queries(tier):
    return [Q('script.validate', 'c09', 'c09_radix.c', 'harness', defs={'K': 3})]
VALIDATE_VECTORS = 300
LEVEL = 'model_checking'
TECHNIQUE = 'CBMC bounded model checking of the clang-lowered code: bounded operation histories over arbitrary 64-bit keys with a reference map, per-nibble case split; UB assertions from the IR (shift widths)'
FUNCTION_PATTERNS = [r'frg::rcu_radixtree', r'^rx_']
ASSUMPTIONS = [
    'value type is one byte (uint8_t): with wider values every entry access is a type-punned access into aligned_storage and the query does not finish; the tree code does not depend on the value width',
    'allocator stub hands out pre-declared node objects chosen by (operation number, node kind); allocation never fails',
    'erase() only on present keys (documented precondition, asserted by the library)',
    'sequential use (C10 covers readers concurrent with one writer)',
]
OUTSIDE = ['ordered iteration for key sets other than the listed concrete families (begin()/operator++ scan 16 links per level: with symbolic keys symex did not finish in 25 min); the parent-pointer/prefix/slot structure those scans rely on IS checked for arbitrary keys', 'histories longer than K operations (K=2 quick, 3 thorough)', 'value types wider than one byte', 'what erase owes a removed value (DESIGN.md section 4 C13/C16: the value destructor never runs for erased entries; reported as a design limitation)']
