# C11 — QS domain: callbacks run once, only after a full grace period, and do run
import os, sys
sys.path.insert(0, os.path.join(os.path.dirname(__file__), '..', 'engine'))
from run import Q, Unit
UNITS = [Unit('c11')]
def _q(name, entry, defs, what, bounds, timeout=1800, mem=10, optional=False, unwind=None):
    k = defs.get('K', 4)
    return Q(name, 'c11', 'c11_qs.c', entry, defs=defs, unwind=unwind or max(k + 1, 6), checks='std', inline_witness=True, witness='any',
             unwind_kind=[(r'^agent_await$', r'other', 3), (r'^agent_barrier$', r'other', 6), (r'^agent_run$', r'other', defs.get('NB', 1) + 2)],
             ignore=r'^agent_(await|barrier)\.unwind\.0$',     # the compare_exchange_weak retry loop: spurious failures are unbounded in principle; explored up to the loop bound, then cut (stated assumption)
             timeout=timeout, mem_gb=mem, optional=optional, bounds=bounds, what=what)
def queries(tier):
    qs = []
    cfg = [(2, 1, 4), (2, 2, 4), (3, 1, 4)] if tier == 'quick' else [(2, 1, 6), (2, 2, 5), (3, 1, 5), (3, 2, 4), (2, 1, 7)]
    for (na, nb, k) in cfg:
        b = {'agents': na, 'barriers': nb, 'steps': k, 'ops per step': 'quiescent_state / await_barrier / run / offline / online, agent and barrier solver-chosen', 'spurious CAS failures': '<= 2 per call (loop bound 3, unwinding assertion)'}
        qs.append(_q('sched.a%d.b%d.k%d' % (na, nb, k), 'harness', {'NA': na, 'NB': nb, 'K': k},
                     'every schedule of %d whole operations over %d agents and %d barrier(s): callback at most once, only in the registering agent\'s run(), only after the ghost grace period; node untouched after the callback starts; mutex balanced' % (k, na, nb),
                     b, optional=(k >= 6), timeout=3000 if k >= 6 else 1800, mem=14 if k >= 6 else 10))
    lcfg = [(2, 1, 2), (3, 1, 2), (2, 2, 3)] if tier == 'quick' else [(2, 1, 4), (3, 1, 3), (2, 2, 4), (3, 2, 3)]
    for (na, nb, k) in lcfg:
        b = {'agents': na, 'barriers': nb, 'symbolic prefix steps': k, 'rounds': 4}
        qs.append(_q('live.a%d.b%d.k%d' % (na, nb, k), 'harness', {'NA': na, 'NB': nb, 'K': k, 'LIVENESS': 1, 'ROUNDS': 4},
                     'bounded liveness: after any %d-step prefix, 4 rounds of (all online agents quiescent_state; all agents run) fire every registered callback' % k, b, timeout=3000, mem=14, unwind=max(k + 1, 6)))
    # one-preemption interleavings at atomic-access granularity (no CBMC threads): outer op kind x preempting op kind pinned per query
    OPN = {0: 'qs', 1: 'await', 2: 'run', 3: 'offline', 4: 'online'}
    pairs = [(4, 0), (0, 4), (0, 0), (3, 0), (1, 0), (0, 1)] if tier == 'quick' else [(o, p) for o in range(5) for p in range(5) if not (o == 2 and p == 2)]
    for (o, p) in pairs:
        k1, k2 = (3, 3) if tier == 'quick' else (3, 3)
        qs.append(Q('fine.%s-preempted-by-%s' % (OPN[o], OPN[p]), 'c11', 'c11_qs.c', 'harness_fine2',
                    defs={'NA': 3, 'NON': 2, 'NB': 2 if (o, p) == (1, 1) else 1, 'K1': k1, 'K2': k2, 'OUT_OP': o, 'PRE_OP': p, 'FINE2': 1, 'IR2C_EVENTS': 1, 'IR2C_NO_ATOMIC_SECTIONS': 1},
                    unwind=6, checks='std', inline_witness=True, witness='any', ignore=r'^agent_(await|barrier)\.unwind\.0$',
                    unwind_kind=[(r'^agent_await$', r'other', 3), (r'^agent_barrier$', r'other', 6), (r'^agent_run$', r'other', 3)],
                    recursion=[(r'quiescent_state|online|offline|^agent_|^op_do$|^do_qs$|^do_run$|^maybe_preempt$|^ir2c_event', 2)],
                    timeout=3000, mem_gb=14, optional=(tier == 'quick' and (o, p) not in ((4, 0), (0, 4), (0, 0))),
                    bounds={'agents': 3, 'initially online': 2, 'prefix steps': k1, 'suffix steps': k2, 'outer operation': OPN[o], 'preempting operation': OPN[p],
                            'preemption point': 'any of the first 12 atomic accesses / lock operations of the outer call'},
                    what='%s of one agent preempted at any atomic access by a whole %s of another agent, inside any 3-step prefix / 3-step suffix: callback only after the ghost grace period, at most once, mutex balanced' % (OPN[o], OPN[p])))
    qs.append(_q('barrier.single', 'harness_barrier1', {'NA': 1, 'NB': 1, 'K': 1}, 'quiescent_barrier() with one agent returns, after two period advances', {'agents': 1, 'prior quiescent states': '0..3'}, unwind=6))
    return qs
def validation_queries(tier):
    return [Q('sched.validate', 'c11', 'c11_qs.c', 'harness', defs={'NA': 3, 'NB': 2, 'K': 12}), Q('live.validate', 'c11', 'c11_qs.c', 'harness', defs={'NA': 2, 'NB': 2, 'K': 6, 'LIVENESS': 1})]
VALIDATE_VECTORS = 300
LEVEL = 'model_checking'
TECHNIQUE = 'CBMC bounded model checking of the clang-lowered code: solver-chosen schedules of whole operations with ghost grace-period sets, use-after-callback via freed node objects, bounded liveness by forced rounds'
FUNCTION_PATTERNS = [r'frg::', r'^agent_', r'^dom_', r'^node_']
ASSUMPTIONS = [
    'operations are atomic steps here (whole-operation granularity); interleavings inside an operation and the memory orders are not covered by this check',
    'callers respect the documented preconditions: online() only when offline, offline() only when online, not while barriers of that agent are pending and not while the agent holds a deferred period (library TODO assertion); await_barrier with a node that is not currently registered',
    'compare_exchange_weak may fail spuriously at most twice per call (loop bound, checked by unwinding assertions)',
    'ghost model: an agent counts as having passed a quiescent state when quiescent_state() returned or it went offline after the registration',
]
OUTSIDE = ['interleavings in which BOTH calls are preempted by each other more than once, and the happens-before clause (relaxed ack counter): not decided here (fine.* queries explore one preemption of one call by a whole call of another agent)', 'more than 3 agents / 2 barriers / K steps', 'quiescent_barrier with several agents (it spins until others act)', 'liveness beyond the forced-round scenario (no fairness model)']
