# C13 — sequence containers equal their abstract sequence after any operation sequence
# (+ the container part of C16: the same histories with T=tracked and the tracking allocator end in "destroy; vp_end()"; see queries_c16)
import os, sys
sys.path.insert(0, os.path.join(os.path.dirname(__file__), '..', 'engine'))
from run import Q, Unit
VERIF = os.path.dirname(os.path.dirname(os.path.abspath(__file__)))
SEQ = os.path.join(VERIF, 'wrap', 'c13_seq.cpp')
LST = os.path.join(VERIF, 'wrap', 'c13_list.cpp')
CONTS = {'vec': 1, 'sv2': 2, 'sv4': 3, 'dyn': 4, 'stk': 5}
CONT_NAME = {'vec': 'frg::vector<T,A>', 'sv2': 'frg::small_vector<T,2,A>', 'sv4': 'frg::small_vector<T,4,A>', 'dyn': 'frg::dyn_array<T,A>', 'stk': 'frg::stack<T,A>'}
TN = {0: 'int', 1: 'trk'}
def uname(c, trk): return 'c13_%s_%s' % (c, TN[trk])
UNITS = [Unit(uname(c, t), cxxflags=['-DC13_CONT=%d' % n, '-DC13_TRK=%d' % t], src=SEQ) for c, n in CONTS.items() for t in (0, 1)] + \
        [Unit('c13_list_%s' % TN[t], cxxflags=['-DC13_TRK=%d' % t], src=LST) for t in (0, 1)] + [Unit('c13_ilist')]

# ---------------------------------------------------------------- operation codes of harness/c13_seq.c (enum order)
OPS = ['PUSH_C', 'PUSH_M', 'PUSH_BACK_C', 'PUSH_BACK_M', 'EMPLACE', 'POP', 'RESIZE', 'RESIZE_C', 'RESIZE_M', 'RESIZE_I', 'CLEAR', 'DETACH', 'SET',
       'COPY_B', 'ASSIGN_A_B', 'ASSIGN_B_A', 'SELF_ASSIGN', 'MOVE_B', 'MASSIGN_A_B', 'MASSIGN_B_A', 'SWAP', 'CTOR_B', 'DTOR_B', 'PUSH_B', 'CTORN_A', 'CTORN_B',
       'CTORDEF_A', 'CTORDEF_B']
O = {n: i for i, n in enumerate(OPS)}

# ---------------------------------------------------------------- shape model (used ONLY to choose prefixes that reach distinct shapes and the
# lengths worth offering; the prefixes are executed by the real code, a wrong model costs diversity, never soundness)
class Shape:
    """(size, capacity) of A and of B (None = B does not exist); growth policy of the library as read from the source"""
    def __init__(self, kind):
        self.kind = kind; self.n0 = {'vec': 0, 'stk': 0, 'sv2': 2, 'sv4': 4, 'dyn': 0}[kind]
        self.A = (0, self.n0); self.B = None; self.peak = 0        # peak: largest size any container had along the prefix
    def key(self): return (self.A, self.B)
    def grow(self, st, need):
        s, c = st
        return (s, c) if need <= c else (s, 2 * need)
    def fresh_copy(self, st):
        if self.kind == 'dyn': return (st[0], st[0])
        s, c = self.grow((0, self.n0), st[0]); return (st[0], c)
    def apply(self, tok):
        """tok: script token; returns the operation code for the harness or None if the token is not applicable in this shape"""
        k = self.kind; A = self.A; B = self.B
        if tok == 'push':
            if k == 'dyn': return None
            s, c = self.grow(A, A[0] + 1); self.A = (s + 1, c); return O['PUSH_C'] if k == 'stk' else O['PUSH_BACK_C']
        if tok == 'pop':
            if k == 'dyn' or A[0] == 0: return None
            self.A = (A[0] - 1, A[1]); return O['POP']
        if tok.startswith('resize'):
            if k not in ('vec', 'sv2', 'sv4'): return None
            n = int(tok[6:]); s, c = self.grow(A, n); self.A = (n, c); return O['RESIZE'] + 100 * n
        if tok == 'clear':
            if k != 'vec': return None
            self.A = (0, A[1]); return O['CLEAR']
        if tok == 'copyB':
            if B is not None: return None
            self.B = self.fresh_copy(A); return O['COPY_B']
        if tok == 'moveB':
            if B is not None: return None
            self.B = A; self.A = (0, self.n0); return O['MOVE_B']
        if tok == 'swap':
            if B is None or k == 'stk': return None
            self.A, self.B = B, A; return O['SWAP']
        if tok == 'ctorB':
            if B is not None: return None
            self.B = (0, self.n0); return O['CTOR_B']
        if tok == 'dtorB':
            if B is None: return None
            self.B = None; return O['DTOR_B']
        if tok == 'pushB':
            if B is None or k == 'dyn': return None
            s, c = self.grow(B, B[0] + 1); self.B = (s + 1, c); return O['PUSH_B']
        if tok == 'assignAB':
            if B is None or k in ('sv2', 'sv4'): return None
            self.A = self.fresh_copy(B); return O['ASSIGN_A_B']
        if tok == 'massignAB':
            if B is None or k in ('sv2', 'sv4'): return None
            self.A = B; self.B = (0, self.n0); return O['MASSIGN_A_B']
        if tok.startswith('ctornA'):
            if k != 'dyn': return None
            n = int(tok[6:]); self.A = (n, n); return O['CTORN_A'] + 100 * n
        if tok.startswith('ctornB'):
            if k != 'dyn' or B is not None: return None
            n = int(tok[6:]); self.B = (n, n); return O['CTORN_B'] + 100 * n
        if tok == 'ctordefA':
            if k not in ('dyn', 'stk'): return None
            self.A = (0, 0); return O['CTORDEF_A']
        raise ValueError(tok)

def run_script(kind, toks):
    sh = Shape(kind); codes = []
    for t in toks:
        c = sh.apply(t)
        if c is None: return None, None
        codes.append(c); sh.peak = max(sh.peak, sh.A[0], sh.B[0] if sh.B else 0)
    return sh, codes

# operation -> (class bit in the harness, containers that have it, precondition on the shape)
M_PUSH, M_POP, M_RESIZE, M_CLEAR, M_SET, M_COPY, M_MOVE, M_SWAP, M_B, M_CTORN = [1 << i for i in range(10)]
VS = ('vec', 'sv2', 'sv4'); ASG = ('vec', 'dyn', 'stk')
OPINFO = {
    'PUSH_C': (M_PUSH, ('vec', 'stk'), None), 'PUSH_M': (M_PUSH, ('vec',), None), 'PUSH_BACK_C': (M_PUSH, VS, None), 'PUSH_BACK_M': (M_PUSH, VS, None), 'EMPLACE': (M_PUSH, VS + ('stk',), None),
    'POP': (M_POP, VS + ('stk',), 'nonempty'), 'RESIZE': (M_RESIZE, VS, None), 'RESIZE_C': (M_RESIZE, VS, None), 'RESIZE_M': (M_RESIZE, VS, None), 'RESIZE_I': (M_RESIZE, VS, None),
    'CLEAR': (M_CLEAR, ('vec',), None), 'DETACH': (M_CLEAR, ('vec',), None), 'SET': (M_SET, VS + ('dyn', 'stk'), 'nonempty'),
    'COPY_B': (M_COPY, VS + ('dyn', 'stk'), 'noB'), 'ASSIGN_A_B': (M_COPY, ASG, 'B'), 'ASSIGN_B_A': (M_COPY, ASG, 'B'), 'SELF_ASSIGN': (M_COPY, ASG, None),
    'MOVE_B': (M_MOVE, VS + ('dyn', 'stk'), 'noB'), 'MASSIGN_A_B': (M_MOVE, ASG, 'B'), 'MASSIGN_B_A': (M_MOVE, ASG, 'B'), 'SWAP': (M_SWAP, VS + ('dyn',), 'B'),
    'CTOR_B': (M_B, VS + ('dyn', 'stk'), 'noB'), 'DTOR_B': (M_B, VS + ('dyn', 'stk'), 'B'), 'PUSH_B': (M_B, VS + ('stk',), 'B'),
    'CTORN_A': (M_CTORN, ('dyn',), None), 'CTORN_B': (M_CTORN, ('dyn',), 'noB'), 'CTORDEF_A': (M_B, ('dyn', 'stk'), None), 'CTORDEF_B': (M_B, ('dyn', 'stk'), 'noB'),
}
def expected_ops(kind, sh, mask):
    """bit set of the operations that must be executable as the first solver-chosen operation in shape sh (reachability witnesses)"""
    m = 0
    for name, (cls, conts, pre) in OPINFO.items():
        if kind not in conts or not (mask & cls): continue
        if pre == 'nonempty' and sh.A[0] == 0: continue
        if pre == 'B' and sh.B is None: continue
        if pre == 'noB' and sh.B is not None: continue
        m |= 1 << O[name]
    return m

def lens_for(kind, sh, cap_len):
    """lengths worth offering to resize()/dyn_array(n) in shape sh: one per behaviour class (shrink to 0, shrink by one, same, grow inside
    the capacity, up to the capacity, beyond the capacity (reallocation), far beyond)"""
    s, c = sh.A
    if kind == 'stk': return [0]
    cand = {0, s - 1, s, s + 1, c, c + 1} if kind != 'dyn' else {0, 1, 2, s, s + 1}
    return sorted(x for x in cand if 0 <= x <= max(cap_len, c + 1))
def lens2_for(kind, sh):
    """value-taking resize overloads: shrink to nothing, grow by two elements (the argument is used for more than one element), grow beyond the capacity"""
    s, c = sh.A
    return sorted({0, s + 2, max(c + 1, s + 2)})

P = ['push']
FULL, BINARY, GROWTH, GROWTH_B = 0xFFFF, 0x1FA, 0x01F, 0x11F
MASKNAME = {FULL: 'whole public API',
            BINARY: 'copy/move construction and assignment in both directions, swap, construct/destroy/push to B, pop, clear, detach, write through operator[] (push and resize of A alone are decided from the single-container shapes)',
            GROWTH: 'push (all overloads), pop, resize (all overloads), clear, detach, write through operator[]',
            GROWTH_B: 'push (all overloads), pop, resize (all overloads), clear, detach, write through operator[], construct/destroy/push to B'}
MASKTAG = {FULL: '', BINARY: '.binary', GROWTH: '.growth', GROWTH_B: '.growthB'}
# quick tier: (prefix, operation classes offered to the solver-chosen operation, also run with T=int?)
QUICK_SCRIPTS = {
    'vec': [([], FULL, 1), (P, FULL, 0), (P * 2, FULL, 1), (P * 3 + ['copyB'], BINARY, 1), (P * 2 + ['ctorB', 'pushB'], BINARY, 0), (P * 6, GROWTH, 1), (['push', 'pop'], FULL, 0),
            (P * 2 + ['moveB'], FULL, 0), (['resize3', 'pop'], FULL, 0), (P * 3 + ['ctorB', 'pushB', 'swap'], GROWTH_B, 0)],
    'sv2': [([], FULL, 1), (P, FULL, 0), (P * 2, FULL, 1), (P * 3, FULL, 0), (P + ['ctorB'] + ['pushB'] * 3, BINARY, 1), (P * 6, GROWTH, 0), (P * 3 + ['pop', 'pop'], FULL, 0),
            (P * 2 + ['moveB'], FULL, 0), (P * 3 + ['copyB'], BINARY, 1), (P * 3 + ['ctorB', 'pushB', 'swap'], GROWTH_B, 0)],
    'sv4': [([], FULL, 1), (P, FULL, 0), (P * 4, FULL, 1), (P * 5, FULL, 0), (P * 2 + ['ctorB'] + ['pushB'] * 5, BINARY, 0), (P * 5 + ['pop'] * 3, FULL, 0),
            (P * 3 + ['moveB'], FULL, 0), (P * 5 + ['copyB'], BINARY, 1), (P * 5 + ['ctorB', 'pushB', 'swap'], GROWTH_B, 0)],
    'dyn': [(t, FULL, 1) for t in ([], ['ctordefA'], ['ctornA0'], ['ctornA1'], ['ctornA3'], ['ctornA2', 'copyB'], ['ctornA2', 'ctornB3'], ['ctornA2', 'moveB'], ['ctornA2', 'ctornB3', 'swap'])],
    'stk': [(t, FULL, 1) for t in ([], P, P * 2, P * 3 + ['copyB'], P * 2 + ['ctorB', 'pushB'], P * 6, ['ctordefA', 'push'], P * 2 + ['moveB'])],
}
ALPHABET = {
    'vec': ['push', 'pop', 'resize0', 'resize1', 'resize3', 'clear', 'copyB', 'moveB', 'swap', 'ctorB', 'dtorB', 'pushB', 'assignAB', 'massignAB'],
    'sv2': ['push', 'pop', 'resize0', 'resize1', 'resize3', 'copyB', 'moveB', 'swap', 'ctorB', 'dtorB', 'pushB'],
    'sv4': ['push', 'pop', 'resize0', 'resize2', 'resize5', 'copyB', 'moveB', 'swap', 'ctorB', 'dtorB', 'pushB'],
    'dyn': ['ctornA0', 'ctornA1', 'ctornA2', 'ctornA3', 'ctordefA', 'copyB', 'moveB', 'swap', 'ctorB', 'dtorB', 'ctornB1', 'ctornB2', 'assignAB', 'massignAB'],
    'stk': ['push', 'pop', 'copyB', 'moveB', 'ctorB', 'dtorB', 'pushB', 'assignAB', 'massignAB', 'ctordefA'],
}
def bfs_scripts(kind, depth, smax, limit):
    """shortest script for every shape reachable within `depth` script operations, sizes <= smax"""
    seen = {Shape(kind).key(): []}; frontier = [[]]
    for d in range(depth):
        nxt = []
        for toks in frontier:
            for t in ALPHABET[kind]:
                sh, codes = run_script(kind, toks + [t])
                if sh is None: continue
                if sh.A[0] > smax or (sh.B and sh.B[0] > smax): continue
                if sh.key() in seen: continue
                seen[sh.key()] = toks + [t]; nxt.append(toks + [t])
        frontier = nxt
    out = sorted(seen.values(), key=lambda t: (len(t), t))
    return out[:limit]

def tokname(toks):
    if not toks: return 'ctor'
    out = []; i = 0
    while i < len(toks):
        j = i
        while j < len(toks) and toks[j] == toks[i]: j += 1
        out.append(toks[i] + ('x%d' % (j - i) if j - i > 1 else '')); i = j
    return '-'.join(out)

def seq_q(c, trk, toks, K, tier, opmask=FULL, tag=''):
    sh, codes = run_script(c, toks)
    assert sh is not None, (c, toks)
    smax = max(sh.A[0], sh.B[0] if sh.B else 0)
    maxn = smax + K + 1                                    # every operation may grow a container by one; resize may go further (lens below)
    lens = lens_for(c, sh, maxn + 1)
    lens2 = lens2_for(c, sh) if c in ('vec', 'sv2', 'sv4') else [0]
    maxn = max([maxn, sh.peak] + lens + lens2)
    nblk = len(codes) + K + 2
    u = uname(c, trk)
    tag = MASKTAG.get(opmask, '.m%x' % opmask) + tag
    name = '%s.%s.%s.k%d%s' % (c, TN[trk], tokname(toks), K, tag)
    defs = {'C13_UNIT': u, 'C13_CONT': CONTS[c], 'C13_TRK': trk, 'K': K, 'SCRIPT': ''.join('%d,' % x for x in codes), 'NSCRIPT': len(codes),
            'LENS': ','.join(str(x) for x in lens), 'NLENS': len(lens),
            'LENS2': ','.join(str(x) for x in lens2), 'NLENS2': len(lens2), 'MAXN': maxn, 'VP_MAXBLK': nblk}
    if opmask != FULL: defs['OPMASK0'] = '0x%xu' % opmask
    defs['EXPECT_OPS'] = '0x%xu' % expected_ops(c, sh, opmask)
    shape = 'A: size %d capacity %d' % sh.A + ('; B: size %d capacity %d' % sh.B if sh.B else '; B: not constructed')
    return Q(name, u, 'c13_seq.c', 'harness', defs=defs, unwind=max(2 * maxn + 3, nblk + 2, 6), unwind_fn=[(r'^ir2c_mem', 8 * maxn + 10), (r'^c13_keep_inputs', 400)], extra=['--object-bits', '12', '--slice-formula'], inline_witness=True,
             timeout=2400, mem_gb=5 if K == 1 else 8,
             bounds={'container': CONT_NAME[c], 'T': 'tracked (observable copy/move, lifetime registry)' if trk else 'int', 'allocator': 'vp_allocator (exact-size blocks, block registry)',
                     'concrete prefix from the constructor': ' '.join(toks) or '(none)', 'shape before the symbolic part (model)': shape,
                     'solver-chosen operations after the prefix': K, 'operation classes offered to the %ssolver-chosen operation' % ('first ' if K > 1 else ''): MASKNAME.get(opmask, 'classes 0x%x of harness/c13_seq.c' % opmask),
                     'lengths offered to resize(n)/dyn_array(n)': lens, 'lengths offered to resize(n, value)': lens2, 'max elements per container': maxn,
                     'element values / indices': 'arbitrary 32-bit / every valid index'},
             what='%s<%s>: from the shape reached by [%s], every sequence of %d operation(s) of the whole public API keeps every accessor equal to the reference sequence, '
                  'touches only owned storage, and after destruction nothing is alive or allocated' % (c, TN[trk], ' '.join(toks) or 'constructor', K))

def big_mask(c, toks):
    """thorough tier: whole API everywhere except on the large threshold shapes (>= 6 elements), where the growth-related classes are offered"""
    sh, _ = run_script(c, toks)
    return GROWTH if c != 'stk' and max(sh.A[0], sh.B[0] if sh.B else 0) >= 6 else FULL
def seq_queries(tier, trks=(0, 1)):
    qs = []
    for c in CONTS:
        for trk in trks:
            done = set()
            for (toks, mask, with_int) in QUICK_SCRIPTS[c]:
                if tier == 'quick' and trk == 0 and not with_int: continue      # quick: T=int on the core shapes, T=tracked (a superset of the observations) on all
                qs.append(seq_q(c, trk, toks, 1, tier, mask if tier == 'quick' else big_mask(c, toks))); done.add(tuple(toks))
            if tier == 'thorough':
                smax = {'vec': 4, 'sv2': 4, 'sv4': 6, 'dyn': 3, 'stk': 4}[c]
                extra = bfs_scripts(c, 3, smax, 40) + {'vec': [P * 7, P * 14], 'sv2': [P * 7, P * 14], 'sv4': [P * 10, P * 11], 'stk': [P * 7, P * 14]}.get(c, [])
                for toks in extra:
                    if tuple(toks) in done: continue
                    done.add(tuple(toks)); qs.append(seq_q(c, trk, toks, 1, tier, big_mask(c, toks)))
                # two solver-chosen operations (the cases multiply: only affordable for the small API of stack; for the others the shape prefixes carry the depth)
                if c == 'stk':
                    for toks in ([], P * 2): qs.append(seq_q(c, trk, toks, 2, tier, FULL))
    return qs

def list_queries(tier, trks=(0, 1)):
    qs = []
    cfgs = [(0, 3), (3, 2)] if tier == 'quick' else [(0, 4), (3, 3), (6, 2)]
    for trk in trks:
        u = 'c13_list_%s' % TN[trk]
        for (p, k) in cfgs:
            qs.append(Q('list.%s.p%d.k%d' % (TN[trk], p, k), u, 'c13_list.c', 'harness', defs={'C13_UNIT': u, 'C13_TRK': trk, 'P': p, 'K': k}, unwind=p + k + 3, unwind_fn=[(r'^c13_keep_inputs', 400)], extra=['--object-bits', '12', '--slice-formula'], inline_witness=True,
                        timeout=900, mem_gb=4,
                        bounds={'container': 'frg::list<T,A>', 'T': 'tracked' if trk else 'int', 'concrete prefix': '%d x emplace_back' % p, 'solver-chosen operations': k,
                                'operations': 'emplace_back(ctor args), emplace_back(const T&), pop_front, write through front(), destroy (possibly non-empty) + default-construct'},
                        what='frg::list<%s>: every history of %d emplace_back + %d arbitrary operations keeps empty()/front() and the whole node chain equal to the reference queue; '
                             'one exact-size block and one live element per entry; nothing alive or allocated after destruction' % (TN[trk], p, k)))
    return qs

def ilist_queries(tier):
    qs = []
    nn = 6 if tier == 'quick' else 8
    for m in range(0, nn):
        for m2 in ((0, 2) if tier == 'quick' else (0, 1, 3)):
            if m + m2 > nn - 1: continue
            perm = m + m2 <= (2 if tier == 'quick' else 4)
            defs = {'M': m, 'M2': m2, 'NN': nn}
            if perm: defs['PERM'] = 1
            qs.append(Q('ilist.m%d.s%d%s' % (m, m2, '.perm' if perm else ''), 'c13_ilist', 'c13_ilist.c', 'harness', defs=defs, unwind=nn + 2, inline_witness=True, timeout=900, mem_gb=4,
                        bounds={'node objects': nn, 'nodes in the list before the operation': m, 'nodes in the second list': m2,
                                'pre-state': 'ANY well-formed state of that size: all payloads symbolic; ' + ('the solver chooses which node object is at which position (every permutation)' if perm else 'node object i at position i (symmetry breaking: addresses are only compared for equality)'),
                                'operation': 'solver-chosen: push_front, push_back, insert(before any member or end()), erase(any member), pop_front, pop_back, clear, splice(end(), other) in both directions, observers only'},
                        what='intrusive_list inductive step: from any well-formed pair of lists (%d and %d nodes) every operation yields exactly the specified sequences: '
                             'front/back, forward links, back links inverse to them, in_list, erased hooks reset, return values, iteration' % (m, m2)))
    return qs

def queries(tier):
    global VALIDATE_VECTORS
    VALIDATE_VECTORS = 60 if tier == 'quick' else 300
    return seq_queries(tier) + list_queries(tier) + ilist_queries(tier)

def queries_c16(tier):
    """the subset that decides the lifetime and block clauses of C16 for the sequence containers: T = tracked, allocator = vp_allocator,
    every history ends with `destroy the container(s); vp_end()` (no live object, no outstanding block) and every hook asserts its lifetime rule"""
    return seq_queries(tier, trks=(1,)) + list_queries(tier, trks=(1,))
C16_UNITS = [u for u in UNITS if u.name.endswith('_trk')]

def validation_queries(tier):
    vs = []
    for c in CONTS:
        for trk in (0, 1):
            q = seq_q(c, trk, [], 6, tier); q.name = 'validate.' + q.name
            q.defs['LENS'] = '0,1,2,3,5'; q.defs['NLENS'] = 5; q.defs['LENS2'] = '0,1,2,3,5'; q.defs['NLENS2'] = 5; q.defs['MAXN'] = 8; q.defs['VP_MAXBLK'] = 16
            vs.append(q)
    for trk in (0, 1):
        u = 'c13_list_%s' % TN[trk]
        vs.append(Q('validate.list.%s' % TN[trk], u, 'c13_list.c', 'harness', defs={'C13_UNIT': u, 'C13_TRK': trk, 'P': 1, 'K': 8}))
    vs.append(Q('validate.ilist.script', 'c13_ilist', 'c13_ilist.c', 'harness_script', defs={'M': 0, 'M2': 0, 'NN': 8}))
    vs.append(Q('validate.ilist.step', 'c13_ilist', 'c13_ilist.c', 'harness', defs={'M': 3, 'M2': 2, 'NN': 6}))
    return vs
VALIDATE_VECTORS = 60
LEVEL = 'model_checking'
TECHNIQUE = ('CBMC bounded model checking of the clang-lowered code with standard pointer checks on. Array-like containers and frg::list: concrete history prefix from the '
             'constructor (fixes sizes/capacities/storage mode, crosses growth thresholds; element values symbolic) followed by K solver-chosen operations of the whole public '
             'API, a reference array + length in the harness, all accessors compared after every operation, each operation case explored with its own continuation so '
             'that no length is symbolic inside a path. intrusive_list: inductive step from a solver-chosen well-formed state (index view).')
FUNCTION_PATTERNS = [r'frg::', r'^c_', r'^l_', r'^il_']
ASSUMPTIONS = [
    'callers respect the documented preconditions: pop/pop_back/front/back/top/pop_front only on a non-empty container, operator[](i) only with i < size(), insert/erase only with iterators of the same list, push/insert only of a node that is in no list',
    'allocation never fails (vp_allocator returns exact-size blocks from malloc; --no-malloc-may-fail)',
    'T=tracked: besides the in-object lifetime state of vp_track.h, harness/c13_seq.c records the construction address of every element in its padding bytes and checks it at every later use, so that a bytewise relocation (no constructor call) of a live element is a violation',
    'a moved-from container is "valid but unspecified": whatever size/contents it reports afterwards becomes its reference (it must be self-consistent, own what it reports and be destroyed cleanly)',
    'array-like containers: the symbolic operations start from the shapes reached by the listed concrete prefixes; behaviour is a function of (size, capacity, storage mode, contents) and the contents are symbolic',
    'intrusive_list pre-state: any assignment of _front/_back/next/previous/in_list that forms two disjoint well-formed doubly linked lists over the node objects (every permutation of node objects), other hooks reset; Inv is re-established by every operation (checked) and checked on random reachable states by the validation script',
    'frg::list / intrusive_list are not copied: the implicitly generated copy operations are shallow (two owners of the same nodes) and outside the sequence abstraction',
]
OUTSIDE = ['containers with more elements than the stated per-query maximum (quick: up to 8, thorough: up to 16)', 'vector / small_vector / dyn_array: more than ONE solver-chosen operation after a prefix (the cases multiply; depth comes from the prefixes: quick ~10 shapes per container, thorough every shape reachable by <= 3 prefix operations with <= 4..6 elements plus the growth thresholds up to 14 elements); stack: 2; frg::list: up to 5',
           'element types other than int and the instrumented 8-byte `tracked`', 'allocators that fail or that are stateful (allocator propagation on swap/move is not observable with the stateless vp_allocator)',
           'shallow implicit copies of frg::list and intrusive_list', 'vector::detach() followed by use of the detached buffer beyond destroying and freeing it']
