# C05 — slab pool: lock discipline (policy called without pool locks, nothing left locked, never two pool locks at once)
# ONLY the second sentence of the property is decided here; the thread-interleaving sentence is not (see LEVEL_TEXT and DESIGN.md section 7).
import os, sys, importlib.util
HERE = os.path.dirname(__file__)
sys.path.insert(0, os.path.join(HERE, '..', 'engine'))
spec = importlib.util.spec_from_file_location('C01_shared', os.path.join(HERE, 'C01.py')); C01 = importlib.util.module_from_spec(spec); spec.loader.exec_module(C01)
UNITS = C01.UNITS
LEVEL = C01.LEVEL; TECHNIQUE = C01.TECHNIQUE; FUNCTION_PATTERNS = C01.FUNCTION_PATTERNS; VALIDATE_VECTORS = 100
def validation_queries(tier): return C01.validation_queries(tier)[:2]
def queries(tier):   # scenarios that reach every policy call site: first slab, large map, large unmap (free and moving realloc), in-place realloc, incl. map failures
    return C01.select(tier, lambda t: t['lockset'] or t['preempt'] or (t['pol'] in (1, 3) and t['faults']))
LEVEL_TEXT = ('PARTIAL: decided on the enumerated sequential scenarios are (a) the lock-discipline sentence of C05 — Policy::map/unmap/poison are invoked while the calling thread holds none of the pool mutexes, no mutex is '
              'left held when a call returns, no call takes a second pool mutex while holding one (no lock-order deadlock) — and (b) a lock-set discipline on EVERY load/store of the translated pool code: bucket state and the mutable '
              'header of a published slab are only touched under that bucket\'s mutex, the used-page counter only under the tree mutex (an Eraser-style sufficient condition for "no data race on pool state", which is a property of '
              'code paths, not of schedules). NOT decided: that concurrent calls behave like some sequential order (interleavings between the several critical sections of different calls are not explored; CBMC rejects '
              'pointer-typed shared writes from threads, see DESIGN.md A.4).')
ASSUMPTIONS = C01.ASSUMPTIONS + ['instrumented mutex: lock() asserts the mutex is free and that the caller holds no other pool mutex; a held-count is asserted 0 at every policy callback and after every API call']
OUTSIDE = C01.OUTSIDE + ['every thread interleaving (schedules of 2-8 threads): not decided by this check']
