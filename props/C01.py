# C01 — slab pool: live blocks are valid, big enough, aligned and pairwise disjoint
# (the same harness asserts the clauses of C02, C03, C04 and the lock-discipline clause of C05 after every operation;
#  props/C02..C05 re-use these queries, see select())
import os, sys
sys.path.insert(0, os.path.join(os.path.dirname(__file__), '..', 'engine'))
from run import Q, Unit
W = os.path.join(os.path.dirname(__file__), '..', 'wrap', 'c01_slab.cpp')
POL = {1: 'aligned map(len, align)', 2: 'unaligned map(len)', 3: 'aligned + poison hooks', 4: 'aligned map, page = superblock = slab = 512'}
UNITS = [Unit('c01_slab_p%d' % p, flat=True, cxxflags=['-DVP_POLICY=%d' % p], src=W) for p in (1, 2, 3, 4)]
OPN = {0: 'alloc', 1: 'free', 2: 'dealloc', 3: 'realloc'}
SIZES12 = [0, 8, 9, 16, 17, 32, 33, 64, 65, 128, 129, 200]      # every class, both sides of every class boundary, the small/large threshold, 2/3/4-page large frames
SIZES6 = [0, 8, 24, 64, 65, 129]
# poisoning policy: every carved slot costs one entry of the harness's poison log, so the 8- and 16-byte classes (51 / 25 slots per slab) are left to
# policies 1 and 2; the poison clauses are checked on the 32- and 64-byte classes and on large frames
SIZES_P3 = [24, 32, 33, 64, 65, 129]
def scen(pol, ops, hs, sel0, sizes, faults=0, timeout=1500, mem=6, optional=False, sel1=None, prefill=0, presize=64, lockset=False, preempt=None):
    K = len(ops)
    name = 'p%d.%s.s%d%s%s' % (pol, '-'.join('%s%s' % (OPN[o], '' if o == 0 else h) for o, h in zip(ops, hs)), sizes[sel0], '' if sel1 is None else '.s%d' % sizes[sel1], '.fault' if faults else '')
    defs = {'K': K, 'POLICY': pol, 'UNIT_H': '"c01_slab_p%d.h"' % pol, 'NREG': 22, 'IR2C_USE_REGIONS': 1, 'IR2C_STACK_BASE': '0x400ULL',
            'OPSEQ': '{' + ','.join(str(o) for o in ops) + '}', 'HSEQ': '{' + ','.join(str(h) for h in hs) + '}', 'SEL0': sel0,
            'SIZES': '{' + ','.join(str(x) for x in sizes) + '}', 'NSZ': len(sizes)}
    if pol == 3: defs['IR2C_ACCESS_HOOK'] = 1
    if faults: defs['FAULTS'] = faults
    if sel1 is not None: defs['SEL1'] = sel1
    if preempt is not None:
        defs['PREEMPT'] = 1; defs['PRE_OP'] = preempt[0]; defs['PRE_H'] = preempt[1]; defs['PRE_POINTS'] = 8
        name = 'preempt-by-%s%s.' % (OPN[preempt[0]], '' if preempt[0] == 0 else preempt[1]) + name
    if lockset: defs['LOCKSET'] = 1; defs['IR2C_ACCESS_HOOK'] = 1; name = 'lockset.' + name
    if prefill: defs['PREFILL'] = prefill; defs['PRESIZE'] = presize; name = 'fill%dx%d.' % (prefill, presize) + name
    K = len(ops)
    npre = 1 if preempt is None else 8 * (1 if preempt[0] in (1, 2) else len(sizes))
    nscen = npre * len(sizes) ** (K - 1 - (sel1 is not None)) * ((K + 1) if faults else 1)
    q = Q(name, 'c01_slab_p%d' % pol, 'c01_slab.c', 'harness', defs=defs, unwind=max(70, nscen + 2), inline_witness=True, witness='any', timeout=timeout, mem_gb=mem, optional=optional,
             recursion=([(r'.', 2)] if preempt is not None else []), unwind_fn=[(r'^reset_all$', 70), (r'^harness$', len(sizes) + K + 3 + (10 if preempt is not None else 0)), (r'^(check_block|check_content|fill|is_poisoned)$', 300)], solver='minisat2',
             bounds={'operations': K, 'operation kinds': [OPN[o] + ('' if o == 0 else ' of block %d' % h) for o, h in zip(ops, hs)], 'first size': sizes[sel0], 'second size': 'fixed: %d' % sizes[sel1] if sel1 is not None else 'every table entry', 'later sizes': 'every entry of %s' % sizes,
                     'scenarios in this query': nscen, 'map failure': 'at every map call position 0..%d' % K if faults else 'none', 'policy': ('page 64, ' if pol != 4 else '') + 'slab = superblock 512, 4 classes; ' + POL[pol],
                     'preemption': 'none' if preempt is None else 'the last operation is preempted at each of its first 8 lock/unlock events by a whole %s of another thread' % OPN[preempt[0]], 'mode': 'concrete symbolic execution of the real code over flat word-granular memory (scenario parameters enumerated, no symbolic inputs)'},
             what='%s: first size %d, every later size from the table%s, policy %s: all clauses of C01-C04 and lock discipline after every operation' % ('/'.join(OPN[o] for o in ops), sizes[sel0], ', map() failing at every call position' if faults else '', POL[pol]))
    if pol == 3 or lockset: q.replay = 'generated'      # the poison access hook exists only in the flat-memory build
    q.tag = {'pol': pol, 'ops': list(ops), 'faults': faults, 'K': K, 'size0': sizes[sel0], 'prefill': prefill, 'lockset': lockset, 'preempt': preempt is not None}
    return q
SEQ2 = [([0, 0], [0, 0]), ([0, 1], [0, 0]), ([0, 2], [0, 0]), ([0, 3], [0, 0]), ([3, 3], [0, 0]), ([3, 1], [0, 0])]
SEQ3 = [([0, 0, 0], [0, 0, 0]), ([0, 0, 1], [0, 0, 0]), ([0, 1, 0], [0, 0, 0]), ([0, 3, 0], [0, 0, 0]), ([0, 3, 3], [0, 0, 0]), ([0, 0, 3], [0, 0, 1]), ([0, 1, 3], [0, 0, 0]), ([0, 0, 2], [0, 0, 1])]
# after filling one slab of the 64-byte class (6 blocks) or the 32-byte class (12 blocks) completely: free one block and allocate again (the freed slot must be reused, no new slab),
# allocate one more (a second slab is needed), free from the full slab then fill it again
PRE = [(6, 64, [1, 0], [2, 0], 7), (6, 64, [0, 1], [0, 3], 7), (6, 64, [1, 1], [2, 5], 7), (12, 32, [1, 0], [2, 0], 5), (6, 64, [3, 0], [4, 0], 7), (6, 64, [1, 3], [3, 4], 7)]
# (four allocations in a row are not in the list: with two large sizes they need four mappings and the harness provisions three arenas)
SEQ4 = [([0, 0, 1, 0], [0, 0, 0, 0]), ([0, 1, 0, 1], [0, 0, 0, 2]), ([0, 0, 3, 1], [0, 0, 0, 1]), ([0, 0, 0, 1], [0, 0, 0, 2])]
def all_queries(tier):
    qs = []
    quick = tier == 'quick'
    for pol in (1, 2, 3):
        S12 = SIZES12 if pol != 3 else SIZES_P3
        S6 = SIZES6 if pol != 3 else SIZES_P3
        sel0s = range(len(S12)) if not quick else ((1, 3, 7, 8, 10, 11) if pol == 1 else ((3, 7, 8, 10) if pol == 2 else (0, 3, 4, 5)))
        for (ops, hs) in SEQ2:
            for s0 in sel0s: qs.append(scen(pol, ops, hs, s0, S12))
        for (ops, hs) in (SEQ2 if not quick else SEQ2[:4]):
            for s0 in (((1, 3, 7, 8, 10, 11) if pol != 3 else (0, 2, 3, 4, 5)) if not quick else ((3, 8) if pol == 1 else ((8,) if pol == 2 else (4,)))): qs.append(scen(pol, ops, hs, s0, S12, faults=1))
        for (ops, hs) in (SEQ3 if not quick else (SEQ3[1:4] if pol == 1 else SEQ3[2:3])):
            for s0 in ((1, 3, 4) if not quick else (1, 4)):
                for s1 in ((1, 3, 5) if not quick else (3, 5)): qs.append(scen(pol, ops, hs, s0, S6, sel1=s1, timeout=1500, mem=6))
        for (pf, psz, ops, hs, s0) in (PRE if pol != 3 else PRE[:3]):
            if pol == 3: s0 = 3
            qs.append(scen(pol, ops, hs, s0, S12, prefill=pf, presize=psz))
        if not quick:
            for (ops, hs) in SEQ3[:5]:
                for s0 in (1, 4):
                    for s1 in (3,): qs.append(scen(pol, ops, hs, s0, S6, faults=1, sel1=s1, timeout=900, mem=8, optional=True))
    for (ops, hs) in SEQ2:                      # configuration with page size == superblock size (frame lookup of blocks that start on a superblock boundary)
        for s0 in ((3, 8, 10) if quick else range(12)): qs.append(scen(4, ops, hs, s0, SIZES12))
    # lock-set discipline on every access of the translated pool code (C05): all two-operation sequences + the filled-slab scenarios, policy 1
    for (ops, hs) in SEQ2:
        for s0 in ((1, 3, 7, 8, 10) if quick else range(12)): qs.append(scen(1, ops, hs, s0, SIZES12, lockset=True))
    for (pf, psz, ops, hs, s0) in PRE: qs.append(scen(1, ops, hs, s0, SIZES12, prefill=pf, presize=psz, lockset=True))
    # two calls, one preempted by the other at lock-operation granularity (C05 first sentence, one-preemption slice): sizes from the 6-entry table
    PRE2 = [([0, 0], [0, 0], (0, 0)), ([0, 1], [0, 0], (0, 0)), ([0, 0], [0, 0], (1, 0)), ([0, 3], [0, 0], (0, 0)), ([0, 0], [0, 0], (3, 0))]
    for (ops, hs, pre) in PRE2:
        for s0 in ((3,) if quick else (1, 3, 4)):
            for s1 in ((1, 3, 4) if quick else (1, 3, 4, 5)): qs.append(scen(1, ops, hs, s0, SIZES6, sel1=s1, preempt=pre, timeout=2400, mem=8))
    # the class is exactly full (6 blocks of 64): free one while another thread allocates / both allocate (both find the class without a partial slab)
    for s1 in (1, 3, 4):
        qs.append(scen(1, [1, 0], [2, 0], 3, SIZES6, sel1=s1, prefill=6, presize=64, preempt=(0, 0), timeout=2400, mem=8))
        qs.append(scen(1, [0, 0], [0, 0], 3, SIZES6, sel1=s1, prefill=6, presize=64, preempt=(1, 3), timeout=2400, mem=8))
    # poisoning policy, 8-byte class (requests shorter than the allocator's link word): only alloc/free pairs, the poison log grows with every carved slot
    for s0 in (0, 1): qs.append(scen(3, [0, 1], [0, 0], s0, [0, 8, 24]))
    for s0 in (0, 1): qs.append(scen(3, [0, 3], [0, 0], s0, [0, 8, 24]))
    if not quick:
        for (ops, hs) in SEQ4:
            for s0 in (3,):
                for s1 in (1,): qs.append(scen(1, ops, hs, s0, SIZES6, sel1=s1, timeout=900, mem=12, optional=True))
    return qs
def select(tier, pred):
    return [q for q in all_queries(tier) if pred(q.tag)]
# C01: validity/size/alignment/disjointness on every non-fault scenario of the plain policies (aligned and unaligned map)
def queries(tier): return select(tier, lambda t: t['pol'] in (1, 2, 4) and not t['faults'] and not t['lockset'] and not t['preempt'])
def validation_queries(tier):
    v = []
    for p in (1, 2, 4):
        q = scen(p, [0, 3, 1, 0], [0, 0, 0, 0], 0, SIZES12); q.name = 'p%d.validate' % p; v.append(q)
        q = scen(p, [0, 0, 3, 2], [0, 0, 1, 0], 0, SIZES12, faults=1); q.name = 'p%d.validate.fault' % p; v.append(q)
    return v
VALIDATE_VECTORS = 200
LEVEL = 'model_checking'
TECHNIQUE = 'CBMC symbolic execution of the clang-lowered slab_pool over a flat word-granular memory model, run on exhaustively enumerated concrete scenarios (operation sequence x size table x map-failure position); assertions decided by constant folding and a SAT call per query'
FUNCTION_PATTERNS = [r'frg::slab_pool', r'frg::_redblack', r'^pool_']
ASSUMPTIONS = [
    'policy family: page 64, slab = superblock 512 bytes, 4 size classes (8/16/32/64), with aligned map / unaligned map / aligned map + poison hooks; map returns harness arenas (unaligned: page aligned but not superblock aligned) or 0 at an enumerated call position; memory from map() is poisoned initially (as slab.hpp itself assumes)',
    'request sizes range over a boundary table (both sides of every class boundary, the small/large threshold, 2-4 page large frames), not over all integers: with a symbolic size CBMC no longer folded values that are concrete on every path and a single allocation exceeded 2000 paths / 10 minutes (DESIGN.md section 4)',
    'histories start from the empty pool; callers free/realloc only live blocks or null; deallocate passes the requested size',
    'contents are compared over the whole reported size of a block (the pool does not know the requested size, so any correct implementation preserves them)',
    'single thread (C05 interleavings are not covered here)',
]
OUTSIDE = ['poison clauses for the 8- and 16-byte classes (policy 3 scenarios use sizes 24..200 only)', 'histories other than the listed operation sequences / longer than 4 operations (no inductive invariant is attempted over raw slab memory)', 'request sizes outside the boundary table', 'policy geometries other than the tiny family, in particular the default 256 KiB slabs', 'thread interleavings']
