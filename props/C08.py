# C08 — pairing heap: top is always a maximum; pop/remove take out exactly one element
import os, sys
sys.path.insert(0, os.path.join(os.path.dirname(__file__), '..', 'engine'))
from run import Q, Unit
UNITS = [Unit('c08')]
def queries(tier):
    qs = []
    MAX = 4 if tier == 'quick' else 6      # measured: m=5 <= 250 s each; m=6 push 244 s, pop 976 s, remove no verdict in 1200 s; m=7/8 never finished
    for (entry, nm, lo, what) in [('harness_push', 'push', 0, 'push(x) of a new element with arbitrary priority'), ('harness_pop', 'pop', 1, 'pop()'),
                                  ('harness_remove', 'remove', 1, 'remove(any contained element: root, first child, middle/last sibling, leaf)')]:
        for m in range(lo, MAX + 1):
            big = m >= 6
            qs.append(Q('%s.m%d' % (nm, m), 'c08', 'c08_heap.c', entry, defs={'M': m}, unwind=m + 3, checks='none', inline_witness=True,
                        timeout=1500 if big else 1200, mem_gb=8 if big else 6, optional=(m > 5),
                        bounds={'elements contained before the operation': m, 'priorities': 'arbitrary 32-bit (ties included)', 'pre-state': 'ANY heap satisfying the representation invariant (solver-chosen shape and priorities)',
                                'collapse/sibling loops': m + 3},
                        what='inductive step: ' + what + ' on an arbitrary valid heap of %d elements -> invariant, exact membership change, top()/empty() observations' % m))
    # wide child lists: the two-pass collapse pairs siblings, so 4, 5, 6 children (even/odd, >= two pairs) need 5-8 elements; the fully
    # solver-chosen shape does not reach a verdict there, so the collapsed element is assumed to have >= k children (rest solver-chosen)
    # measured (16 cores busy): pop.m5.wide4 81 s, pop.m6.wide5 264 s, remove.m6.wide4 1065 s; the m=7 queries had no verdict after 18 min -> optional, thorough only
    wide = [('harness_pop', 'pop', 5, 4, False), ('harness_pop', 'pop', 6, 5, False)]
    if tier != 'quick': wide += [('harness_remove', 'remove', 6, 4, False), ('harness_pop', 'pop', 7, 6, True), ('harness_remove', 'remove', 7, 5, True)]
    for (entry, nm, m, k, opt) in wide:
        qs.append(Q('%s.m%d.wide%d' % (nm, m, k), 'c08', 'c08_heap.c', entry, defs={'M': m, 'WIDE': k}, unwind=m + 3, checks='none', inline_witness=True, timeout=3000 if tier != 'quick' else 900, mem_gb=6, optional=opt,
                    bounds={'elements contained before the operation': m, 'shape family': 'the element whose child list is collapsed (root for pop, x for remove) has at least %d children; everything else solver-chosen' % k,
                            'priorities': 'arbitrary 32-bit (ties included)', 'collapse/sibling loops': m + 3},
                    what='inductive step on the wide-child-list family: %s with a collapsed child list of >= %d siblings among %d elements' % (nm, k, m)))
    return qs
def validation_queries(tier):
    return [Q('script.validate', 'c08', 'c08_heap.c', 'harness_script', defs={'M': 7})]
VALIDATE_VECTORS = 150
LEVEL = 'model_checking'
TECHNIQUE = 'CBMC bounded model checking of the clang-lowered code; inductive step from a solver-chosen valid pre-state (index view of the child/sibling/backlink structure), one query per heap size'
FUNCTION_PATTERNS = [r'frg::_pairing', r'^ph_']
ASSUMPTIONS = [
    'pre-state: any assignment of child/backlink/sibling/priority fields satisfying Inv (left-child/right-sibling binary tree with backlink as parent pointer, rooted at _root, acyclic, heap order to the heap parent, outside hooks null); base case m=0 is a query; Inv is re-established by every operation (checked) and 150 random histories per run are checked to satisfy it',
    'comparator is a strict weak order (int <); standard pointer checks off: null/escaped links are caught by the FRG_ASSERTs (panic = violation) and the post-state view',
]
OUTSIDE = ['heaps with more elements than the largest m that reached a verdict', 'comparators that are not strict weak orders']
