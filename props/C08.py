# C08 — pairing heap: top is always a maximum; pop/remove take out exactly one element
import os, sys
sys.path.insert(0, os.path.join(os.path.dirname(__file__), '..', 'engine'))
from run import Q, Unit
UNITS = [Unit('c08')]
def queries(tier):
    qs = []
    MAX = 4 if tier == 'quick' else 6      # measured: m=5 <= 250 s each; m=6 push 244 s, pop 976 s, remove no verdict in 1200 s; m=7/8 never finished
    for (entry, nm, lo, what) in [('harness_push', 'push', 0, 'push(x) of a new element with arbitrary priority'), ('harness_pop', 'pop', 1, 'pop()'),
                                  ('harness_remove', 'remove', 1, 'remove(any contained element: root, first child, middle/last sibling, leaf)')]:
        for m in range(lo, MAX + 1):
            big = m >= 6
            qs.append(Q('%s.m%d' % (nm, m), 'c08', 'c08_heap.c', entry, defs={'M': m}, unwind=m + 3, checks='none', inline_witness=True,
                        timeout=1500 if big else 1200, mem_gb=8 if big else 6, optional=(m > 5),
                        bounds={'elements contained before the operation': m, 'priorities': 'arbitrary 32-bit (ties included)', 'pre-state': 'ANY heap satisfying the representation invariant (solver-chosen shape and priorities)',
                                'collapse/sibling loops': m + 3},
                        what='inductive step: ' + what + ' on an arbitrary valid heap of %d elements -> invariant, exact membership change, top()/empty() observations' % m))
    return qs
def validation_queries(tier):
    return [Q('script.validate', 'c08', 'c08_heap.c', 'harness_script', defs={'M': 7})]
VALIDATE_VECTORS = 150
LEVEL = 'model_checking'
TECHNIQUE = 'CBMC bounded model checking of the clang-lowered code; inductive step from a solver-chosen valid pre-state (index view of the child/sibling/backlink structure), one query per heap size'
FUNCTION_PATTERNS = [r'frg::_pairing', r'^ph_']
ASSUMPTIONS = [
    'pre-state: any assignment of child/backlink/sibling/priority fields satisfying Inv (left-child/right-sibling binary tree with backlink as parent pointer, rooted at _root, acyclic, heap order to the heap parent, outside hooks null); base case m=0 is a query; Inv is re-established by every operation (checked) and 150 random histories per run are checked to satisfy it',
    'comparator is a strict weak order (int <); standard pointer checks off: null/escaped links are caught by the FRG_ASSERTs (panic = violation) and the post-state view',
]
OUTSIDE = ['heaps with more elements than the largest m that reached a verdict', 'comparators that are not strict weak orders']
