# C07 — interval tree: overlap queries are exact after any insert/remove history
import os, sys
sys.path.insert(0, os.path.join(os.path.dirname(__file__), '..', 'engine'))
sys.path.insert(0, os.path.join(os.path.dirname(__file__), '..', 'tools'))
from run import Q, Unit
import rbshapes
UNITS = [Unit('c07')]
_MINNODES = [0, 1, 2, 4, 6, 10, 14, 22, 30, 46]     # fewest nodes of a red-black tree of height h
def _maxheight(m):
    return max(h for h in range(len(_MINNODES)) if _MINNODES[h] <= m)
def _rec_ins(m):   # fix_insert recurses on the grandparent (two levels up): calls <= ceil(depth of the new node / 2); checked by unwinding assertions
    return (_maxheight(m) + 1 + 1) // 2
def _rec_rem(m):   # fix_remove recurses on the parent (one level up): calls <= height
    return max(1, _maxheight(m))
OPS = [('harness_insert', 'insert', 0, 'insert([lo,hi]) with arbitrary endpoints lo <= hi'),
       ('harness_remove', 'remove', 1, 'remove(any stored interval)'),
       ('harness_query', 'query', 0, 'for_overlaps(lb, ub) / for_overlaps(point), arbitrary bounds: callback exactly once per overlapping interval, never otherwise')]
_MAXM = 12
def prepare(R):
    for m in range(0, _MAXM + 1):
        n, txt = rbshapes.header(m, m + 1)
        open(os.path.join(R.work, 'rb_shapes_%d.h' % m), 'w').write(txt)
def _common(m):
    return dict(unwind=m + 4, checks='none', unwind_fn=[(r'^_ZN3frg', _maxheight(m + 1) + 2)],
                recursion=[(r'fix_insert', _rec_ins(m)), (r'fix_remove', _rec_rem(m)), (r'for_overlaps_in_subtree', max(1, _maxheight(m)))], inline_witness=True, witness='any')
def queries(tier):
    qs = []
    SYM = 1 if tier == 'quick' else 2          # fully symbolic shape (one query per size): cross-check of the case split
    MAXS = 6 if tier == 'quick' else 8        # shape case split: one query per (operation, size, shape)
    MAXS_INS = 5 if tier == 'quick' else 7     # insert keeps the new key symbolic (position decided by the solver): costlier per shape
    for (entry, nm, lo, what) in OPS:
        for m in range(lo, SYM + 1):
            qs.append(Q('%s.m%d.symbolic' % (nm, m), 'c07', 'c07_itree.c', entry, defs={'M': m}, timeout=1500, mem_gb=8,
                        bounds={'nodes in the tree before the operation': m, 'endpoints': 'arbitrary 32-bit ints with lo <= hi (duplicates, nested, touching, single points included)', 'pre-state': 'ANY tree satisfying the invariant (shape, colours, keys all solver-chosen)',
                                'library loops': _maxheight(m + 1) + 2, 'fix_insert recursion': _rec_ins(m), 'fix_remove recursion': _rec_rem(m)},
                        what='inductive step: %s on an arbitrary valid tree of %d nodes -> invariant + specified in-order sequence' % (what, m), **_common(m)))
    for m in range(0, MAXS + 1):
        nsh = len(rbshapes.shapes(m, m + 1))
        qs.append(Q('shapes.m%d.complete' % m, 'c07', 'c07_itree.c', 'harness_shapes_complete', defs={'M': m, 'SHAPES_H': '"rb_shapes_%d.h"' % m}, unwind=max(m + 4, nsh + 2), checks='none',
                    inline_witness=True, timeout=1500, mem_gb=6, bounds={'nodes': m, 'shapes listed': nsh},
                    what='case-split completeness: every state satisfying the invariant with %d nodes is one of the %d enumerated shapes' % (m, nsh)))
        if m <= SYM: continue
        for (entry, nm, lo, what) in OPS:
            if m < lo or (nm == 'insert' and m > MAXS_INS): continue
            for k in range(nsh):
                qs.append(Q('%s.m%d.shape%d' % (nm, m, k), 'c07', 'c07_itree.c', entry, defs={'M': m, 'SHAPES_H': '"rb_shapes_%d.h"' % m, 'SHAPE': k}, timeout=1500, mem_gb=4, group='%s.m%d' % (nm, m),
                            bounds={'nodes in the tree before the operation': m, 'pre-state': 'shape %d of %d (links, colours), endpoints arbitrary 32-bit with lo <= hi, subtree_max as the invariant dictates' % (k, nsh),
                                    'library loops': _maxheight(m + 1) + 2, 'fix_insert recursion': _rec_ins(m), 'fix_remove recursion': _rec_rem(m)},
                            what='inductive step: %s on valid trees of %d nodes with shape #%d -> invariant + specified in-order sequence' % (what, m, k), **_common(m)))
    return qs
def validation_queries(tier):
    return [Q('script.validate', 'c07', 'c07_itree.c', 'harness_script', defs={'M': 7})]
VALIDATE_VECTORS = 150
LEVEL = 'model_checking'
TECHNIQUE = 'CBMC bounded model checking of the clang-lowered code; inductive step (insert/remove preserve the red-black + subtree_max invariant) and query obligation (for_overlaps exact) from a solver-chosen valid pre-state (index view of the pointer structure): fully symbolic for small sizes, case-split by enumerated shape (completeness of the split proved by a solver query) for larger ones'
FUNCTION_PATTERNS = [r'frg::', r'^it_']
ASSUMPTIONS = [
    'pre-state: any assignment of the link/colour/key fields satisfying the representation invariant Inv (C06 invariant with key = lower bound, plus lo <= hi and subtree_max[i] == max(hi[i], subtree_max[left], subtree_max[right]): BST order, parent/child consistency, acyclic, threaded list == in-order, root black, no red-red, equal black heights, outside nodes fully reset); base case m=0 is a query; Inv is re-established by every operation (checked), so by induction it contains every reachable state, and 150 random histories per run are checked to satisfy it',
    'case split: for sizes above the symbolic limit the pre-state shape ranges over the list produced by tools/rbshapes.py; the query shapes.m<k>.complete shows with the SAME invariant that no valid state is missing from the list',
    'symmetry: node objects are interchangeable (the code compares node addresses only for equality), so node i is taken to be the i-th element in order',
    'comparator is a strict weak order (int <); standard pointer checks are off in these queries: null/escaped links are caught by the FRG_ASSERTs (panic = violation) and by the post-state index view',
]
OUTSIDE = ['trees with more intervals than the largest m listed in the evidence', 'endpoint types other than int']
