# C16 — each element is destroyed exactly once; each allocation returned exactly once
# The lifetime/block clauses are decided by the owning-type harnesses of C13 (containers), C14 (hash_map), C15 (strings),
# C17 (optional/expected/variant/manual_box/tuple, unique_ptr/unique_memory/construct/destruct) and C09 (radix tree nodes),
# instantiated with the instrumented element type `tracked` and the tracking allocator (wrap/vp_track.hpp, harness/vp_track.h).
# This module selects those queries; quick takes a representative subset per owner type, thorough takes all of them.
import os, sys, importlib.util, re
HERE = os.path.dirname(__file__)
sys.path.insert(0, os.path.join(HERE, '..', 'engine'))
from run import Q, Unit
def _load(name):
    spec = importlib.util.spec_from_file_location(name + '_for_c16', os.path.join(HERE, name + '.py'))
    m = importlib.util.module_from_spec(spec); spec.loader.exec_module(m); return m
_M = {n: _load(n) for n in ('C13', 'C14', 'C15', 'C17', 'C09')}
UNITS = []
def _units():
    seen = {}; out = []
    for n, m in _M.items():
        for u in getattr(m, 'C16_UNITS', getattr(m, 'UNITS_C16', m.UNITS)):
            if u.name not in seen: seen[u.name] = 1; out.append(u)
    return out
UNITS[:] = _units()
QUICK_CAP = {'C13': 24, 'C14': 14, 'C15': 40, 'C17': 12}
def queries(tier):
    qs = []
    for n in ('C13', 'C14', 'C15', 'C17'):
        sub = _M[n].queries_c16(tier)
        if tier == 'quick':
            # representative subset: spread over the list so that every owner type / operation family stays represented
            cap = QUICK_CAP[n]
            if len(sub) > cap:
                step = len(sub) / float(cap); sub = [sub[int(i * step)] for i in range(cap)]
        for q in sub:
            q.name = n.lower() + '.' + q.name; q.group = q.name
        qs += sub
    # radix tree: every node freed exactly once with its size by the destructor (values present at destruction); C09's histories end with it
    for q in _M['C09'].queries(tier):
        if q.name.startswith('iter.') or q.name == 'hist.k1':
            q.name = 'c09.' + q.name; q.group = q.name; qs.append(q)
    return qs
def validation_queries(tier):
    v = []
    for n in ('C13', 'C17'):
        f = getattr(_M[n], 'validation_queries_c16', None) or _M[n].validation_queries
        v += f(tier)
    names = {u.name for u in UNITS}
    return [q for q in v if all(u in names for u in q.units)][:6]
def prepare(R):
    for m in _M.values():
        if hasattr(m, 'prepare'): m.prepare(R)
VALIDATE_VECTORS = 60
LEVEL = 'model_checking'
TECHNIQUE = 'CBMC bounded model checking of the clang-lowered owning types instantiated with a lifetime-reporting element type and a block-tracking allocator; bounded operation histories / inductive steps ending in destruction'
FUNCTION_PATTERNS = [r'frg::']
ASSUMPTIONS = ['see the ASSUMPTIONS of C13, C14, C15, C17 and C09: this check re-uses their lifetime/block queries',
               'lifetime state is kept inside the instrumented objects (state byte) plus a live counter; construct-over-live is only decidable inside tracked regions (allocator blocks and harness-registered holder storage)',
               'radix tree: destructor-exactly-once is asserted for the values present when the tree dies and for all nodes; erase() neither destroys the value nor frees nodes (readers may still hold the pointer): recorded in DESIGN.md as a design limitation of the library, as the property text itself notes']
OUTSIDE = ['the union of the OUTSIDE lists of C13, C14, C15, C17, C09', 'owner types not listed in the property']
