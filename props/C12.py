# C12 — spinlocks exclude, hand over in order, and lock guards stay balanced
import os, sys
sys.path.insert(0, os.path.join(os.path.dirname(__file__), '..', 'engine'))
from run import Q, Unit
UNITS = [Unit('c12')]
SPIN = 3          # spin-loop iterations explored per lock() before the thread is cut as "blocked"
IGN = r'^(t_lock|s_lock)\.unwind'   # spin loops: unbounded by design; cut after SPIN iterations (stated abstraction)

def queries(tier):
    qs = []
    cfgs = [('ticket', 2, 1, True), ('simple', 2, 1, True), ('ticket', 3, 1, False), ('simple', 3, 1, False), ('ticket', 2, 2, True)]
    if tier == 'thorough':
        cfgs += [('simple', 2, 2, True), ('ticket', 3, 2, False), ('simple', 3, 2, False), ('ticket', 4, 1, False)]
    for (lock, nt, pairs, hb) in cfgs:
        defs = {'LOCK_' + lock.upper(): 1, 'NT': nt, 'PAIRS': pairs, 'IR2C_EVENTS': 1}
        if hb: defs['HB'] = 1
        qs.append(Q('%s.t%d.p%d%s' % (lock, nt, pairs, '.hb' if hb else ''), 'c12', 'c12_spin.c', 'harness', defs=defs, unwind=SPIN, ignore=IGN,
                    inline_witness=True, timeout=1500, mem_gb=4, replay=False,
                    bounds={'threads': nt, 'lock/unlock pairs per thread': pairs, 'spin iterations per lock()': SPIN, 'interleavings': 'all (sequential consistency, granularity of atomic operations)',
                            'memory orders': 'vector-clock happens-before monitor over the orders in the IR' if hb else 'not evaluated in this query'},
                    what='%s_spinlock: mutual exclusion%s%s, grant accounting, all threads can complete' % (lock, ', FIFO by ticket' if lock == 'ticket' else '', ', acquire/release pairing (HB)' if hb else '')))
    for lock in ('ticket', 'simple'):
        qs.append(Q('%s.sequential' % lock, 'c12', 'c12_spin.c', 'harness_seq', defs={'LOCK_' + lock.upper(): 1, 'NT': 1, 'PAIRS': 1}, unwind=4, ignore=IGN, inline_witness=True, timeout=300, mem_gb=2,
                    bounds={'threads': 1, 'pairs': 3}, what='%s_spinlock: is_locked() tracks lock()/unlock(); re-lockable after unlock' % lock))
    # the monitor validates itself on every run
    qs.append(Q('litmus.mp.rel-acq', 'c12', 'c12_spin.c', 'harness_litmus', defs={'LITMUS': 0, 'HB': 1, 'IR2C_EVENTS': 1, 'NT': 2, 'PAIRS': 1}, unwind=2, kind='main', inline_witness=True, timeout=300, mem_gb=2, replay=False,
                bounds={'threads': 2}, what='monitor self-test: message passing with release/acquire is race-free'))
    for lit, nm in ((1, 'relaxed-store'), (2, 'relaxed-load')):
        qs.append(Q('litmus.mp.%s' % nm, 'c12', 'c12_spin.c', 'harness_litmus', defs={'LITMUS': lit, 'HB': 1, 'IR2C_EVENTS': 1, 'NT': 2, 'PAIRS': 1}, unwind=2, kind='witness', match='litmus: plain accesses not ordered',
                    group='litmus.mp.rel-acq', timeout=300, mem_gb=2, replay=False, bounds={'threads': 2}, what='monitor self-test: message passing with a %s must be reported as a race' % nm))
    K = 4 if tier == 'quick' else 7
    for kind, nm in ((1, 'unique_lock'), (2, 'shared_lock'), (3, 'qs_lock_guard')):
        for k in ([K] if tier == 'quick' else [4, K]):
            qs.append(Q('%s.hist%d' % (nm, k), 'c12', 'c12_guard.c', 'harness', defs={'KIND': kind, 'K': k}, unwind=k + 1, inline_witness=True, timeout=1500, mem_gb=6,
                        bounds={'guard operations': k, 'guards': 2, 'mutexes': 2, 'ops': 'construct default/locking/deferred/adopting, lock, unlock, move-construct, move-assign (incl. self), swap, destroy, guard() factories' if kind != 3 else 'construct, lock, unlock, destroy'},
                        what='%s: every history of %d guard operations keeps lock/unlock calls balanced, is_locked()/protects() exact, nothing held after destruction' % (nm, k)))
    return qs

def validation_queries(tier):
    return [Q('guard.ul.validate', 'c12', 'c12_guard.c', 'harness', defs={'KIND': 1, 'K': 5}),
            Q('guard.sl.validate', 'c12', 'c12_guard.c', 'harness', defs={'KIND': 2, 'K': 5}),
            Q('spin.seq.validate', 'c12', 'c12_spin.c', 'harness_seq', defs={'LOCK_TICKET': 1, 'NT': 1, 'PAIRS': 1})]
VALIDATE_VECTORS = 300
LEVEL = 'model_checking'
TECHNIQUE = 'CBMC bounded model checking of the clang-lowered code: all SC interleavings of 2-4 threads + vector-clock happens-before monitor over the IR memory orders; bounded guard-operation histories'
FUNCTION_PATTERNS = [r'frg::', r'^[ts]_(lock|unlock|is_locked|init)', r'^(ul|sl|qg)_']
ASSUMPTIONS = [
    'interleavings are sequentially consistent at the granularity of the translated atomic operations; weakened release/acquire orders are detected by the happens-before monitor (validated by litmus queries on every run), other non-SC behaviours of relaxed atomics are outside the claim',
    'spin loops: %d iterations explored per lock(); a thread that would spin longer is cut (blocked-until-free abstraction); fairness/liveness beyond "every thread can complete" (witness) is not modelled' % SPIN,
    'guard histories: callers respect the documented preconditions (lock() only on an unlocked guard with a mutex, unlock() only on a locked guard, adopt only a mutex the caller holds)',
]
OUTSIDE = ['more than 4 threads / more than 2 pairs per thread', 'ticket counter wrap-around after 2^32 acquisitions', 'guard histories longer than K operations or over more than two guards and two mutexes']
