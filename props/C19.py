# C19 — printf/fmt formatting matches the C standard and the documented spec grammar
#
# Decomposition (forced by measurement, see DESIGN.md section 4 "C19" and the notes at the end of this file):
#   parse.*   (A) printf_format alone, recording agent: every directive of the grammar (all pieces solver-chosen) -> the options,
#                 conversion, length modifier and argument handed to the agent; literal text in order
#   opts.*    (B) do_printf_ints / do_printf_chars alone: flags, width, precision solver-chosen; conversion x length modifier x
#                 value class fixed per query (so that symbolic execution follows ONE conversion path)
#   e2e.*     (C) the whole pipeline printf_format + do_printf_* on formats whose SHAPE is pinned per query (a covering family,
#                 incl. positional n$ and several directives); * arguments and values solver-chosen
#   poparg.*      pop_arg histories: sequential and positional (cache) fetches of all argument types
#   digits.*      print_digits / print_int alone: radix 16/8/2 at full 64-bit width, radix 10 for all values < 10^D
#   fmt.*         fmt(): templates of literal text + {}-specs with solver-chosen digits / stray bytes against the documented grammar
#   log.*         stack_buffer_logger<sink,8>: messages of every length 0..3*Limit in solver-chosen pieces through all append paths
# The oracle (harness/c19_printf.c: ref_directive) is cross-checked against glibc snprintf natively on EVERY run (prepare()).
import os, sys, re, subprocess
sys.path.insert(0, os.path.join(os.path.dirname(__file__), '..', 'engine'))
from run import Q, Unit, VERIF, ENGINE
Broken = getattr(sys.modules.get('__main__'), 'Broken', RuntimeError)    # the runner's own exception class (run.py executes as __main__)
UNITS = [Unit('c19_printf'), Unit('c19_fmt'), Unit('c19_log')]
NOPIN = -1000
ALLQ = []
CONVS = 'diuoxXcsp%bB'
LMS = ['', 'hh', 'h', 'l', 'll', 'z', 't', 'j']
FLAGCH = "-+ #'0"      # bit order used by the harness: 1 '-', 2 '+', 4 ' ', 8 '#', 16 '0', 32 '\''

def pins(*ds):
    rows = []
    for d in list(ds) + [{}] * (3 - len(ds)):
        rows.append('{' + ','.join(str(d.get(k, NOPIN)) for k in ('flags', 'wmode', 'width', 'pmode', 'prec', 'lm', 'conv', 'pos', 'vclass')) + '}')
    return '{' + ','.join(rows) + '}'

def ndigits(conv, vclass, dmax_digits=3):
    c = CONVS[conv]
    if c in 'diu': return dmax_digits if vclass == 0 else 20
    return {'o': 22, 'x': 16, 'X': 16, 'p': 16, 'b': 64, 'B': 64}.get(c, 1)

def PQ(name, entry, defs, wmax, digits, slen=5, ndir=1, **kw):
    """a printf query: all loop bounds follow from the width/precision bound and the number of digits (unwinding assertions on)"""
    b = max(wmax, digits, slen) + 2
    defs = dict(defs); defs['WMAX'] = wmax; defs['NDIR'] = ndir
    kw.setdefault('timeout', 900); kw.setdefault('mem_gb', 4)
    q = Q(name, 'c19_printf', 'c19_printf.c', entry, defs=defs, unwind=b,
          unwind_fn=[(r'printf_format', 8), (r'do_printf', b), (r'^ref_dec', digits + 2), (r'^ref_number', digits + 2), (r'^ref_(finish|at)', 8),
                     (r'^(put_|choose|harness)', 12), (r'^ir2c_', 40)],
          inline_witness=True, **kw)
    q.c19 = {'digit_loop': digits + 2, 'pad_loops': b}
    return q

def dir_defined(conv, lm, flags, wmode, pmode):
    c = CONVS[conv]
    if c in 'diuoxXbB':
        if flags & 8 and c in 'diu': return False
        if flags & 32 and c not in 'diu': return False
        return True
    if lm or flags & ~1: return False
    if c == 'c': return pmode == 0
    if c == 's': return True
    return not flags and wmode == 0 and pmode == 0

def fmt_of(d):
    s = '%'
    if CONVS[d['conv']] == '%': return '%%'
    if d.get('pos'): s += '%d$' % d['pos']
    fl = ''.join(ch for i, ch in enumerate("-+ #0'") if d.get('flags', 0) & [1, 2, 4, 8, 16, 32][i])
    s += fl[::-1] if d.get('flags', 0) & 64 else fl
    s += {0: '', 1: str(d.get('width', 0)), 2: '*'}[d.get('wmode', 0)]
    s += {0: '', 1: '.' + str(d.get('prec', 0)), 2: '.*', 3: '.'}[d.get('pmode', 0)]
    return s + LMS[d.get('lm', 0)] + CONVS[d['conv']]

def e2e_family(tier):
    """a covering family of pinned format shapes: every conversion x length modifier, each with several flag / width / precision shapes
    drawn round-robin from the lists below (all pairs of (flag set, width kind), (flag set, precision kind) occur for the integer conversions)"""
    FL = [0, 1, 16, 2, 4, 8, 17, 18, 20, 24, 9, 32, 48, 3, 6, 1 | 64 | 16, 2 | 16 | 64 | 4, 63 & ~8 | 64, 8 | 16 | 1 | 64]
    W = [(0, 0), (1, 1), (1, 5), (1, 12), (1, 70), (2, 0)]
    P = [(0, 0), (3, 0), (1, 0), (1, 1), (1, 7), (1, 70), (2, 0)]
    per = 3 if tier == 'quick' else 14
    out = []; seen = set()
    for conv in range(12):
        for lm in range(8):
            k = 0; i = 0
            while k < per and i < 400:
                fl = FL[(i * 7 + conv + 3 * lm) % len(FL)]; w = W[(i * 5 + lm + conv) % len(W)]; p = P[(i * 3 + conv * 2 + lm) % len(P)]
                vc = (i * 4 + conv + lm * 2) % 9
                i += 1
                if CONVS[conv] in 'diu': fl &= ~8
                else: fl &= ~32
                if not dir_defined(conv, lm, fl & 63, w[0], p[0]):
                    if CONVS[conv] in 'csp%' and lm == 0 and k == 0 and i > 40:   # the few defined shapes of c s p %
                        fl = 0; w = (0, 0); p = (0, 0)
                    else: continue
                if CONVS[conv] not in 'diuoxXbB': vc = 0
                d = {'conv': conv, 'lm': lm, 'flags': fl, 'wmode': w[0], 'width': w[1] if w[0] == 1 else NOPIN, 'pmode': p[0], 'prec': p[1] if p[0] == 1 else NOPIN, 'pos': 0, 'vclass': vc}
                key = (fmt_of(d), vc)
                if key in seen: continue
                seen.add(key); out.append(d); k += 1
    # the shapes of c s p % (only '-' / width / precision are defined for them)
    for d in [{'conv': 6}, {'conv': 6, 'flags': 1, 'wmode': 1, 'width': 4}, {'conv': 6, 'wmode': 2}, {'conv': 7}, {'conv': 7, 'wmode': 1, 'width': 8, 'pmode': 1, 'prec': 3},
              {'conv': 7, 'flags': 1, 'wmode': 2, 'pmode': 2}, {'conv': 7, 'pmode': 3}, {'conv': 8}, {'conv': 9}]:
        dd = {'lm': 0, 'flags': 0, 'wmode': 0, 'width': NOPIN, 'pmode': 0, 'prec': NOPIN, 'pos': 0, 'vclass': 0}; dd.update(d)
        if (fmt_of(dd), 0) not in seen: seen.add((fmt_of(dd), 0)); out.append(dd)
    return out

def positional_family(tier):
    """numbered directives %n$...: (position, conversion, length modifier, width) sequences that reference every argument 1..max (POSIX) and do not
    read an argument with a wider type than it was first fetched with (known finding printf-positional-widening, shown by poparg.known)"""
    d_, ld, s_, c_, x_, u_ = (0, 0), (0, 3), (7, 0), (6, 0), (4, 0), (2, 0)
    fam = [[(2, d_), (1, d_)], [(2, d_), (1, d_), (2, d_)], [(1, d_), (1, x_)], [(3, d_), (1, d_), (2, u_)], [(1, s_), (2, d_)], [(2, ld), (1, ld), (2, ld)],
           [(2, s_), (1, s_)], [(1, c_), (1, c_)], [(2, x_), (2, x_), (1, u_)], [(1, ld), (2, d_), (1, ld)]]
    if tier == 'thorough':
        fam += [[(3, ld), (2, s_), (1, ld)], [(1, d_), (2, d_), (3, d_)], [(3, d_), (2, d_), (1, d_)], [(2, s_), (1, d_)], [(1, x_), (2, ld), (2, d_)]]
    out = []
    for seq in fam:
        ds = []
        for j, (pos, (conv, lm)) in enumerate(seq):
            ds.append({'conv': conv, 'lm': lm, 'flags': 0 if conv in (6, 7) else [0, 16, 1][j % 3], 'wmode': 1 if j % 2 else 0, 'width': 4 if j % 2 else NOPIN, 'pmode': 0, 'prec': NOPIN, 'pos': pos, 'vclass': 0})
        out.append(ds)
    return out

FMT_TEMPLATES = [
    # (template, decimal rendering possible, width bound, quick?)   'D' = solver-chosen digit, '?' = solver-chosen byte (not a brace)
    ('{}', 1, 0, 1), ('a{}b{}c{}d', 1, 0, 1), ('{}{}{}{}', 1, 0, 1), ('{D}', 1, 0, 1), ('{DD}', 1, 0, 1), ('x{D}y{D}z', 1, 0, 1), ('{D}{}', 1, 0, 0),
    ('{:x}', 0, 0, 1), ('{:X}', 0, 0, 1), ('{:b}', 0, 0, 1), ('{:o}', 0, 0, 1), ('{:d}', 1, 0, 1), ('{:i}', 1, 0, 1), ('{:c}', 0, 0, 1), ('{D:c}', 0, 0, 1), ('{:}', 1, 0, 1), ('{D:}', 1, 0, 1),
    ('{:0Dx}', 0, 9, 1), ('{:1Dx}', 0, 19, 1), ('{D:01DX}', 0, 19, 1), ('{:0Dd}', 1, 9, 1), ('{D:Dd}', 1, 9, 1), ('{:D}', 1, 9, 1), ('{:0D}', 1, 9, 1), ('{:00D}', 1, 9, 0), ('{D:0Do}', 0, 9, 1), ('{D:1Db}', 0, 19, 1),
    ('{:070d}', 1, 70, 1), ('{D:70x}', 0, 70, 0), ('{:064b}', 0, 64, 0),
    ('{:08X}{}', 1, 8, 1), ('{:0Dx}{:d}{:c}', 1, 9, 1), ('{D:X}{D:Dd}', 1, 9, 1), ('{:b}{:Do}', 0, 9, 0),          # a later spec must not inherit options
    ('{{}', 1, 0, 1), ('{{{}', 1, 0, 1), ('}{', 1, 0, 1), ('{', 1, 0, 1), ('{:', 1, 0, 1), ('{:0D', 1, 0, 1), ('ab{', 1, 0, 1), ('{}}', 1, 0, 1), ('{{}}', 1, 0, 1), ('a{{b', 1, 0, 0),
    ('{:h}', 1, 0, 1), ('{:?}', 1, 0, 1), ('{?}', 1, 0, 1), ('{D?}', 1, 0, 1), ('{:D?}', 1, 9, 1), ('{:x?}', 0, 0, 1), ('{::}', 1, 0, 1), ('{D:D:}', 1, 9, 0), ('{: x}', 0, 0, 1), ('{?:x}', 0, 0, 1),
    ('{:xD}', 0, 0, 1), ('{:-Dd}', 1, 0, 0), ('{D}{?}{}', 1, 0, 0), ('{:h}{}', 1, 0, 1), ('{D}{D}{D}', 1, 0, 0),
]

def queries(tier):
    qs = []
    quick = tier == 'quick'
    WB = 12 if quick else 24           # symbolic width/precision bound of the (B) queries (larger values: concrete, in e2e.* and thorough opts.w70.*)
    D10 = 3                            # radix-10 digit bound of the layout queries
    # ---------------------------------------------------------------- (A) parser
    for nd, only_q in ((1, True), (2, True), (3, False)):
        if quick and not only_q: continue
        qs.append(PQ('parse.n%d' % nd, 'harness_parse', {}, 70, 1, ndir=nd, timeout=1500, mem_gb=6,
                     bounds={'directives': nd, 'flags': 'any subset of - + space # 0 \', either order', 'width': 'none / 1..70 / * with argument -70..70', 'precision': 'none / . / .0...70 / .* with argument -2..70',
                             'length modifier': 'none hh h l ll z t j', 'conversion': 'd i u o x X c s p % b B', 'n$': 'none or 1..3 on every directive', 'literal text': 'optional byte before, between, after', 'argument words': 'arbitrary 64-bit'},
                     what='printf_format hands the agent exactly the directive written (%d directive%s): conversion, length modifier, flags, width, precision, n$; * arguments and the value are fetched in order; literal text passes through' % (nd, 's' if nd > 1 else '')))
    # ---------------------------------------------------------------- (B) conversion back ends
    int_convs = [0, 2, 3, 4, 5, 10] if quick else [0, 1, 2, 3, 4, 5, 10, 11]
    lms = [0, 1, 2, 3] if quick else list(range(8))
    for conv in int_convs:
        for lm in lms:
            vcs = [0] + ([3, 4, 5] if conv in (0, 2, 3, 4) else []) if quick else list(range(9))
            for vc in vcs:
                dg = ndigits(conv, vc, D10)
                qs.append(PQ('opts.%s%s.v%d' % (LMS[lm], CONVS[conv], vc), 'harness_opts', {'PINS': pins({'conv': conv, 'lm': lm, 'vclass': vc})}, WB, dg,
                             bounds={'conversion': '%' + LMS[lm] + CONVS[conv], 'flags': 'any subset ISO C defines for the conversion', 'width': '0..%d' % WB, 'precision': 'absent or 0..%d' % WB,
                                     'value': ('every argument word whose converted value is below 10^%d in magnitude' % D10 if CONVS[conv] in 'diu' else 'every 64-bit argument word') if vc == 0 else 'boundary constant #%d of the length modifier (0, 1, -1/max, min, max, and words differing only in discarded bits)' % vc},
                             what='do_printf_ints %%%s%s: output equals ISO C for every flag set, width and precision' % (LMS[lm], CONVS[conv])))
    for conv in (6, 7, 8):
        qs.append(PQ('opts.%s' % CONVS[conv], 'harness_opts', {'PINS': pins({'conv': conv, 'lm': 0, 'vclass': 0})}, 70 if conv != 8 else 1, ndigits(conv, 0),
                     bounds={'conversion': '%' + CONVS[conv], 'flags': '- or none', 'width': '0..70', 'precision': 'absent or 0..70 (s only)', 'value': 'any character / any string of up to 5 bytes / any 64-bit pointer value'},
                     what='do_printf_chars %%%s: padding, precision truncation, 0x<hex> pointer form' % CONVS[conv]))
    if not quick:
        for conv in (0, 2, 3, 4, 10):
            for vc in (0, 3, 4):
                qs.append(PQ('opts.w70.%s.v%d' % (CONVS[conv], vc), 'harness_opts', {'PINS': pins({'conv': conv, 'lm': 3, 'vclass': vc})}, 70, ndigits(conv, vc, D10), timeout=3000, mem_gb=8,
                             bounds={'conversion': '%l' + CONVS[conv], 'width': '0..70', 'precision': 'absent or 0..70'}, what='do_printf_ints %%l%s with width and precision up to 70' % CONVS[conv]))
    # ---------------------------------------------------------------- (C) whole pipeline on pinned shapes
    for d in e2e_family(tier):
        f = fmt_of(d); wm = max(d['width'] if d['wmode'] == 1 else 12 if d['wmode'] == 2 else 0, d['prec'] if d['pmode'] == 1 else 12 if d['pmode'] == 2 else 0, 1)
        qs.append(PQ('e2e[%s].v%d' % (f, d['vclass']), 'harness_layout', {'PINS': pins(d)}, wm, ndigits(d['conv'], d['vclass'], D10), timeout=600, mem_gb=3,
                     bounds={'format': f, '* arguments': '-%d..%d / -2..%d' % (wm, wm, wm), 'value class': d['vclass'], 'literal text': 'optional byte before and after'},
                     what='printf_format + do_printf_* on "%s": output equals ISO C' % f))
    for ds in positional_family(tier):
        f = ' '.join(fmt_of(d) for d in ds)
        qs.append(PQ('e2e[%s]' % f, 'harness_layout', {'PINS': pins(*ds)}, 4, D10, ndir=len(ds), timeout=600, mem_gb=3,
                     bounds={'format': f, 'values': 'decimal below 10^%d in magnitude, else any' % D10}, what='numbered arguments: "%s" prints each designated argument' % f))
    # ---------------------------------------------------------------- pop_arg
    for k in ([3] if quick else [3, 4]):
        qs.append(Q('poparg.k%d' % k, 'c19_printf', 'c19_printf.c', 'harness_poparg', defs={'K': k}, unwind=12, inline_witness=True, timeout=900, mem_gb=4,
                    bounds={'fetches': k, 'argument words': 4, 'types': 'int long void* signed/unsigned char/short unsigned unsigned long', 'mode': 'all sequential, or all positional with positions 1..4'},
                    what='pop_arg: every history of %d fetches returns the designated argument converted to the requested type (positional cache included)' % k))
    qs.append(Q('poparg.known.widening', 'c19_printf', 'c19_printf.c', 'harness_poparg', defs={'K': 2, 'KF_WIDENING': 1}, unwind=12, kind='known', known='printf-positional-widening',
                match='pop_arg yields the argument', timeout=600, mem_gb=4, bounds={'fetches': 2},
                what='known finding: an argument first cached with a narrow type (e.g. %2$d caching argument 1 as int) is later read with a wider one (%1$ld / %1$s)'))
    # ---------------------------------------------------------------- digit kernel
    for r, dg in ((16, 16), (8, 22), (2, 64)):
        qs.append(PQ('digits.r%d' % r, 'harness_digits', {'RADIX': r}, 6 if quick else 12, dg, bounds={'radix': r, 'value': 'any 64-bit magnitude, either sign; print_int<int64>/<int32> incl. the most negative value', 'width/precision': '0..%d' % (6 if quick else 12)},
                     what='print_digits/print_int radix %d at full width' % r))
    for dd in ([3] if quick else [3, 4, 5]):
        qs.append(PQ('digits.r10.d%d' % dd, 'harness_digits', {'RADIX': 10, 'DMAX': 10 ** dd}, 6, dd, timeout=3000 if dd > 3 else 900, optional=dd > 4,
                     bounds={'radix': 10, 'value': 'every magnitude below 10^%d, either sign' % dd, 'width/precision': '0..6'}, what='print_digits/print_int radix 10, all values below 10^%d' % dd))
    # ---------------------------------------------------------------- fmt()
    for (t, dec, wm, inq) in FMT_TEMPLATES:
        if quick and not inq: continue
        fvs = [0] if quick else [0, 3, 4, 5]
        if quick and t in ('{}', '{:x}', '{:0Dd}', 'a{}b{}c{}d'): fvs = [0, 3, 4]
        for fv in fvs:
            dg = 64 if 'b' in t else 22 if 'o' in t else 16 if not dec else 20 if fv else D10
            dg = max(dg, 20 if fv else D10) if dec else dg
            b = max(wm, dg) + 2
            defs = {'TEMPLATE': '"%s"' % t, 'FV': fv}
            if dec: defs['DEC'] = 1
            qs.append(Q('fmt[%s].v%d' % (t, fv), 'c19_fmt', 'c19_fmt.c', 'harness_fmt', defs=defs, unwind=max(b, len(t) + 3),
                        unwind_fn=[(r'^ref_dec', dg + 2), (r'^ref_number', dg + 2), (r'^ref_(finish|at)', 8), (r'parse_fmt_spec|format_object|fmt_ref|spec_parse|harness', len(t) + 3)],
                        inline_witness=True, timeout=600, mem_gb=3,
                        bounds={'template': t, 'D': 'any digit', '?': 'any byte except braces', 'arguments': '(int, unsigned long, char): ' + ('any, decimal renderings below 10^%d in magnitude' % D10 if fv == 0 else 'boundary tuple #%d' % fv)},
                        what='fmt("%s", int, unsigned long, char) renders per the documented grammar; malformed / out-of-range specs echoed' % t))
    for t in ['{}', 'a{D}b', '{:x}']:
        qs.append(Q('fmt0[%s]' % t, 'c19_fmt', 'c19_fmt.c', 'harness_fmt', defs={'TEMPLATE': '"%s"' % t, 'NARGS': 0}, unwind=12, inline_witness=True, timeout=300, mem_gb=2,
                    bounds={'template': t, 'arguments': 'none'}, what='fmt("%s") without arguments echoes every spec' % t))
    # ---------------------------------------------------------------- logger
    for n in (range(0, 25) if not quick else [0, 1, 6, 7, 8, 9, 13, 14, 15, 16, 20, 21, 22, 24]):
        qs.append(Q('log.len%d' % n, 'c19_log', 'c19_log.c', 'harness_log', defs={'LEN': n}, unwind=max(n, 8) + 3, inline_witness=True, timeout=600, mem_gb=3,
                    bounds={'message length': n, 'Limit': 8, 'pieces': '3 of solver-chosen lengths, each through append(char) / append(const char*) / operator<<(const char*)', 'endlog': 'with and without'},
                    what='stack_buffer_logger<sink,8>: a %d-byte message reaches the sink complete, in order, in chunks of at most 7 bytes' % n))
    ALLQ[:] = qs
    return qs

def prepare(R):
    # 1. the oracle and the format assembler against glibc snprintf (native, ~17 million directive/value combinations)
    exe = os.path.join(R.work, 'c19_xcheck')
    r = subprocess.run(['gcc', '-std=gnu11', '-O1', '-w', '-DC19_XCHECK', '-DVP_NATIVE', '-I', ENGINE, '-I', os.path.join(VERIF, 'harness'), os.path.join(VERIF, 'harness', 'c19_printf.c'), '-o', exe],
                       stdout=subprocess.PIPE, stderr=subprocess.STDOUT, text=True)
    if r.returncode != 0: raise Broken('C19 oracle cross-check does not build:\n' + r.stdout[-2000:])
    r = subprocess.run([exe], stdout=subprocess.PIPE, stderr=subprocess.STDOUT, text=True)
    if r.returncode != 0: raise Broken('C19: the ISO C interpreter of the harness disagrees with glibc snprintf:\n' + r.stdout[-3000:])
    R.say('[oracle] ' + r.stdout.strip().split('\n')[-1])
    # 2. per-loop bounds for print_digits: the digit loop (the one that divides) gets the digit bound, all other loops the width bound
    c = os.path.join(R.work, 'c19_printf.c')
    r = subprocess.run(['cbmc', os.path.join(VERIF, 'harness', 'c19_printf.c'), c, '--function', 'harness_opts', '-I', R.work, '-I', ENGINE, '-I', os.path.join(VERIF, 'harness'), '--show-loops'],
                       stdout=subprocess.PIPE, stderr=subprocess.STDOUT, text=True)
    loops = {}
    for m in re.finditer(r'^Loop (\S+?)\.(\d+):\n\s+file \S+ line (\d+)', r.stdout, re.M):
        if 'print_digits' in m.group(1): loops.setdefault(m.group(1), []).append((int(m.group(3)), int(m.group(2))))
    if not loops: raise Broken('C19 prepare: no print_digits loops found')
    src = open(c).read().split('\n')
    digit, pad = [], []
    for fn, ls in loops.items():
        ls.sort()
        start = max(i for i, l in enumerate(src[:ls[0][0]]) if (fn + '(') in l and l.rstrip().endswith('{'))
        div = [i + 1 for i in range(start, ls[-1][0]) if '"udiv"' in src[i] or '"sdiv"' in src[i]]
        if len(div) != 1: raise Broken('C19 prepare: expected exactly one division in %s, found %d' % (fn, len(div)))
        dl = min(l for l in ls if l[0] >= div[0])
        for l in ls: (digit if l == dl else pad).append('%s.%d' % (fn, l[1]))
    for q in ALLQ:
        if hasattr(q, 'c19') and not getattr(q, '_c19_done', False):
            q.unwindset = list(q.unwindset) + ['%s:%d' % (l, q.c19['digit_loop']) for l in digit] + ['%s:%d' % (l, q.c19['pad_loops']) for l in pad]
            q._c19_done = True

def validation_queries(tier):
    V = lambda n, e, h='c19_printf', d=None: Q(n, h, h + '.c', e, defs=d or {})
    return [V('layout.validate', 'harness_layout', d={'NDIR': 2}), V('parse.validate', 'harness_parse', d={'NDIR': 2}), V('opts.validate', 'harness_opts'), V('poparg.validate', 'harness_poparg', d={'K': 4}),
            V('digits10.validate', 'harness_digits', d={'RADIX': 10}), V('digits16.validate', 'harness_digits', d={'RADIX': 16}),
            V('fmt.validate', 'harness_fmt', 'c19_fmt', {'TEMPLATE': '"a{D:0Dx}b{}c{:?}{D}"', 'DEC': 1}), V('fmt2.validate', 'harness_fmt', 'c19_fmt', {'TEMPLATE': '"{:c}{:1Db}{{{D:X}"'}),
            V('log.validate', 'harness_log', 'c19_log', {'LEN': 17})]
VALIDATE_VECTORS = 20
LEVEL = 'model_checking'
TECHNIQUE = ('bounded model checking (CBMC, SAT) of the clang-lowered real code against an independent ISO C interpreter written in the harness (cross-checked against glibc snprintf natively on every run); '
             'the sink compares every byte on the spot with the byte the interpreter expects at that position')
FUNCTION_PATTERNS = [r'frg::', r'^c19_']
ASSUMPTIONS = [
    'decomposition at the agent interface: parse.* prove that printf_format hands the agent exactly the written directive (and fetches * arguments in order); opts.* prove that do_printf_ints/do_printf_chars '
    'render every such option set per ISO C; e2e.* re-check the composition on a covering family of concrete format shapes.  The agent is the one of the repository\'s own test (dispatch on the conversion character)',
    'argument passing: System V x86-64 va_list with the register save area exhausted (every variadic argument in one 8-byte overflow slot, upper half of int-class arguments arbitrary)',
    'radix-10 conversions: argument values below 10^3 in magnitude (solver-chosen) plus the concrete boundary values 0, +-1, min, max (and neighbours) of every length modifier; radix 16/8/2: every 64-bit value',
    'combinations ISO C leaves undefined are not demanded: # with d i u c s p, 0 with c s p, a precision with c p, length modifiers with c s p, flags other than - with c s; %p and %% in their bare forms (frigg documents 0x<hex>); the \' flag in the "C" locale (no grouping)',
    'numbered arguments (n$): every argument 1..max is referenced (POSIX), width/precision literal (frigg has no *m$), and no argument is read with a wider type than the one it was first fetched with (known finding printf-positional-widening)',
    'fmt(): a spec without a position takes the argument whose index is the number of specs closed before it; a width or zero fill together with the c conversion is undocumented and not demanded',
    'clang-14 -O1 lowering is the semantics checked; the ir2c translation is validated differentially (generated C vs g++ build of the real headers) on every run',
]
OUTSIDE = ['floating-point conversions (%f %e %g), %ls / %lc, %n', 'radix-10 values with more than 3 digits other than the boundary constants (digit kernel: digits.r10.* cover up to 10^5 in the thorough tier)',
           'widths and precisions above 70; symbolic widths above 12 (quick) / 24 (thorough) in opts.* — larger ones are concrete (e2e.*, opts.w70.*)',
           'locale_options other than the default (thousands separators / grouping strings)', 'agents other than the test agent; sinks that fail',
           'fmt() argument types other than int, unsigned long, char; more than three arguments', 'logger Limit other than 8; text appended after endlog']
