# C19 — printf/fmt formatting matches the C standard and the documented spec grammar
#
# Decomposition (forced by measurement, see DESIGN.md section 4 "C19" and the notes below):
#   opts.*    (B) do_printf_ints / do_printf_chars alone: flags, width, precision solver-chosen; conversion x length modifier x
#                 value class fixed per query (so that symbolic execution follows ONE conversion path)
#   e2e.*     (C) the whole pipeline printf_format + do_printf_* on formats whose SHAPE is pinned per query (a covering family over
#                 conversion x length modifier x flag sets x width/precision forms incl. * arguments, positional n$ and several
#                 directives, literal text around); argument values solver-chosen
#   poparg.*      pop_arg histories: sequential and positional (cache) fetches of all argument types, positions solver-chosen
#   digits.*      print_digits / print_int alone: radix 16/8/2 at full 64-bit width, radix 10 for all values < 10^D
#   fmt.*         fmt(): concrete format strings (literal text + {}-specs, malformed / out-of-range / unclosed ones) with solver-chosen
#                 argument tuples against an independent interpreter of the documented grammar
#   log.*         stack_buffer_logger<sink,8>: messages of every length 0..3*Limit, split in three pieces, bytes and append path solver-chosen
# The oracle (harness/c19_printf.c: ref_directive) is cross-checked against glibc snprintf natively on EVERY run (prepare()).
#
# Measured facts behind this shape (CBMC 6.11, cadical):
#  * a directive whose pieces are ALL solver-chosen makes the parse position symbolic: symbolic execution then enters every conversion x
#    length-modifier instantiation of print_digits and does not finish (600 s, also with --paths); ir2c's pointer-phi encoding (sel_/pin_)
#    additionally turns one symbolic branch in front of a merged `s` into a read through an unassigned pointer.  Hence: the SHAPE of every
#    format is concrete per query (incl. the literal bytes and the values of * arguments), the breadth comes from many cheap queries.
#  * output arrays written at solver-chosen indices (sink buffer + reference buffer + comparison) cost 5-20x more than comparing each byte
#    on the spot with a closed-form "expected byte at position i" (c19_ref.h).
#  * the radix-10 digit loop gets its own unwinding bound (prepare() finds the loop that divides), otherwise 2 x 64-bit dividers x width bound.
import os, sys, re, subprocess
sys.path.insert(0, os.path.join(os.path.dirname(__file__), '..', 'engine'))
from run import Q, Unit, VERIF, ENGINE
Broken = getattr(sys.modules.get('__main__'), 'Broken', RuntimeError)    # the runner's own exception class (run.py executes as __main__)
UNITS = [Unit('c19_printf'), Unit('c19_fmt'), Unit('c19_log')]
NOPIN = -1000
ALLQ = []
CONVS = 'diuoxXcsp%bB'
LMS = ['', 'hh', 'h', 'l', 'll', 'z', 't', 'j']
FLAGCH = "-+ #'0"      # bit order used by the harness: 1 '-', 2 '+', 4 ' ', 8 '#', 16 '0', 32 '\''

def pins(*ds):
    rows = []
    for d in list(ds) + [{}] * (3 - len(ds)):
        rows.append('{' + ','.join(str(d.get(k, NOPIN)) for k in ('flags', 'wmode', 'width', 'pmode', 'prec', 'lm', 'conv', 'pos', 'vclass')) + '}')
    return '{' + ','.join(rows) + '}'

def ndigits(conv, vclass, dmax_digits=3):
    c = CONVS[conv]
    if c in 'diu': return dmax_digits if vclass == 0 else 20
    return {'o': 22, 'x': 16, 'X': 16, 'p': 16, 'b': 64, 'B': 64}.get(c, 1)

def PQ(name, entry, defs, wmax, digits, slen=5, ndir=1, **kw):
    """a printf query: all loop bounds follow from the width/precision bound and the number of digits (unwinding assertions on)"""
    b = max(wmax, digits, slen) + 2
    defs = dict(defs); defs['WMAX'] = wmax; defs['NDIR'] = ndir
    kw.setdefault('timeout', 900); kw.setdefault('mem_gb', 4)
    q = Q(name, 'c19_printf', 'c19_printf.c', entry, defs=defs, unwind=b,
          unwind_fn=[(r'printf_format', 8), (r'do_printf', b), (r'^ref_dec', digits + 2), (r'^ref_number', digits + 2), (r'^ref_(finish|at)', 8),
                     (r'^(put_|choose|harness)', 12), (r'^ir2c_', 40)],
          inline_witness=True, **kw)
    q.c19 = {'digit_loop': digits + 2, 'pad_loops': b}
    return q

def dir_defined(conv, lm, flags, wmode, pmode):
    c = CONVS[conv]
    if c in 'diuoxXbB':
        if flags & 8 and c in 'diu': return False
        if flags & 32 and c not in 'diu': return False
        return True
    if lm or flags & ~1: return False
    if c == 'c': return pmode == 0
    if c == 's': return True
    return not flags and wmode == 0 and pmode == 0

def fmt_of(d):
    s = '%'
    if CONVS[d['conv']] == '%': return '%%'
    if d.get('pos'): s += '%d$' % d['pos']
    fl = ''.join(ch for i, ch in enumerate("-+ #0'") if d.get('flags', 0) & [1, 2, 4, 8, 16, 32][i])
    s += fl[::-1] if d.get('flags', 0) & 64 else fl
    s += {0: '', 1: str(d.get('width', 0)), 2: '*'}[d.get('wmode', 0)]
    s += {0: '', 1: '.' + str(d.get('prec', 0)), 2: '.*', 3: '.'}[d.get('pmode', 0)]
    stars = [str(d[k]) for (m, k) in (('wmode', 'width'), ('pmode', 'prec')) if d.get(m, 0) == 2 and d.get(k, NOPIN) != NOPIN]
    return s + LMS[d.get('lm', 0)] + CONVS[d['conv']] + (('(' + ','.join(stars) + ')') if stars else '')

def e2e_family(tier):
    """a covering family of pinned format shapes: every conversion x length modifier, each with several flag / width / precision shapes
    drawn round-robin from the lists below (all pairs of (flag set, width kind), (flag set, precision kind) occur for the integer conversions)"""
    FL = [0, 1, 16, 2, 4, 8, 17, 18, 20, 24, 9, 32, 48, 3, 6, 1 | 64 | 16, 2 | 16 | 64 | 4, 63 & ~8 | 64, 8 | 16 | 1 | 64]
    W = [(0, 0), (1, 1), (1, 5), (1, 12), (1, 70), (2, 6), (2, -9), (2, 0), (2, 70), (2, -70)]
    P = [(0, 0), (3, 0), (1, 0), (1, 1), (1, 7), (1, 70), (2, 3), (2, -1), (2, 0), (2, 70)]
    per = 2 if tier == 'quick' else 5
    out = []; seen = set()
    for conv in range(12):
        for lm in range(8):
            k = 0; i = 0
            while k < per and i < 400:
                fl = FL[(i * 7 + conv + 3 * lm) % len(FL)]; w = W[(i * 5 + lm + conv) % len(W)]; p = P[(i * 3 + conv * 2 + lm) % len(P)]
                vc = (i * 4 + conv + lm * 2) % 9
                i += 1
                if CONVS[conv] in 'diu': fl &= ~8
                else: fl &= ~32
                if not dir_defined(conv, lm, fl & 63, w[0], p[0]):
                    if CONVS[conv] in 'csp%' and lm == 0 and k == 0 and i > 40:   # the few defined shapes of c s p %
                        fl = 0; w = (0, 0); p = (0, 0)
                    else: continue
                if CONVS[conv] not in 'diuoxXbB': vc = 0
                if tier == 'quick' and CONVS[conv] in 'bB' and vc == 0: vc = 3       # 64 binary digits of a solver-chosen value with width 70: 120 s; thorough only
                d = {'conv': conv, 'lm': lm, 'flags': fl, 'wmode': w[0], 'width': w[1] if w[0] else NOPIN, 'pmode': p[0], 'prec': p[1] if p[0] in (1, 2) else NOPIN, 'pos': 0, 'vclass': vc}
                key = (fmt_of(d), vc)
                if key in seen: continue
                seen.add(key); out.append(d); k += 1
    # the shapes of c s p % (only '-' / width / precision are defined for them)
    for d in [{'conv': 6}, {'conv': 6, 'flags': 1, 'wmode': 1, 'width': 4}, {'conv': 6, 'wmode': 2, 'width': -3}, {'conv': 7}, {'conv': 7, 'wmode': 1, 'width': 8, 'pmode': 1, 'prec': 3},
              {'conv': 7, 'flags': 1, 'wmode': 2, 'width': 7, 'pmode': 2, 'prec': 2}, {'conv': 7, 'wmode': 2, 'width': -6, 'pmode': 2, 'prec': -1}, {'conv': 7, 'pmode': 3}, {'conv': 8}, {'conv': 9}]:
        dd = {'lm': 0, 'flags': 0, 'wmode': 0, 'width': NOPIN, 'pmode': 0, 'prec': NOPIN, 'pos': 0, 'vclass': 0}; dd.update(d)
        if (fmt_of(dd), 0) not in seen: seen.add((fmt_of(dd), 0)); out.append(dd)
    return out

def positional_family(tier):
    """numbered directives %n$...: (position, conversion, length modifier, width) sequences that reference every argument 1..max (POSIX) and do not
    read an argument with a wider type than it was first fetched with (known finding printf-positional-widening, shown by poparg.known)"""
    d_, ld, s_, c_, x_, u_ = (0, 0), (0, 3), (7, 0), (6, 0), (4, 0), (2, 0)
    fam = [[(2, d_), (1, d_)], [(2, d_), (1, d_), (2, d_)], [(1, d_), (1, x_)], [(3, d_), (1, d_), (2, u_)], [(1, s_), (2, d_)], [(2, ld), (1, ld), (2, ld)],
           [(2, s_), (1, s_)], [(1, c_), (1, c_)], [(2, x_), (2, x_), (1, u_)], [(1, ld), (2, d_), (1, ld)]]
    if tier == 'thorough':
        fam += [[(3, ld), (2, s_), (1, ld)], [(1, d_), (2, d_), (3, d_)], [(3, d_), (2, d_), (1, d_)], [(2, s_), (1, d_)]]      # ([(1,x),(2,ld),(2,d)] removed: the harness's argument model cannot express it, its witness was unreachable)
    out = []
    for seq in fam:
        ds = []
        for j, (pos, (conv, lm)) in enumerate(seq):
            ds.append({'conv': conv, 'lm': lm, 'flags': 0 if conv in (6, 7) else [0, 16, 1][j % 3], 'wmode': 1 if j % 2 else 0, 'width': 4 if j % 2 else NOPIN, 'pmode': 0, 'prec': NOPIN, 'pos': pos, 'vclass': 0 if CONVS[conv] in 'cs' else ([0, 3, 5][pos - 1] if sum(1 for (p2, _) in seq if p2 == pos) == 1 else 2 + pos)})   # value class per ARGUMENT; an argument printed twice is a boundary constant (cost)
        out.append(ds)
    return out

def fmt_templates(tier):
    """(template, value classes): templates are concrete byte strings (a solver-chosen digit or stray byte would make the SHAPE of the expected output symbolic, which
    does not finish); generated from patterns by substituting D (digit) and ? (stray byte) from small sets.  Value class 0 = solver-chosen (int, unsigned long, char)."""
    quick = tier == 'quick'
    pats = [  # (pattern, quick value classes, thorough value classes)
        ('{}', [0, 3, 4], [0, 1, 2, 3, 4, 5, 6, 7]), ('a{}b{}c{}d', [3, 4], [0, 3, 4, 5]), ('{}{}{}{}', [4], [0, 3, 4]), ('{D}', [0], [0, 3, 4]), ('{DD}', [3], [0, 3]), ('x{D}y{D}z', [3], [0, 4]), ('{D}{}', [5], [0, 5]),
        ('{:x}', [0, 3, 4], [0, 1, 2, 3, 4, 5]), ('{:X}', [0], [0, 3, 4]), ('{:b}', [3, 4], [0, 3, 4, 5]), ('{:o}', [0], [0, 3, 4]), ('{:d}', [0, 4], [0, 3, 4, 5]), ('{:i}', [0], [0, 3, 4]), ('{:c}', [0], [0, 3, 6]),
        ('{D:c}', [0], [0, 6]), ('{:}', [0], [0, 4]), ('{D:}', [0], [0, 4]), ('{D:x}', [0], [0, 3, 4]), ('{D:b}', [3], [0, 3, 4]), ('{D:o}', [4], [0, 3, 4]),
        ('{:0Dx}', [0], [0, 3, 4]), ('{:1Dx}', [0], [0, 3]), ('{D:01DX}', [0], [0, 3, 4]), ('{:0Dd}', [0, 4], [0, 3, 4, 5]), ('{D:Dd}', [0], [0, 3, 4]), ('{:D}', [0], [0, 3]), ('{:0D}', [0], [0, 4]), ('{:00D}', [3], [0, 3]),
        ('{D:0Do}', [0], [0, 3]), ('{D:1Db}', [3], [0, 3]), ('{:012d}', [0], [0, 3, 4]), ('{:070d}', [4], [0, 4]), ('{D:70x}', [3], [0, 3]), ('{:064b}', [3], [3, 4]), ('{D:070b}', [], [3, 4]),
        ('{:08X}{}', [0], [0, 3, 4]), ('{:0Dx}{:d}{:c}', [4], [0, 4]), ('{D:X}{D:Dd}', [3], [0, 3]), ('{:b}{:Do}', [3], [3, 4]), ('{:09d}{}{}', [5], [0, 5]),          # a later spec must not inherit options
        ('{{}', [0], [0]), ('{{{}', [0], [0, 4]), ('}{', [0], [0]), ('{', [0], [0]), ('{:', [0], [0]), ('{:0D', [0], [0]), ('ab{', [0], [0]), ('{}}', [0], [0, 4]), ('{{}}', [0], [0]), ('a{{b', [0], [0]), ('{{{{', [0], [0]),
        ('{:h}', [0], [0]), ('{:?}', [0], [0]), ('{?}', [0], [0]), ('{D?}', [0], [0]), ('{:D?}', [0], [0]), ('{:x?}', [0], [0]), ('{::}', [0], [0]), ('{D:D:}', [0], [0]), ('{: x}', [0], [0]), ('{?:x}', [0], [0]),
        ('{:xD}', [0], [0]), ('{:-Dd}', [0], [0]), ('{D}{?}{}', [3], [0, 3]), ('{:h}{}', [0], [0, 4]), ('{D}{D}{D}', [4], [0, 4]), ('{:D?}{:Dx}', [3], [0, 3]), ('{:Dc}', [], []),
    ]
    DIG = '0213' if quick else '0123945678'
    STRAY = 'h -' if quick else 'h -0x:%Xq'
    out = []; seen = set()
    for (pat, fq, ft) in pats:
        nvar = 1 if ('D' not in pat and '?' not in pat) else ((2 if len(pat) < 6 else 1) if quick else 6)
        for v in range(nvar):
            t = ''; k = v
            for ch in pat:
                if ch == 'D': t += DIG[k % len(DIG)]; k += 1 + v
                elif ch == '?': t += STRAY[k % len(STRAY)]; k += 1
                else: t += ch
            if t in seen: continue
            seen.add(t)
            out.append((t, fq if quick else ft))
    return out

def queries(tier):
    qs = []
    quick = tier == 'quick'
    WB = 12 if quick else 20           # symbolic width/precision bound of the (B) queries (larger values: concrete, in e2e.* and thorough opts.w70.*)
    D10 = 3                            # radix-10 digit bound of the layout queries
    # ---------------------------------------------------------------- (A) parser
    # (measured: with the directive's pieces solver-chosen the parse position is symbolic and symbolic execution of printf_format does not finish in 25 min, neither merged nor
    #  --paths; the parser is therefore exercised through the e2e.* family of pinned shapes; harness_parse stays as a translator-validation entry)
    # ---------------------------------------------------------------- (B) conversion back ends
    int_convs = [0, 2, 3, 4, 5, 10] if quick else [0, 1, 2, 3, 4, 5, 10, 11]
    for conv in int_convs:
        lms = ([0] if conv == 5 else [0, 3] if conv == 10 else [0, 1, 2, 3]) if quick else ([0, 1, 2, 3, 4, 6] if conv == 0 else [0, 1, 3, 4])
        for lm in lms:
            vcs = ([0] + ([3, 4, 5] if conv in (0, 2, 3, 4) and lm in (0, 3) else [])) if quick else [0, 3, 4, 5, 8]
            for vc in vcs:
                dg = ndigits(conv, vc, D10)
                qs.append(PQ('opts.%s%s.v%d' % (LMS[lm], CONVS[conv], vc), 'harness_opts', {'PINS': pins({'conv': conv, 'lm': lm, 'vclass': vc})}, WB, dg,
                             bounds={'conversion': '%' + LMS[lm] + CONVS[conv], 'flags': 'any subset ISO C defines for the conversion', 'width': '0..%d' % WB, 'precision': 'absent or 0..%d' % WB,
                                     'value': ('every argument word whose converted value is below 10^%d in magnitude' % D10 if CONVS[conv] in 'diu' else 'every 64-bit argument word') if vc == 0 else 'boundary constant #%d of the length modifier (0, 1, -1/max, min, max, and words differing only in discarded bits)' % vc},
                             what='do_printf_ints %%%s%s: output equals ISO C for every flag set, width and precision' % (LMS[lm], CONVS[conv])))
    for conv in (6, 7, 8):
        qs.append(PQ('opts.%s' % CONVS[conv], 'harness_opts', {'PINS': pins({'conv': conv, 'lm': 0, 'vclass': 0})}, 70 if conv != 8 else 1, ndigits(conv, 0),
                     bounds={'conversion': '%' + CONVS[conv], 'flags': '- or none', 'width': '0..70', 'precision': 'absent or 0..70 (s only)', 'value': 'any character / any string of up to 5 bytes / any 64-bit pointer value'},
                     what='do_printf_chars %%%s: padding, precision truncation, 0x<hex> pointer form' % CONVS[conv]))
    if not quick:
        for conv in (0, 2, 3, 4, 10):
            for vc in (0, 3, 4):
                qs.append(PQ('opts.w70.%s.v%d' % (CONVS[conv], vc), 'harness_opts', {'PINS': pins({'conv': conv, 'lm': 3, 'vclass': vc})}, 70, ndigits(conv, vc, D10), timeout=3000, mem_gb=8,
                             bounds={'conversion': '%l' + CONVS[conv], 'width': '0..70', 'precision': 'absent or 0..70'}, what='do_printf_ints %%l%s with width and precision up to 70' % CONVS[conv]))
    # ---------------------------------------------------------------- (C) whole pipeline on pinned shapes
    for d in e2e_family(tier):
        f = fmt_of(d); wm = max(abs(d['width']) if d['wmode'] else 0, abs(d['prec']) if d['pmode'] in (1, 2) else 0, 1)
        seps = (len(qs) * 7 + 1) % 4
        qs.append(PQ('e2e[%s].v%d' % (f, d['vclass']), 'harness_layout', {'PINS': pins(d), 'SEPS': seps}, wm, ndigits(d['conv'], d['vclass'], D10), timeout=600 if wm < 70 else 900, mem_gb=3 if wm < 70 else 8,
                     bounds={'format': f + ' (* arguments in parentheses)', 'value class': d['vclass'], 'literal text': 'any byte before / after the directive as pinned (SEPS)'},
                     what='printf_format + do_printf_* on "%s": output equals ISO C' % f))
    for ds in positional_family(tier):
        f = ' '.join(fmt_of(d) for d in ds)
        qs.append(PQ('e2e[%s]' % f, 'harness_layout', {'PINS': pins(*ds), 'SEPS': 2 ** (len(ds) + 1) - 2 - (len(qs) % 2) * 2 ** len(ds)}, 4, max(ndigits(d['conv'], d['vclass'], D10) for d in ds), ndir=len(ds), timeout=900, mem_gb=4,
                     bounds={'format': f, 'values': 'an argument designated once: decimal below 10^%d in magnitude (argument 1) / boundary constant (2, 3) / any value (x, c, s); designated twice: boundary constant' % D10}, what='numbered arguments: "%s" prints each designated argument' % f))
    # ---------------------------------------------------------------- pop_arg
    KN = ['int', 'long', 'void*', 'signed char', 'short', 'unsigned char', 'unsigned short', 'unsigned', 'unsigned long']
    seqs = [(0, 0, 0), (1, 0, 1), (2, 0, 3), (3, 3, 0), (1, 2, 8), (7, 5, 7), (6, 4, 0), (8, 1, 2)]
    if not quick: seqs = sorted(set(seqs) | {(a, b, c) for a in (0, 1, 2, 3, 6) for b in (0, 1, 2, 3, 6) for c in (0, 1, 2, 3, 6)})
    for sq in seqs:
        qs.append(Q('poparg.%d%d%d' % sq, 'c19_printf', 'c19_printf.c', 'harness_poparg', defs={'K': 3, 'KINDS': '{%d,%d,%d}' % sq}, unwind=12, inline_witness=True, timeout=900, mem_gb=4,
                    bounds={'fetches': 3, 'requested types': ', '.join(KN[k] for k in sq), 'argument words': '4, arbitrary', 'mode': 'all sequential, or all positional with solver-chosen positions 1..4'},
                    what='pop_arg<%s>, <%s>, <%s> in sequence: each returns the designated argument converted to the requested type (positional cache included)' % tuple(KN[k] for k in sq)))
    qs.append(Q('poparg.known.widening', 'c19_printf', 'c19_printf.c', 'harness_poparg', defs={'K': 2, 'KF_WIDENING': 1, 'KINDS': '{0,1}'}, unwind=12, kind='known', known='printf-positional-widening',
                match='pop_arg yields the argument', timeout=600, mem_gb=4, bounds={'fetches': 2, 'requested types': 'int then long'},
                what='known finding: an argument first cached with a narrow type (%2$d caches argument 1 as int) is later read with a wider one (%1$ld / %1$s)'))
    # ---------------------------------------------------------------- digit kernel
    VIAS = ['print_digits', 'print_int<int64>', 'print_int<int32>']
    for r, dg in ((16, 16), (8, 22), (2, 64)):
        for via in ([0, 2] if quick and r == 2 else range(3)):
            qs.append(PQ('digits.r%d.via%d' % (r, via), 'harness_digits', {'RADIX': r, 'VIA': via}, 6 if quick else 12, dg if via < 2 else (dg + 1) // 2,
                         bounds={'radix': r, 'entry': VIAS[via], 'value': 'any 64-bit magnitude, either sign (print_int: incl. the most negative value)', 'width/precision': '0..%d' % (6 if quick else 12)},
                         what='%s radix %d at full width' % (VIAS[via], r)))
    for dd in ([3] if quick else [3, 4, 5]):
        for via in range(3):
            qs.append(PQ('digits.r10.d%d.via%d' % (dd, via), 'harness_digits', {'RADIX': 10, 'DMAX': 10 ** dd, 'VIA': via}, 6, dd, timeout=3000 if dd > 3 else 900, optional=dd > 4,
                         bounds={'radix': 10, 'entry': VIAS[via], 'value': 'every magnitude below 10^%d, either sign' % dd, 'width/precision': '0..6'}, what='%s radix 10, all values below 10^%d' % (VIAS[via], dd)))
    # ---------------------------------------------------------------- fmt()
    for (t, fvs) in fmt_templates(tier):
        for fv in fvs:
            m = re.findall(r':0?(\d+)', t); wm = max([int(x) for x in m if len(x) <= 2] + [0])
            dec = bool(re.search(r'\{\d*(:0?\d*[di]?)?\}', t))
            dg = max([64 if 'b}' in t else 0, 22 if 'o}' in t else 0, 16 if re.search(r'[xX]\}', t) else 0, (20 if fv else D10) if dec else 0, 1])
            b = max(wm, dg) + 2
            defs = {'TEMPLATE': '"%s"' % t, 'FV': fv}
            if dec: defs['DEC'] = 1
            qs.append(Q('fmt[%s].v%d' % (t, fv), 'c19_fmt', 'c19_fmt.c', 'harness_fmt', defs=defs, unwind=max(b, len(t) + 3),
                        unwind_fn=[(r'^ref_dec', dg + 2), (r'^ref_number', dg + 2), (r'^ref_(finish|at)', 8), (r'parse_fmt_spec|format_object|fmt_ref|spec_parse|harness', len(t) + 3)],
                        inline_witness=True, timeout=900, mem_gb=3,
                        bounds={'format': t, 'arguments': '(int, unsigned long, char): ' + ('any values' + (', decimal renderings below 10^%d in magnitude' % D10 if dec else '') if fv == 0 else 'boundary tuple #%d (0, 1, -1/max, min, max, ...)' % fv)},
                        what='fmt("%s", int, unsigned long, char) renders per the documented grammar; malformed / out-of-range specs echoed unchanged' % t))
    for t in ['{}', 'a{1}b', '{:x}']:
        qs.append(Q('fmt0[%s]' % t, 'c19_fmt', 'c19_fmt.c', 'harness_fmt', defs={'TEMPLATE': '"%s"' % t, 'NARGS': 0}, unwind=12, inline_witness=True, timeout=300, mem_gb=2,
                    bounds={'template': t, 'arguments': 'none'}, what='fmt("%s") without arguments echoes every spec' % t))
    # ---------------------------------------------------------------- logger
    for n in (range(0, 25) if not quick else [0, 1, 6, 7, 8, 9, 13, 14, 15, 16, 20, 21, 22, 24]):      # thorough: every length, every second split
        splits = sorted({(p0, p1) for p0 in (0, 1, 3, 6, 7, 8, 14, n) if p0 <= n for p1 in (0, 1, 6, 7, 8, n - p0) if 0 <= p1 <= n - p0})
        if quick: splits = splits[(n % 3)::5]
        else: splits = splits[(n % 2)::2]
        for (p0, p1) in splits:
            qs.append(Q('log.len%d.%d-%d-%d' % (n, p0, p1, n - p0 - p1), 'c19_log', 'c19_log.c', 'harness_log', defs={'LEN': n, 'P0': p0, 'P1': p1}, unwind=max(n, 8) + 3, inline_witness=True, timeout=600, mem_gb=3,
                        bounds={'message length': n, 'Limit': 8, 'pieces': '%d + %d + %d bytes, each through a solver-chosen path: append(char) / append(const char*) / operator<<(const char*)' % (p0, p1, n - p0 - p1), 'endlog': 'with and without', 'content': 'any non-NUL bytes'},
                        what='stack_buffer_logger<sink,8>: a %d-byte message appended as %d+%d+%d reaches the sink complete, in order, in chunks of at most 7 bytes' % (n, p0, p1, n - p0 - p1)))
    ALLQ[:] = qs
    return qs

def prepare(R):
    # 1. the oracle and the format assembler against glibc snprintf (native, ~17 million directive/value combinations)
    exe = os.path.join(R.work, 'c19_xcheck')
    r = subprocess.run(['gcc', '-std=gnu11', '-O1', '-w', '-DC19_XCHECK', '-DVP_NATIVE', '-I', ENGINE, '-I', os.path.join(VERIF, 'harness'), os.path.join(VERIF, 'harness', 'c19_printf.c'), '-o', exe],
                       stdout=subprocess.PIPE, stderr=subprocess.STDOUT, text=True)
    if r.returncode != 0: raise Broken('C19 oracle cross-check does not build:\n' + r.stdout[-2000:])
    r = subprocess.run([exe], stdout=subprocess.PIPE, stderr=subprocess.STDOUT, text=True)
    if r.returncode != 0: raise Broken('C19: the ISO C interpreter of the harness disagrees with glibc snprintf:\n' + r.stdout[-3000:])
    R.say('[oracle] ' + r.stdout.strip().split('\n')[-1])
    # 2. per-loop bounds for print_digits: the digit loop (the one that divides) gets the digit bound, all other loops the width bound
    c = os.path.join(R.work, 'c19_printf.c')
    r = subprocess.run(['cbmc', os.path.join(VERIF, 'harness', 'c19_printf.c'), c, '--function', 'harness_opts', '-I', R.work, '-I', ENGINE, '-I', os.path.join(VERIF, 'harness'), '--show-loops'],
                       stdout=subprocess.PIPE, stderr=subprocess.STDOUT, text=True)
    loops = {}
    for m in re.finditer(r'^Loop (\S+?)\.(\d+):\n\s+file \S+ line (\d+)', r.stdout, re.M):
        if 'print_digits' in m.group(1): loops.setdefault(m.group(1), []).append((int(m.group(3)), int(m.group(2))))
    if not loops: raise Broken('C19 prepare: no print_digits loops found')
    src = open(c).read().split('\n')
    digit, pad = [], []
    for fn, ls in loops.items():
        ls.sort()
        start = max(i for i, l in enumerate(src[:ls[0][0]]) if (fn + '(') in l and l.rstrip().endswith('{'))
        div = [i + 1 for i in range(start, ls[-1][0]) if '"udiv"' in src[i] or '"sdiv"' in src[i]]
        if len(div) != 1: raise Broken('C19 prepare: expected exactly one division in %s, found %d' % (fn, len(div)))
        dl = min(l for l in ls if l[0] >= div[0])
        for l in ls: (digit if l == dl else pad).append('%s.%d' % (fn, l[1]))
    for q in ALLQ:
        if hasattr(q, 'c19') and not getattr(q, '_c19_done', False):
            q.unwindset = list(q.unwindset) + ['%s:%d' % (l, q.c19['digit_loop']) for l in digit] + ['%s:%d' % (l, q.c19['pad_loops']) for l in pad]
            q._c19_done = True

def validation_queries(tier):
    V = lambda n, e, h='c19_printf', d=None: Q(n, h, h + '.c', e, defs=d or {})
    return [V('layout.validate', 'harness_layout', d={'NDIR': 2}), V('parse.validate', 'harness_parse', d={'NDIR': 2}), V('opts.validate', 'harness_opts'), V('poparg.validate', 'harness_poparg', d={'K': 4}),
            V('digits10.validate', 'harness_digits', d={'RADIX': 10}), V('digits16.validate', 'harness_digits', d={'RADIX': 16}),
            V('fmt.validate', 'harness_fmt', 'c19_fmt', {'TEMPLATE': '"a{D:0Dx}b{}c{:?}{D}"', 'DEC': 1}), V('fmt2.validate', 'harness_fmt', 'c19_fmt', {'TEMPLATE': '"{:c}{:1Db}{{{D:X}"'}),
            V('log.validate', 'harness_log', 'c19_log', {'LEN': 17})]
VALIDATE_VECTORS = 60
LEVEL = 'model_checking'
TECHNIQUE = ('bounded model checking (CBMC, SAT) of the clang-lowered real code against an independent ISO C interpreter written in the harness (cross-checked against glibc snprintf natively on every run); '
             'the sink compares every byte on the spot with the byte the interpreter expects at that position')
FUNCTION_PATTERNS = [r'frg::', r'^c19_']
ASSUMPTIONS = [
    'decomposition at the agent interface: opts.* prove that do_printf_ints/do_printf_chars render EVERY option set a parser can hand over (any flag subset, width, precision) per ISO C, per conversion x length modifier; '
    'e2e.* check parser + back end together on a covering family of concrete format shapes (every conversion x length modifier, each with several flag sets, literal / * / absent width and precision, negative * arguments, n$). '
    'printf_format is NOT proved for every directive string (a fully solver-chosen directive does not finish); the agent is the one of the repository\'s own test (dispatch on the conversion character)',
    'argument passing: System V x86-64 va_list with the register save area exhausted (every variadic argument in one 8-byte overflow slot, upper half of int-class arguments arbitrary)',
    'radix-10 conversions: argument values below 10^3 in magnitude (solver-chosen) plus the concrete boundary values 0, 1, -1/max, min, max (and words differing only in discarded bits) of every length modifier; radix 16/8/2: every 64-bit value',
    'combinations ISO C leaves undefined are not demanded: # with d i u c s p, 0 with c s p, a precision with c p, length modifiers with c s p, flags other than - with c s; %p and %% in their bare forms (frigg documents 0x<hex>); the \' flag in the "C" locale (no grouping); %b/%B as in C23',
    'numbered arguments (n$): every argument 1..max is referenced (POSIX), width/precision literal (frigg has no *m$), and no argument is read with a wider type than the one it was first fetched with (known finding printf-positional-widening)',
    'fmt(): a spec without a position takes the argument whose index is the number of specs closed before it; a width or zero fill together with the c conversion is undocumented and not demanded; negative integers render as sign + magnitude in every radix',
    'logger: text is complete at the sink once endlog is appended; without endlog exactly the full chunks have been emitted',
    'clang-14 -O1 lowering is the semantics checked; the ir2c translation is validated differentially (generated C vs g++ build of the real headers) on every run',
]
OUTSIDE = ['floating-point conversions (%f %e %g), %ls / %lc, %n', 'format strings outside the e2e.* family as far as the PARSER is concerned (the back ends are covered for all option sets)',
           'radix-10 values with more than 3 digits other than the boundary constants (digit kernel alone: digits.r10.* up to 10^5 in the thorough tier)',
           'widths and precisions above 70; solver-chosen widths/precisions above 12 (quick) / 20 (thorough) in opts.* - larger ones are concrete (e2e.*, fmt.*, thorough opts.w70.*)',
           'locale_options other than the default (thousands separators / grouping strings)', 'agents other than the test agent; sinks that fail', '%s arguments longer than 5 bytes, NULL %s arguments (undefined in ISO C)',
           'fmt() argument types other than int, unsigned long, char; more than three arguments; format strings outside the template family', 'logger Limit other than 8; text appended after endlog; more than three pieces']
