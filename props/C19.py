# C19 — printf/fmt formatting matches the C standard and the documented spec grammar (prototype)
import os, sys, re, subprocess
sys.path.insert(0, os.path.join(os.path.dirname(__file__), '..', 'engine'))
from run import Q, Unit, VERIF, ENGINE
Broken = getattr(sys.modules.get('__main__'), 'Broken', RuntimeError)    # the runner's own exception class (run.py executes as __main__)
UNITS = [Unit('c19_printf')]
NOPIN = -1000
ALLQ = []
def pins(*ds):
    rows = []
    for d in list(ds) + [{}] * (3 - len(ds)):
        rows.append('{' + ','.join(str(d.get(k, NOPIN)) for k in ('flags', 'wmode', 'width', 'pmode', 'prec', 'lm', 'conv', 'pos', 'vclass')) + '}')
    return '{' + ','.join(rows) + '}'
def PQ(name, entry, defs, wmax, digits, dec_digits=4, **kw):
    """a printf query: loop bounds follow from the width/precision bound and the number of digits"""
    b = max(wmax, digits) + 2
    defs = dict(defs); defs['WMAX'] = wmax
    q = Q(name, 'c19_printf', 'c19_printf.c', entry, defs=defs, unwind=b,
          unwind_fn=[(r'printf_format', 12), (r'do_printf', wmax + 2), (r'^ref_dec', dec_digits + 1), (r'^ref_number', digits + 2), (r'^(put_|choose|harness)', 12), (r'^ir2c_', 40)],
          inline_witness=True, timeout=600, mem_gb=6, **kw)
    q.c19 = {'digit_loop': digits + 1, 'pad_loops': wmax + 2}
    return q
def queries(tier):
    qs = []
    for conv in range(0, 12):
        for lm in range(8):
            for vc in range(0, 2):
                radix10 = conv in (0, 1, 2)
                digits = 4 if radix10 and vc == 0 else 20 if radix10 else 64 if conv >= 10 else 22 if conv == 3 else 16
                qs.append(PQ('opts.c%d.l%d.v%d' % (conv, lm, vc), 'harness_opts', {'PINS': pins({'conv': conv, 'lm': lm, 'vclass': vc})}, 12, digits))
    ALLQ[:] = qs
    return qs
def prepare(R):
    """per-loop bounds for print_digits: the digit loop (the one that divides) gets the digit bound, the padding loops the width bound"""
    c = os.path.join(R.work, 'c19_printf.c')
    r = subprocess.run(['cbmc', os.path.join(VERIF, 'harness', 'c19_printf.c'), c, '--function', 'harness_opts', '-I', R.work, '-I', ENGINE, '-I', os.path.join(VERIF, 'harness'), '--show-loops'],
                       stdout=subprocess.PIPE, stderr=subprocess.STDOUT, text=True)
    loops = {}
    for m in re.finditer(r'^Loop (\S+?)\.(\d+):\n\s+file \S+ line (\d+)', r.stdout, re.M):
        if 'print_digits' in m.group(1): loops.setdefault(m.group(1), []).append((int(m.group(3)), int(m.group(2))))
    if not loops: raise Broken('C19 prepare: no print_digits loops found')
    src = open(c).read().split('\n')
    digit, pad = [], []
    for fn, ls in loops.items():
        ls.sort()
        # the function's body: from its definition to the last loop; the digit loop is the first loop closing after the udiv
        start = max(i for i, l in enumerate(src[:ls[0][0]]) if l.startswith('void ' + fn) or (fn + '(') in l and l.rstrip().endswith('{'))
        div = [i + 1 for i in range(start, ls[-1][0]) if '"udiv"' in src[i] or '"sdiv"' in src[i]]
        if len(div) != 1: raise Broken('C19 prepare: expected exactly one division in %s, found %d' % (fn, len(div)))
        dl = min(l for l in ls if l[0] >= div[0])
        for l in ls: (digit if l == dl else pad).append('%s.%d' % (fn, l[1]))
    for q in ALLQ:
        if hasattr(q, 'c19'):
            q.unwindset = list(q.unwindset) + ['%s:%d' % (l, q.c19['digit_loop']) for l in digit] + ['%s:%d' % (l, q.c19['pad_loops']) for l in pad]
def validation_queries(tier):
    return [Q('layout.validate', 'c19_printf', 'c19_printf.c', 'harness_layout'), Q('parse.validate', 'c19_printf', 'c19_printf.c', 'harness_parse', defs={'NDIR': 2}),
            Q('opts.validate', 'c19_printf', 'c19_printf.c', 'harness_opts'), Q('poparg.validate', 'c19_printf', 'c19_printf.c', 'harness_poparg'),
            Q('digits.validate', 'c19_printf', 'c19_printf.c', 'harness_digits', defs={'RADIX': 10})]
VALIDATE_VECTORS = 5
