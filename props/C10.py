# C10 — radix tree: lock-free readers never see partial state or lose present keys
# Decided by a REDUCTION checked on sequential executions of the writer, instrumented at every atomic store (see harness/c10_radix.c
# and DESIGN.md A.4 C10): thread interleavings themselves are not explored.
import os, sys
sys.path.insert(0, os.path.join(os.path.dirname(__file__), '..', 'engine'))
from run import Q, Unit
UNITS = [Unit('c09')]
def _q(name, K, defs, what, timeout=2400, mem=14, optional=False, checks='std', keys=None):
    d = {'K': K, 'NO_ITER': 1, 'IR2C_EVENTS': 1, 'IR2C_NO_ATOMIC_SECTIONS': 1}; d.update(defs)
    depth = K + 2
    return Q(name, 'c09', 'c10_radix.c', 'harness', defs=d, unwind=max(K + 2, 6),
             unwind_kind=[(r'^rx_destroy', r'^other$', 4 * K + 4), (r'rcu_radixtree|^rx_', r'^(const:\d+|counted)$', 17), (r'rcu_radixtree|^rx_', r'^other$', depth + 1)],
             unwind_fn=[(r'^ir2c_mem', 200), (r'^ir2c_event_stored$', 17), (r'^(which_e|which_l|publish_node|reader_view)$', 6)],
             inline_witness=True, witness='any', checks=checks, timeout=timeout, mem_gb=mem, optional=optional, replay='generated',
             bounds={'writer operations': K, 'keys': keys if keys else 'arbitrary 64-bit' + (', first two keys first differ at nibble %s' % defs['NIBBLE'] if 'NIBBLE' in defs else ', first two keys in one leaf' if 'SAMELEAF' in defs else ''),
                     'instants checked': 'the state right after every atomic store of the writer and after every operation', 'reader': 'the real find() on every reference key and on the key being inserted'},
             what=what)
# Publication into a link of an EXISTING inner node (the `if(p)` stores of cases 1 and 2) needs three operations.  With symbolic keys the
# three-operation encoding does not fit (21M variables / >40 GB, see DESIGN.md A.6): CBMC's simplifier folds the descent only for fully concrete
# keys, so these histories use concrete key families (values stay symbolic); every obligation (P1)-(P3) is checked at every atomic store as before.
A, B = 0x0000000100000000, 0x0000000200000005       # two leaves under one inner node at depth 7 (slots 1 and 2)
CONC = [  # (name, keys, ops, what)
    ('empty-slot',   [A, B, 0x0000000700000009], [0, 0, 0], 'a new leaf published into an empty slot of the existing inner node (parent link store, case 1)'),
    ('empty-slot15', [A, B, 0x0000000F00000000], [0, 0, 1], 'same through insert(), slot 15'),
    ('split-below',  [A, B, 0x0000000100300000], [0, 0, 0], 'a new inner node (depth 10) with both children published into slot 1 of the existing inner node (parent link store, case 2)'),
    ('split-below14',[A, B, 0x0000000200000025], [0, 0, 0], 'a new inner node at depth 14 published into slot 2 of the existing inner node'),
    ('same-leaf',    [A, B, 0x0000000100000003], [0, 0, 0], 'an entry added to a leaf below the inner node (mask release, case 3)'),
    ('split-above',  [A, B, 0x0001000000000000], [0, 0, 0], 'a new root inner node at depth 3 above the existing inner node (root store, case 2 with an inner node as sibling)'),
    ('erase-reinsert', [A, B, A, A], [0, 0, 2, 0], 'erase and re-insert of a key in a leaf below an inner node'),
    ('three-levels', [0x10, 0x20, 0x1000, 0x1100, 0x1105], [0, 0, 0, 0, 0], 'five insertions building inner nodes at depths 14, 12 and 13 (publication below two levels of inner nodes)'),
]
def queries(tier):
    qs = [_q('pub.k1', 1, {}, 'first insertion (leaf published into the empty root)', mem=8)]
    qs.append(_q('pub.k2.sameleaf', 2, {'SAMELEAF': 1}, 'second key into the published leaf of the first: value constructed before its mask bit is released'))
    for j in ([0, 7, 14] if tier == 'quick' else list(range(15))):
        qs.append(_q('pub.k2.nibble%d' % j, 2, {'NIBBLE': j}, 'prefix split at depth %d: new inner node fully linked (both children) and the new value constructed before the node is released into the %s' % (j, 'root' if j == 0 else 'root/parent')))
    for nm, ks, os_, what in CONC:
        qs.append(_q('pub.conc.' + nm, len(ks), {'KEYSET': '{' + ','.join('0x%xULL' % k for k in ks) + '}', 'OPSET': '{' + ','.join(str(o) for o in os_) + '}', 'C10_LEAN': 1},
                     'concrete key history %s (ops %s; values arbitrary): %s' % (['0x%x' % k for k in ks], os_, what), timeout=600, mem=6, keys='concrete (listed in the query), values arbitrary'))
    qs.append(_q('pub.k2.any', 2, {}, 'two arbitrary writer operations (insert in all three cases, erase, re-insert)', optional=(tier == 'quick')))
    return qs
def validation_queries(tier):
    return [Q('script.validate', 'c09', 'c10_radix.c', 'harness', defs={'K': 3, 'NO_ITER': 1, 'IR2C_EVENTS': 1, 'IR2C_NO_ATOMIC_SECTIONS': 1})]
VALIDATE_VECTORS = 200
LEVEL = 'model_checking'
LEVEL_TEXT = ('bounded symbolic checking of a REDUCTION: the writer runs sequentially and, at every atomic store, the solver checks (P1) publication stores are release and only they touch reachable nodes, '
              '(P2) the real find() sees a consistent state (every previously present key found, no unconstructed value reachable), (P3) find() loads are acquire. Monotonic growth of the reader-visible graph '
              'lifts this to interleaved readers (argument in DESIGN.md A.4); thread interleavings themselves are not explored.')
TECHNIQUE = 'CBMC bounded model checking of the clang-lowered writer and reader code on sequential executions instrumented at every atomic store (publication-order and reader-view obligations, memory orders taken from the IR)'
FUNCTION_PATTERNS = [r'frg::rcu_radixtree', r'^rx_']
ASSUMPTIONS = ['single writer (documented); readers only call find()', 'values are one byte and non-zero so that "constructed" is observable; fresh node memory is zero',
               'the lifting from per-instant consistency to interleaved readers relies on monotonic growth of the reachable graph, which (P1) enforces: any atomic store into a reachable node must be a release publication',
               'happens-before is argued from release/acquire pairs on the publication edges; behaviours of relaxed atomics outside those edges are not modelled']
OUTSIDE = ['three or more writer operations with symbolic keys (measured: 21 M variables, no verdict at 40 GB / 15 min); covered only on the concrete key families pub.conc.*', 'explicit exploration of reader/writer interleavings and of non-SC executions', 'writer histories longer than K operations', 'iteration concurrent with writes (documented as unsupported by the library)']
