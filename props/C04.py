# C04 — slab pool: tolerates map() failure at any point (same harness as C01, -DFAULTS)
import os, sys, importlib.util
HERE = os.path.dirname(__file__)
sys.path.insert(0, os.path.join(HERE, '..', 'engine'))
spec = importlib.util.spec_from_file_location('C01_shared', os.path.join(HERE, 'C01.py')); C01 = importlib.util.module_from_spec(spec); spec.loader.exec_module(C01)
UNITS = C01.UNITS
LEVEL = C01.LEVEL; TECHNIQUE = C01.TECHNIQUE; FUNCTION_PATTERNS = C01.FUNCTION_PATTERNS; VALIDATE_VECTORS = 100
def validation_queries(tier): return C01.validation_queries(tier)[:2]
def queries(tier):   # every scenario with map() returning 0 at every call position; the history continues after the failure (recovery)
    return C01.select(tier, lambda t: not t['lockset'] and not t['preempt'] and t['faults'])
ASSUMPTIONS = C01.ASSUMPTIONS + ['one failing map() call per scenario (every position enumerated); after it mapping works again and the remaining operations of the scenario must succeed with all clauses intact']
OUTSIDE = C01.OUTSIDE + ['two or more failing map() calls in one history']
