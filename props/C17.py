# C17 — optional, expected, variant, tuple, manual_box (and eternal) are faithful value holders
#        + the holder / small-owner part of C16 (queries_c16): the same histories run with the lifetime registry of vp_track.h,
#          plus frg::unique_ptr, frg::unique_memory and the construct/destruct helpers with the tracking allocator.
import os, sys
sys.path.insert(0, os.path.join(os.path.dirname(__file__), '..', 'engine'))
from run import Q, Unit

UNITS = [Unit('c17_optional'), Unit('c17_expected'), Unit('c17_variant'), Unit('c17_variant2'), Unit('c17_box'), Unit('c17_tuple'), Unit('c17_cat'), Unit('c17_owner')]
UNITS_C16 = UNITS
TRK = [(r'^vp_(tracked_addr|release)$', 5)]                            # registry loops of vp_track.h: VP_MAXBLK=2 blocks, 4 regions
TRKA = [(r'^vp_(tracked_addr|release)$', 9), (r'^blk_size$', 9)]      # owners: VP_MAXBLK=8 (at most one allocation per operation + adopt)

# name, unit, harness file, entry, history lengths quick / thorough, operations
HOLDERS = [
    ('optional', 'c17_optional', 'c17_optional.c', 'harness', [3], [4, 5],
     'default/null_opt/const T&/T&&/converting U&& construction, copy and move construction (from empty, from engaged), copy and move assignment over all four '
     '(destination, source) engagement combinations, self copy/move assignment, converting copy/move assignment from optional<int> (all four combinations), '
     'assignment of an lvalue / rvalue T, = null_opt (the only public reset), emplace(args)/emplace()/emplace(const T&) into empty and engaged, assignment/emplace over a moved-from value, destruction'),
    ('expected', 'c17_expected', 'c17_expected.c', 'harness', [3], [4, 5],
     'default/success/E/T(rvalue)/T(lvalue) construction, copy and move construction (of a value, of an error), move assignment over all four (value/error x value/error) '
     'combinations, self move assignment, assignment of a T / of an E over a value / an error, unwrap(), map(), map_error(), FRG_TRY, destruction'),
    ('variant', 'c17_variant', 'c17_variant.c', 'harness', [3], [4, 5],
     'default (empty) / from A / from B / from an lvalue A construction, copy and move construction from empty/A/B, copy and move assignment over the (empty,A,B) x (empty,A,B) '
     'combinations, self copy/move assignment, assignment of an A / a B value, assignment of an empty variant, emplace<A>/emplace<B>/emplace<B>() over empty/A/B, destruction'),
    ('variant_mixed', 'c17_variant2', 'c17_variant2.c', 'harness', [3], [4, 5],
     'variant<int, tracked, pod> (trivial, non-trivial and POD alternatives + empty): default / from int / from tracked / from pod construction, copy and move construction from each state, '
     'copy and move assignment over all 4 x 4 (destination, source) combinations, self copy/move assignment, assignment of an int / tracked / pod / empty variant over each state, '
     'emplace<int> / emplace<tracked> / emplace<pod> over each state (trivial over non-trivial and vice versa), destruction of each state'),
    ('manual_box', 'c17_box', 'c17_box.c', 'harness', [5], [7],
     'construction, initialize(int)/initialize()/initialize(const T&)/initialize(T&&), construct_with(f), destruct(), re-initialization, assignment through operator*, destruction of an uninitialized box'),
    ('tuple', 'c17_tuple', 'c17_tuple.c', 'harness', [3], [4, 5],
     'construction from rvalues/lvalues/default, copy and move construction, converting copy/move construction from tuple<int,int,int>, make_tuple of rvalues/lvalues, '
     'copy/move assignment (also onto a moved-from tuple), self copy/move assignment, assignment through get<I>(), tuple_cat in the splits 1+2, 2+1, 1+1+1, 0+3+0, 3; '
     'apply on an rvalue tuple (by reference and consuming), destruction'),
]
OWNERS = [
    ('unique_ptr', 'harness_unique_ptr', [3], [4, 5],
     'unique_ptr(allocator), unique_ptr(allocator, p), make_unique, move construction, move assignment (all four owning/empty combinations), self move assignment, swap, release(), reset(p), reset(nullptr), destruction'),
    ('unique_memory', 'harness_unique_memory', [3], [4, 5],
     'unique_memory(), unique_memory(allocator, size in {0,1,24}), move construction, move assignment (all four combinations), self move assignment, assignment of a fresh block, swap, destruction'),
]
# C17_VARIANT_KNOWN=1: treat variant empty <- empty assignment (proposed fix C17_1) as a known finding instead of a fixed defect:
# the main variant queries exclude exactly that input class and a kind='known' twin (key variant-empty-assign in known_findings.txt) must fail on it
VARIANT_KNOWN = bool(os.environ.get('C17_VARIANT_KNOWN'))
SCENARIOS = ['optional_move_only', 'optional_copy_only', 'expected_move_only', 'variant_move_only', 'tuple_mixed', 'manual_box_move_only']

def _c17(tier):
    qs = []
    th = tier != 'quick'
    for (nm, unit, har, ent, kq, kt, ops) in HOLDERS:
        for k in (kt if th else kq):
            if nm == 'variant' and VARIANT_KNOWN:
                qs.append(Q('variant.hist%d.empty_assign' % k, unit, har, ent, defs={'K': k, 'VP_MAXBLK': 2, 'KNOWN_EMPTY_ASSIGN': 1}, unwind=k + 1, unwind_fn=TRK, kind='known', known='variant-empty-assign',
                            match='library assertion', timeout=2400, mem_gb=8, extra=['--object-bits', '10'], bounds={'operations per history': k, 'last operation': 'assignment of an empty variant to an empty variant'},
                            what='known finding: variant::operator= with both sides empty reaches FRG_ASSERT(!"Assignment from variant with illegal tag")'))
            qs.append(Q('%s.hist%d' % (nm, k), unit, har, ent, defs=dict({'K': k, 'VP_MAXBLK': 2}, **({'EXCLUDE_EMPTY_ASSIGN': 1} if nm == 'variant' and VARIANT_KNOWN else {})), unwind=k + 1, unwind_fn=TRK, inline_witness=True, timeout=2400, mem_gb=8, extra=['--object-bits', '10'],
                        bounds={'operations per history': k, 'holder objects': 2, 'values': 'any 32-bit int', 'operations': ops,
                                'source/destination': 'every operation picks its destination slot; the other slot is the source (all state combinations reachable: see the WITNESS points)'},
                        what='%s: after every history of %d solver-chosen operations on two holders the engaged/alternative/error state and the held value equal the reference model, every accessor designates the object inside the holder, '
                             'element objects are constructed in raw storage, never used outside their lifetime, destroyed exactly once; nothing alive after the holders are destroyed' % (nm, k)))
    qs.append(Q('optional.int', 'c17_optional', 'c17_optional.c', 'harness_int', unwind=2, inline_witness=True, timeout=300, mem_gb=2,
                bounds={'state': 'empty or engaged', 'values': 'any two 32-bit ints'}, what='optional<int> (trivial element type): copy construction + move assignment keep state and value; <, ==, != against a value follow std::optional'))
    qs.append(Q('expected.void', 'c17_expected', 'c17_expected.c', 'harness_void', unwind=2, inline_witness=True, timeout=300, mem_gb=2,
                bounds={'error code': '0 (success) .. 3'}, what='expected<E, void>: construction, operator bool, maybe_error, error, unwrap, map_error, FRG_TRY'))
    qs.append(Q('eternal', 'c17_box', 'c17_box.c', 'harness_eternal', defs={'VP_MAXBLK': 2}, unwind=2, unwind_fn=TRK, inline_witness=True, timeout=300, mem_gb=2,
                bounds={'value': 'any 32-bit int'}, what='eternal<tracked>: constructs in place, get/*/-> designate the held object, the destructor leaves it alive'))
    qs.append(Q('tuple.ref', 'c17_tuple', 'c17_tuple.c', 'harness_ref', defs={'VP_MAXBLK': 2}, unwind=20, unwind_fn=TRK, inline_witness=True, timeout=300, mem_gb=2,
                bounds={'tuple': 'tuple<int &, tracked &, const tracked2 &>', 'values': 'any'}, what='tuple of references: get<I> (const and non-const), copy, move, apply(const &), apply(&&) all designate the referenced objects; no element object is created; writes reach the referenced object'))
    qs.append(Q('tuple.cat6', 'c17_tuple', 'c17_tuple.c', 'harness_cat6', defs={'VP_MAXBLK': 2}, unwind=7, unwind_fn=TRK, inline_witness=True, timeout=300, mem_gb=2,
                bounds={'arguments': 'two tuple<tracked, int, tracked2> rvalues', 'values': 'any'}, what='tuple_cat of two 3-tuples: six elements in argument order with their values'))
    qs.append(Q('tuple.cat.lvalue', 'c17_tuple', 'c17_tuple.c', 'harness_cat_lvalue', defs={'VP_MAXBLK': 2}, unwind=4, unwind_fn=TRK, inline_witness=True, timeout=300, mem_gb=2,
                bounds={'values': 'any'}, what='tuple_cat(lvalue tuple): the result holds copies, the argument keeps its elements (std::tuple_cat value categories)'))
    qs.append(Q('tuple.ref.apply_rvalue', 'c17_tuple', 'c17_tuple.c', 'harness_ref_apply_rvalue', defs={'VP_MAXBLK': 2}, unwind=4, unwind_fn=TRK, inline_witness=True, timeout=300, mem_gb=2,
                bounds={'values': 'any'}, what='apply(f, tuple<T &> &&) with a by-value parameter copies the referenced object and does not move from it (std::apply value categories)'))
    for sc, nm in enumerate(SCENARIOS):
        qs.append(Q('category.%s' % nm, 'c17_cat', 'c17_cat.c', 'harness', defs={'SCEN': sc, 'VP_MAXBLK': 2}, unwind=13, unwind_fn=TRK, inline_witness=True, witness='any', timeout=300, mem_gb=3,
                    bounds={'scenario': 'one fixed sequence of 8-10 operations', 'values': 'any 32-bit ints'},
                    what='element type categories (%s): a fixed scenario of constructions, moves/copies, assignments over the state combinations, emplace and reset with a move-only / copy-only element type; accessor results equal the reference, lifetimes balance' % nm))
    return qs

def queries_c16(tier):
    """the queries that decide the C16 clauses for optional/expected/variant/manual_box/tuple (the C17 histories: they run with the lifetime registry and end with
    destroy-all + vp_end()) and for unique_ptr / unique_memory / construct / destruct (tracking allocator)"""
    th = tier != 'quick'
    qs = [q for q in _c17(tier) if '.hist' in q.name or q.name.startswith('category.') or q.name in ('tuple.cat6', 'tuple.cat.lvalue')]
    for (nm, ent, kq, kt, ops) in OWNERS:
        for k in (kt if th else kq):
            qs.append(Q('c16.%s.hist%d' % (nm, k), 'c17_owner', 'c17_owner.c', ent, defs={'K': k, 'VP_MAXBLK': 8}, unwind=k + 1, unwind_fn=TRKA, inline_witness=True, timeout=2400, mem_gb=8, extra=['--object-bits', '10'],
                        bounds={'operations per history': k, 'owner objects': 2, 'operations': ops, 'values': 'any 32-bit int'},
                        what='%s: after every history of %d solver-chosen operations the accessors equal the reference, the number of live pointees and of outstanding blocks equals the number of owning objects, '
                             'every block is released exactly once; nothing alive or allocated after the owners are destroyed' % (nm, k)))
    for n in ((0, 1, 3) if not th else (0, 1, 2, 3, 5)):
        qs.append(Q('c16.construct.n%d' % n, 'c17_owner', 'c17_owner.c', 'harness_construct', defs={'LEN': n, 'VP_MAXBLK': 8}, unwind=n + 2, unwind_fn=TRKA, inline_witness=True, timeout=300, mem_gb=3,
                    bounds={'n': n, 'values': 'any'}, what='construct<T>/destruct pair allocate(sizeof T) with deallocate(p, sizeof T) and construct/destroy exactly one T; construct_n/destruct_n with n=%d: block of n*sizeof(T), n objects, all destroyed, sized release; null is a no-op' % n))
    return qs

def queries(tier):
    seen = set(); out = []
    for q in _c17(tier) + queries_c16(tier):
        if q.name not in seen: seen.add(q.name); out.append(q)
    return out

def validation_queries(tier):
    return [Q('optional.validate', 'c17_optional', 'c17_optional.c', 'harness', defs={'K': 6}),
            Q('optional.int.validate', 'c17_optional', 'c17_optional.c', 'harness_int'),
            Q('expected.validate', 'c17_expected', 'c17_expected.c', 'harness', defs={'K': 6}),
            Q('expected.void.validate', 'c17_expected', 'c17_expected.c', 'harness_void'),
            Q('variant.validate', 'c17_variant', 'c17_variant.c', 'harness', defs={'K': 6}),
            Q('variant_mixed.validate', 'c17_variant2', 'c17_variant2.c', 'harness', defs={'K': 6}),
            Q('manual_box.validate', 'c17_box', 'c17_box.c', 'harness', defs={'K': 6}),
            Q('eternal.validate', 'c17_box', 'c17_box.c', 'harness_eternal'),
            Q('tuple.validate', 'c17_tuple', 'c17_tuple.c', 'harness', defs={'K': 6}),
            Q('tuple.ref.validate', 'c17_tuple', 'c17_tuple.c', 'harness_ref'),
            Q('tuple.cat6.validate', 'c17_tuple', 'c17_tuple.c', 'harness_cat6'),
            Q('category.validate', 'c17_cat', 'c17_cat.c', 'harness'),
            Q('unique_ptr.validate', 'c17_owner', 'c17_owner.c', 'harness_unique_ptr', defs={'K': 6}),
            Q('unique_memory.validate', 'c17_owner', 'c17_owner.c', 'harness_unique_memory', defs={'K': 6}),
            Q('construct.validate', 'c17_owner', 'c17_owner.c', 'harness_construct', defs={'LEN': 3})]
validation_queries_c16 = validation_queries
VALIDATE_VECTORS = 80
LEVEL = 'model_checking'
TECHNIQUE = ('CBMC bounded model checking of the clang-lowered real headers: bounded histories of solver-chosen operations over two holder objects against a reference model '
             '(state, value, moved-from), with an element type that reports its special member functions (lifetime registry) and a tracking allocator (block registry)')
FUNCTION_PATTERNS = [r'frg::', r'^(opt|oi|exp|xv|var|v2|box|et|tup|tref|cat|up|um|al)_']
ASSUMPTIONS = [
    'callers respect the documented preconditions: operator*/->/value()/get<X>()/error()/unwrap()/apply() only in the matching state, initialize()/construct_with() only on an uninitialized manual_box, destruct() only on an initialized one, '
    'expected(E) only with a non-default E; every FRG_ASSERT reached inside these preconditions is a violation',
    'a holder whose value has been moved out is not used as the SOURCE of a later copy/move (reading a moved-from value is the caller\'s business); it is used as a destination of assignment/emplace and is destroyed',
    'histories: <= 3 (quick) / 4-5 (thorough) operations over two holder objects, values arbitrary 32-bit ints; the element type\'s self move-assignment keeps its value (tracked does)',
    'manual_box and eternal are trivially destructible by design: the caller destructs an initialized manual_box before it goes away (histories do), eternal never destroys its object (checked)',
    'unique_ptr move assignment is specified by frg as an exchange (the old pointee is released when the source dies): modelled as such; unique_memory sizes are drawn from {0, 1, 24}',
    'clang-14 -O1 lowering is the semantics checked; the ir2c translation is validated differentially (generated C vs g++ build of the real headers) on every run',
]
OUTSIDE = [
    'expected::operator=(const expected &) and variant::const_apply: they do not compile when instantiated (cast away const / call a non-const member), so there is no behaviour to check',
    'tuple_cat over tuples that hold lvalue references: does not compile on the unmodified header (compiles with proposed fix C17_2)',
    'optional == optional (ambiguous overloads, does not compile), optional::operator-> const (does not exist), optional<T&>',
    'histories longer than the stated K, more than two holder objects, variants with more than two alternatives, tuples with more than six elements',
    'copying a manual_box / eternal object itself (implicit bytewise copy: not a meaningful operation for a non-trivial T)',
    'allocation failure (allocate returning null) in make_unique / construct / unique_memory',
]
