# C20 — parsers are memory-safe and total on arbitrary input
#   printf_format/pop_arg (printf.hpp), fmt() {}-spec parser (formatting.hpp), parse_arguments (cmdline.hpp), string_view::to_number (string.hpp)
# Exploration mode: single-path (cbmc --paths lifo) for the three parsers; path merging for to_number (one loop, no pointer phi).
import os, sys
sys.path.insert(0, os.path.join(os.path.dirname(__file__), '..', 'engine'))
from run import Q, Unit

PF = Unit('c20_printf'); FM = Unit('c20_fmt'); CL = Unit('c20_cmdline')
UNITS = [PF, FM, CL]
TYPES = ['int', 'unsigned', 'long', 'uint64_t']
TABLES = {1: '{flag "a", number "b"}', 2: '{string "a", flag "ab"}', 3: '{probe "a" (valued), probe "b" (flag)}: every view handed to a callback is reported'}
VARIANTS = {0: 'three probe arguments (formatter reports the parsed options)', 1: 'arguments (int, unsigned long, char), real formatters', 2: 'no arguments'}

# ---- single-path units: clang -O1 if-converts `if(c == '{') i++;` into `select`; ir2c renders a select as a C conditional EXPRESSION, so the
# loop index becomes a symbolic term and every later loop test forks (fmt(): 1509 paths for a 1-byte string, no verdict for 5 bytes).
# In single-path mode a select must be a BRANCH (both arms then continue with concrete values).  ir2c has no switch for that, so the generated
# C is rewritten here, before translator validation (which therefore also validates the rewritten text):
#     r = (c) ? (a) : (b);      ==>      if(c) { r = (a); } else { r = (b); }
import re
def _split_select(rhs):
    def grab(t, i):
        if t[i] != '(': raise ValueError
        d = 0
        for j in range(i, len(t)):
            if t[j] == '(': d += 1
            elif t[j] == ')':
                d -= 1
                if d == 0: return t[i + 1:j], j + 1
        raise ValueError
    c, i = grab(rhs, 0)
    if rhs[i:i + 3] != ' ? ': return None
    a, i = grab(rhs, i + 3)
    if rhs[i:i + 3] != ' : ': return None
    b, i = grab(rhs, i + 3)
    return (c, a, b) if i == len(rhs) else None
def prepare(runner):
    with open(os.path.join(runner.work, 'c20_cases.h'), 'w') as f:
        for nm, tab in (('printf', PRINTF_CASES), ('fmt', FMT_CASES), ('cmdline', CMD_CASES)):
            f.write('static const char *const c20_%s_cases[] = { %s };\n' % (nm, ', '.join(_cstr(t) for t in tab)))
    for u in UNITS:
        path = os.path.join(runner.work, u.name + '.c'); out = []; n = 0
        for l in open(path).read().split('\n'):
            m = re.match(r'^  (\w+) = (\(.*\) \? \(.*\) : \(.*\));$', l)
            r = None
            if m and not m.group(1).startswith('pz_'):
                try: r = _split_select(m.group(2))
                except ValueError: r = None
            if r: out.append('  if(%s) { %s = (%s); } else { %s = (%s); }' % (r[0], m.group(1), r[1], m.group(1), r[2])); n += 1
            else: out.append(l)
        open(path, 'w').write('\n'.join(out))
        runner.say('[prepare] %s: %d select expressions rewritten as branches (single-path exploration)' % (u.name, n))

# concrete inputs of realistic length (harness_concrete entries); written to c20_cases.h in the scratch directory by prepare()
PRINTF_CASES = ['%d %s %c%%', '%5.3ld|%-8x|%#o', '%2$d %1$s', '%*d %.*s', '%hhu %hd %lld %zu %td %jd %Lu', 'plain text only', '%9$d', "100%% sure: %+05d % i %'u", '%3$s %1$*d',
                '%1$d%1$d%1$d%1$d', "%-+ #0'12.34lx", '%', '%5', '%.', '%l', 'abc%', '%q %d', '%1$', '%0$d', '%2$d %1$d %2$d', 'x=%2147483647d', 'trailing text %d!',
                '%hh', '%-4hh', 'abc %-4hh', '%ll', '%h', '%*', '%.*', '%z', '%t', '%j', '%L', '%hhq%d', '%y %d %k']
FMT_CASES = ['Hello {}!', '{} {:x}', '{:08X}', '{1} {0}', '{{}', '{:h}', '{:03o} {:b} {:d}{:i}', '{', '}', '{:}', '{3}', 'abc{', '{}{}{}{}', '{0:c}{2:c}', '{{{{', '{:0}', '{:12}|{2}', '{18446744073709551616}']
CMD_CASES = ['a b=12', '"a=x y" ab', 'b=99999999999 a', 'a="q" ab', '  a  ', '"a"', 'x86.nosmp init.exec=/sbin/posix-subsystem b=7', '"unbalanced a', 'a"b', '=', 'a=', 'b=1x a=b=c ab=',
             '"path1=a space/nospace" foo baz=yoo b=1234 "a=/a/b c/d"', '', 'a "', '"" a', 'b=4294967296']
def _cstr(t): return '"' + ''.join('\\' + c if c in '"\\' else c for c in t) + '"'

def pf_loops(n):     # every loop of the directive parser runs at most once per format byte (+1 for the exit test); pop_arg's cache loop <= 9 positions
    return [(r'printf_format', n + 1), (r'pop_arg', 11), (r'.', 48)]

def printf_bytes(name, l, defs, what, timeout=1200, optional=False):
    d = {'L': l}; d.update(defs)
    if d.get('LENIENT'): what = (what + '; ' if what else '') + 'LENIENT agent: unknown conversion characters are accepted (consume nothing), parsing continues behind them'
    return Q(name, 'c20_printf', 'c20_printf.c', 'harness_bytes', defs=d, paths=True, unwind_fn=pf_loops(l), inline_witness=True, witness='any', timeout=timeout, mem_gb=3, optional=optional,
             bounds={'format string': 'EVERY byte string of length <= %d over the full byte alphabet (NUL-terminated at %d)' % (l, l), 'variadic slots': '%d arbitrary 64-bit slots, consumption judged against declared(fmt)' % (9 + l),
                     'restriction': what},
             what='printf_format on every format string of length <= %d%s: reads inside the buffer, no argument beyond the declared ones, no UB, terminates' % (l, what and ' (' + what + ')' or ''))

def queries(tier):
    quick = tier == 'quick'
    qs = []
    # ---------------------------------------------------------------- printf_format / pop_arg
    for l in (1, 2, 3):
        qs.append(printf_bytes('printf.bytes.L%d' % l, l, {}, ''))
    # the same with the lenient agent (a refusing agent stops printf_format at the first bogus conversion character and so hides what the parser does next)
    qs.append(printf_bytes('printf.lenient.bytes.L1', 1, {'LENIENT': 1}, ''))
    qs.append(printf_bytes('printf.lenient.bytes.L2', 2, {'LENIENT': 1}, ''))
    qs.append(printf_bytes('printf.lenient.bytes.L3.pct', 3, {'LENIENT': 1, 'C0': 1}, "byte 0 = '%'"))
    if not quick:
        qs.append(printf_bytes('printf.lenient.bytes.L3.text', 3, {'LENIENT': 1, 'C0': 8}, "byte 0 any byte except '%' and NUL"))
        qs.append(printf_bytes('printf.lenient.bytes.L4.pct', 4, {'LENIENT': 1, 'C0': 1}, "byte 0 = '%'", timeout=7200, optional=True))
    if not quick:
        # L = 4: byte 0 concrete per query where that prunes ('%', NUL); the remainder keeps byte 0 symbolic
        qs.append(printf_bytes('printf.bytes.L4.pct', 4, {'C0': 1}, "byte 0 = '%'", timeout=5400))
        qs.append(printf_bytes('printf.bytes.L4.text', 4, {'C0': 8}, "byte 0 any byte except '%' and NUL", timeout=7200, optional=True))
    for prec in (0, 1):
        for d in ((3, 9, 10, 11, 12) if quick else range(1, 13)):
            qs.append(Q('printf.digits.%s.D%d' % ('prec' if prec else 'width', d), 'c20_printf', 'c20_printf.c', 'harness_digits', defs={'D': d, 'PREC': prec, 'KSYM': 1 if quick else 2},
                        paths=True, unwind_fn=pf_loops(d + 3), inline_witness=True, witness='any', timeout=900, mem_gb=3,
                        bounds={'format': "'%%%s' + %d decimal digits + 'd'" % ('.' if prec else '', d), 'digits': 'leading digits from 4 boundary families (9..9, 10..0, INT_MAX, 2^32 prefixes), last %d digit(s) symbolic' % (1 if quick else 2)},
                        what='%s accumulator on a run of %d digits: no signed overflow, no over-read' % ('precision' if prec else 'width', d)))
    pm = 3 if quick else 5
    for n in range(1, pm + 1):
        qs.append(Q('printf.positional.max%d' % n, 'c20_printf', 'c20_printf.c', 'harness_positional', defs={'POSMAX': pm, 'NPOS': n}, paths=True, unwind_fn=pf_loops(12), inline_witness=True, witness='any',
                    timeout=900, mem_gb=3, bounds={'format': '%a$d%b$d%c$d', 'a,b,c': 'every triple in 1..%d with max = %d' % (pm, n), 'variadic slots': 'exactly %d (exact-size array)' % n},
                    what='positional directives in any order never read more than max(a,b,c) variadic arguments'))
    for c, t in enumerate(PRINTF_CASES):
        qs.append(Q('printf.concrete.%d' % c, 'c20_printf', 'c20_printf.c', 'harness_concrete', defs={'CASE': c}, paths=True, unwind_fn=pf_loops(len(t)), inline_witness=True, witness='any', timeout=300, mem_gb=3,
                    bounds={'format': 'the concrete format string %r' % t, 'variadic slots': 'exactly declared(fmt), arbitrary values'},
                    what='printf_format on a concrete realistic format with exactly the declared number of variadic slots'))
        qs.append(Q('printf.lenient.concrete.%d' % c, 'c20_printf', 'c20_printf.c', 'harness_concrete', defs={'CASE': c, 'LENIENT': 1}, paths=True, unwind_fn=pf_loops(len(t)), inline_witness=True, witness='any', timeout=300, mem_gb=3,
                    bounds={'format': 'the concrete format string %r' % t, 'variadic slots': 'exactly declared(fmt), arbitrary values', 'agent': 'lenient: unknown conversion characters accepted, consuming nothing'},
                    what='printf_format with the LENIENT agent on a concrete format (truncated directives, unknown conversions) with exactly the declared number of variadic slots'))
    # ---------------------------------------------------------------- fmt()
    for c, t in enumerate(FMT_CASES):
        qs.append(Q('fmt.concrete.%d' % c, 'c20_fmt', 'c20_fmt.c', 'harness_concrete', defs={'CASE': c, 'VARIANT': 1}, paths=True, unwind_fn=[(r'print_digits', 70), (r'.', len(t) + 3)], inline_witness=True, witness='any',
                    timeout=300, mem_gb=3, bounds={'format': 'the concrete fmt() string %r, exact-size buffer' % t, 'arguments': VARIANTS[1]}, what='fmt() with the real formatters on a concrete realistic format string'))
    for v, lens in ((0, range(0, 6 if quick else 8)), (1, range(0, 5 if quick else 6)), (2, range(0, 5 if quick else 7))):     # real formatters at length 6 ('{:999}': 1000-iteration padding loops): out of memory at 3 GB
        for l in lens:
            qs.append(Q('fmt.bytes.%s.len%d' % (('probe', 'real', 'noargs')[v], l), 'c20_fmt', 'c20_fmt.c', 'harness_bytes', defs={'LEN': l, 'VARIANT': v}, paths=True,
                        unwind_fn=[(r'print_digits', max(70, 10 ** max(0, l - 3) + 2)), (r'.', l + 3)], inline_witness=True, witness='any', timeout=3600, mem_gb=3,
                        bounds={'format string': 'EVERY byte string of length exactly %d over the full byte alphabet, exact-size buffer, no terminator' % l, 'arguments': VARIANTS[v]},
                        what='fmt() on every format string of length %d: all reads inside the view, no UB, terminates' % l))
    for d in ((3, 9, 10, 11, 12) if quick else range(1, 13)):
        qs.append(Q('fmt.width.D%d' % d, 'c20_fmt', 'c20_fmt.c', 'harness_width', defs={'D': d, 'KSYM': 1 if quick else 2, 'VARIANT': 0}, paths=True, unwind_fn=[(r'.', d + 6)], inline_witness=True, witness='any',
                    timeout=900, mem_gb=3, bounds={'format': "'{:' + %d decimal digits + '}'" % d, 'digits': 'leading digits from 4 boundary families, last %d symbolic' % (1 if quick else 2)},
                    what='fmt() width accumulator on a run of %d digits: no signed overflow' % d))
    # ---------------------------------------------------------------- parse_arguments
    for tb in (1, 2, 3):
        for c, t in enumerate(CMD_CASES):
            qs.append(Q('cmdline.concrete.t%d.%d' % (tb, c), 'c20_cmdline', 'c20_cmdline.c', 'harness_concrete', defs={'CASE': c, 'TABLE': tb}, paths=True, unwind_fn=[(r'.', len(t) + 3)], inline_witness=True, witness='any',
                        timeout=300, mem_gb=3, bounds={'command line': 'the concrete command line %r, exact-size buffer' % t, 'option table': TABLES[tb]}, what='parse_arguments on a concrete realistic command line'))
        for l in range(0, 4 if quick else 5):
            qs.append(Q('cmdline.t%d.len%d' % (tb, l), 'c20_cmdline', 'c20_cmdline.c', 'harness_cmdline', defs={'LEN': l, 'TABLE': tb}, paths=True, unwind_fn=[(r'.', l + 3)], inline_witness=True, witness='any',
                        timeout=3600, mem_gb=3, bounds={'command line': 'EVERY byte string of length exactly %d over the full byte alphabet, exact-size buffer, no terminator' % l, 'option table': TABLES[tb]},
                        what='parse_arguments on every command line of length %d: reads inside the buffer, views handed to options inside the buffer, only targets written, terminates' % l))
        if not quick:
            for l in (5,):       # (length 6: 7 x 16807 strings per table, > 35 min and > 3 GB per piece: outside the budget)
                for b0 in range(7):
                    qs.append(Q('cmdline.alpha.t%d.len%d.b%d' % (tb, l, b0), 'c20_cmdline', 'c20_cmdline.c', 'harness_cmdline_alpha', defs={'LEN': l, 'TABLE': tb, 'B0': b0}, paths=True, unwind_fn=[(r'.', l + 3)],
                                inline_witness=True, witness='any', timeout=5400, mem_gb=3,
                                bounds={'command line': 'EVERY string of length exactly %d over the reduced alphabet {\" space = a b 1 x(other)}, byte 0 = alphabet[%d], exact-size buffer' % (l, b0), 'option table': TABLES[tb]},
                                what='parse_arguments on every command line of length %d over the reduced alphabet' % l))
    # ---------------------------------------------------------------- to_number
    for ty in range(4):
        for l in ((0, 1, 2, 5, 9, 10, 11, 18, 19, 20) if quick else range(0, 21)):
            qs.append(Q('tonum.%s.len%d' % (TYPES[ty], l), 'c20_cmdline', 'c20_cmdline.c', 'harness_tonum', defs={'LEN': l, 'TY': ty}, unwind=l + 2, inline_witness=True, witness='any', timeout=600, mem_gb=3,
                        bounds={'input': 'EVERY byte string of length exactly %d (digits and non-digits), exact-size buffer' % l, 'T': TYPES[ty]},
                        what='to_number<%s> on every %d-byte string: no read outside the view, no signed overflow' % (TYPES[ty], l)))
    return qs

def validation_queries(tier):
    return [Q('printf.validate', 'c20_printf', 'c20_printf.c', 'harness_validate'),
            Q('fmt.validate', 'c20_fmt', 'c20_fmt.c', 'harness_validate'),
            Q('fmt.validate.real', 'c20_fmt', 'c20_fmt.c', 'harness_validate', defs={'VARIANT': 1}),
            Q('cmdline.validate.t1', 'c20_cmdline', 'c20_cmdline.c', 'harness_validate_cmdline', defs={'TABLE': 1}),
            Q('cmdline.validate.t2', 'c20_cmdline', 'c20_cmdline.c', 'harness_validate_cmdline', defs={'TABLE': 2}),
            Q('cmdline.validate.t3', 'c20_cmdline', 'c20_cmdline.c', 'harness_validate_cmdline', defs={'TABLE': 3}),
            Q('tonum.validate', 'c20_cmdline', 'c20_cmdline.c', 'harness_validate_tonum')]
VALIDATE_VECTORS = 60
LEVEL = 'model_checking'
TECHNIQUE = ('bounded symbolic execution of the clang-lowered real code with CBMC: single-path exploration (--paths lifo, one SAT call per control-flow path) for the three parsers, '
             'path merging for to_number; pointer/bounds checks on, UB assertions from ir2c --ub-checks, exact-size input objects, hand-built va_list over an exact-size slot array')
FUNCTION_PATTERNS = [r'frg::', r'^c20_']
ASSUMPTIONS = [
    'printf: the agent is a stub that accepts the conversions c p s d i o x X u (pop_arg<char>, <void*>, <int> or <long> by size modifier); every other conversion character is refused (agent_error: printf_format returns) by the strict variant and accepted without consuming an argument by the LENIENT variant (printf.lenient.* queries); '
    'va_list built by hand for the x86-64 SysV layout with both register save areas exhausted, so every va_arg takes the next 8-byte stack slot',
    'printf: declared(fmt) = number of `*` and consuming conversions for sequential formats, the largest n$ for positional formats, their SUM for formats that mix both styles (undefined in POSIX; judged leniently); `0$` is not a position',
    'printf arg_list (positional cache) has exactly 9 entries (positions 1$..9$ are all the parser can express)',
    'a stop through frg_panic (FRG_ASSERT) is admissible; after such a stop nothing further is required',
    'single-path exploration: one CBMC run explores every control-flow path inside the per-loop unwinding bounds; the bounds are checked by unwinding assertions',
    'clang-14 -O1 lowering is the semantics checked; select expressions of the generated C are rewritten as branches (props/C20.py prepare); the translation, including that rewrite, is validated differentially on every run',
]
OUTSIDE = [
    'printf format strings longer than 3 (quick) / 4 (thorough) bytes other than the listed concrete formats, digit-run families and positional triples; floating-point conversions (no FP in the translator) and the real formatting agents (C19)',
    'long all-symbolic digit runs: only the last 1 (quick) / 2 (thorough) digits of a run are symbolic (single-path mode does not prune infeasible branches; an all-symbolic 10-digit run gave no verdict in 15 min, path merging does not finish symex)',
    'fmt() strings longer than 5 (quick) / 7 (thorough) bytes with probe arguments, 4 / 5 with the real formatters, other than the concrete strings and the width families; argument tuples other than (int, unsigned long, char)',
    'command lines longer than 3 (quick) / 4 (thorough) arbitrary bytes, 5 bytes over the reduced alphabet (thorough), other than the concrete lines; option tables other than the three listed; as_number<T> for T other than int',
    'to_number inputs longer than 20 bytes; character types other than char',
    'the sink/agent side (what is done with the emitted text), which C19 checks',
]
UB_TOLERANT_VALIDATION = False
