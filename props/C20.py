# C20 — parsers are memory-safe and total on arbitrary input
#   printf_format/pop_arg (printf.hpp), fmt() {}-spec parser (formatting.hpp), parse_arguments (cmdline.hpp), string_view::to_number (string.hpp)
# Exploration mode: single-path (cbmc --paths lifo) for the three parsers; path merging for to_number (one loop, no pointer phi).
import os, sys
sys.path.insert(0, os.path.join(os.path.dirname(__file__), '..', 'engine'))
from run import Q, Unit

PF = Unit('c20_printf'); FM = Unit('c20_fmt'); CL = Unit('c20_cmdline')
UNITS = [PF, FM, CL]
TYPES = ['int', 'unsigned', 'long', 'uint64_t']
TABLES = {1: '{flag "a", number "b"}', 2: '{string "a", flag "ab"}', 3: '{probe "a" (valued), probe "b" (flag)}: every view handed to a callback is reported'}
VARIANTS = {0: 'three probe arguments (formatter reports the parsed options)', 1: 'arguments (int, unsigned long, char), real formatters', 2: 'no arguments'}

def pf_loops(n):     # every loop of the directive parser runs at most once per format byte (+1 for the exit test); pop_arg's cache loop <= 9 positions
    return [(r'printf_format', n + 2), (r'pop_arg', 11), (r'.', 48)]

def printf_bytes(name, l, defs, what, timeout=1200, optional=False):
    d = {'L': l}; d.update(defs)
    return Q(name, 'c20_printf', 'c20_printf.c', 'harness_bytes', defs=d, paths=True, unwind_fn=pf_loops(l), inline_witness=True, witness='any', timeout=timeout, mem_gb=3, optional=optional,
             bounds={'format string': 'EVERY byte string of length <= %d over the full byte alphabet (NUL-terminated at %d)' % (l, l), 'variadic slots': '%d arbitrary 64-bit slots, consumption judged against declared(fmt)' % (9 + l),
                     'restriction': what},
             what='printf_format on every format string of length <= %d%s: reads inside the buffer, no argument beyond the declared ones, no UB, terminates' % (l, what and ' (' + what + ')' or ''))

def queries(tier):
    quick = tier == 'quick'
    qs = []
    # ---------------------------------------------------------------- printf_format / pop_arg
    for l in (1, 2, 3):
        qs.append(printf_bytes('printf.bytes.L%d' % l, l, {}, ''))
    if not quick:
        # L = 4: byte 0 concrete per query where that prunes ('%', NUL); the remainder keeps byte 0 symbolic
        qs.append(printf_bytes('printf.bytes.L4.pct', 4, {'C0': 1}, "byte 0 = '%'", timeout=3600))
        qs.append(printf_bytes('printf.bytes.L4.text', 4, {'C0': 9}, "byte 0 any byte except '%'", timeout=7200))
    for prec in (0, 1):
        for d in ((3, 9, 10, 11, 12) if quick else range(1, 13)):
            qs.append(Q('printf.digits.%s.D%d' % ('prec' if prec else 'width', d), 'c20_printf', 'c20_printf.c', 'harness_digits', defs={'D': d, 'PREC': prec, 'KSYM': 1 if quick else 2},
                        paths=True, unwind_fn=pf_loops(d + 3), inline_witness=True, witness='any', timeout=900, mem_gb=3,
                        bounds={'format': "'%%%s' + %d decimal digits + 'd'" % ('.' if prec else '', d), 'digits': 'leading digits from 4 boundary families (9..9, 10..0, INT_MAX, 2^32 prefixes), last %d digit(s) symbolic' % (1 if quick else 2)},
                        what='%s accumulator on a run of %d digits: no signed overflow, no over-read' % ('precision' if prec else 'width', d)))
    pm = 3 if quick else 5
    for n in range(1, pm + 1):
        qs.append(Q('printf.positional.max%d' % n, 'c20_printf', 'c20_printf.c', 'harness_positional', defs={'POSMAX': pm, 'NPOS': n}, paths=True, unwind_fn=pf_loops(12), inline_witness=True, witness='any',
                    timeout=900, mem_gb=3, bounds={'format': '%a$d%b$d%c$d', 'a,b,c': 'every triple in 1..%d with max = %d' % (pm, n), 'variadic slots': 'exactly %d (exact-size array)' % n},
                    what='positional directives in any order never read more than max(a,b,c) variadic arguments'))
    # ---------------------------------------------------------------- fmt()
    for v, lens in ((0, range(0, 6 if quick else 7)), (1, range(0, 5 if quick else 6)), (2, range(0, 5 if quick else 6))):
        for l in lens:
            qs.append(Q('fmt.bytes.%s.len%d' % (('probe', 'real', 'noargs')[v], l), 'c20_fmt', 'c20_fmt.c', 'harness_bytes', defs={'LEN': l, 'VARIANT': v}, paths=True,
                        unwind_fn=[(r'print_digits', 1002), (r'.', l + 3)], inline_witness=True, witness='any', timeout=1800, mem_gb=3,
                        bounds={'format string': 'EVERY byte string of length exactly %d over the full byte alphabet, exact-size buffer, no terminator' % l, 'arguments': VARIANTS[v]},
                        what='fmt() on every format string of length %d: all reads inside the view, no UB, terminates' % l))
    for d in ((3, 9, 10, 11, 12) if quick else range(1, 13)):
        qs.append(Q('fmt.width.D%d' % d, 'c20_fmt', 'c20_fmt.c', 'harness_width', defs={'D': d, 'KSYM': 1 if quick else 2, 'VARIANT': 0}, paths=True, unwind_fn=[(r'.', d + 6)], inline_witness=True, witness='any',
                    timeout=900, mem_gb=3, bounds={'format': "'{:' + %d decimal digits + '}'" % d, 'digits': 'leading digits from 4 boundary families, last %d symbolic' % (1 if quick else 2)},
                    what='fmt() width accumulator on a run of %d digits: no signed overflow' % d))
    # ---------------------------------------------------------------- parse_arguments
    for tb in (1, 2, 3):
        for l in range(0, 6 if quick else 8):
            qs.append(Q('cmdline.t%d.len%d' % (tb, l), 'c20_cmdline', 'c20_cmdline.c', 'harness_cmdline', defs={'LEN': l, 'TABLE': tb}, paths=True, unwind_fn=[(r'.', l + 3)], inline_witness=True, witness='any',
                        timeout=3600, mem_gb=3, bounds={'command line': 'EVERY byte string of length exactly %d over the full byte alphabet, exact-size buffer, no terminator' % l, 'option table': TABLES[tb]},
                        what='parse_arguments on every command line of length %d: reads inside the buffer, views handed to options inside the buffer, only targets written, terminates' % l))
    # ---------------------------------------------------------------- to_number
    for ty in range(4):
        for l in range(0, 21):
            qs.append(Q('tonum.%s.len%d' % (TYPES[ty], l), 'c20_cmdline', 'c20_cmdline.c', 'harness_tonum', defs={'LEN': l, 'TY': ty}, unwind=l + 2, inline_witness=True, witness='any', timeout=600, mem_gb=3,
                        bounds={'input': 'EVERY byte string of length exactly %d (digits and non-digits), exact-size buffer' % l, 'T': TYPES[ty]},
                        what='to_number<%s> on every %d-byte string: no read outside the view, no signed overflow' % (TYPES[ty], l)))
    return qs

def validation_queries(tier):
    return [Q('printf.validate', 'c20_printf', 'c20_printf.c', 'harness_validate'),
            Q('fmt.validate', 'c20_fmt', 'c20_fmt.c', 'harness_validate'),
            Q('fmt.validate.real', 'c20_fmt', 'c20_fmt.c', 'harness_validate', defs={'VARIANT': 1}),
            Q('cmdline.validate.t1', 'c20_cmdline', 'c20_cmdline.c', 'harness_validate_cmdline', defs={'TABLE': 1}),
            Q('cmdline.validate.t2', 'c20_cmdline', 'c20_cmdline.c', 'harness_validate_cmdline', defs={'TABLE': 2}),
            Q('cmdline.validate.t3', 'c20_cmdline', 'c20_cmdline.c', 'harness_validate_cmdline', defs={'TABLE': 3}),
            Q('tonum.validate', 'c20_cmdline', 'c20_cmdline.c', 'harness_validate_tonum')]
VALIDATE_VECTORS = 60
LEVEL = 'model_checking'
TECHNIQUE = ('bounded symbolic execution of the clang-lowered real code with CBMC: single-path exploration (--paths lifo, one SAT call per control-flow path) for the three parsers, '
             'path merging for to_number; pointer/bounds checks on, UB assertions from ir2c --ub-checks, exact-size input objects, hand-built va_list over an exact-size slot array')
FUNCTION_PATTERNS = [r'frg::', r'^c20_']
ASSUMPTIONS = []
OUTSIDE = []
