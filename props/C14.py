# C14 — hash_map holds exactly the reference key->value association   (+ the hash_map part of C16: queries_c16)
import os, sys
sys.path.insert(0, os.path.join(os.path.dirname(__file__), '..', 'engine'))
from run import Q, Unit
W = os.path.join(os.path.dirname(__file__), '..', 'wrap', 'c14.cpp')
UNITS = [Unit('c14_int', cxxflags=['-DC14_VT=0'], src=W), Unit('c14_trk', cxxflags=['-DC14_VT=1'], src=W)]
UN = {0: 'c14_int', 1: 'c14_trk'}

OPS = {0: 'ctor', 1: 'insert_copy', 2: 'insert_move', 3: 'index', 4: 'get', 5: 'find', 6: 'cfind', 7: 'remove', 8: 'iterate', 9: 'citerate', 10: 'dtor'}
WHAT = {0: 'constructor: empty map, no table (base case of the induction)',
        1: 'insert(key, const Value&) of an absent key (growth when _size == _capacity)', 2: 'insert(key, Value&&) of an absent key (growth when _size == _capacity)',
        3: 'operator[](key), key present or absent (absent: exactly one default-valued entry is created; growth when _size == _capacity or _size == 0)',
        4: 'get(key), key present or absent', 5: 'find(key), key present or absent (iterator compared with end(), dereferenced)', 6: 'find(key) const, key present or absent',
        7: 'remove(key), key present (returns the stored value, entry gone, node released) or absent',
        8: 'begin()/++/end(): yields every entry exactly once and then end()', 9: 'const_iterator ++ from find(key) to end(): located entry first, no entry twice',
        10: 'destructor: every node and the table released exactly once, all values destroyed'}
RH = {0: '_ZN3frg8hash_mapImi15vp_hash_functor12vp_allocatorE6rehashEv', 1: '_ZN3frg8hash_mapIm7tracked15vp_hash_functor12vp_allocatorE6rehashEv'}

def shapes(tier):
    """(capacity, entries before the operation)"""
    if tier == 'quick':
        return [(0, 0), (10, 0), (10, 1), (10, 4), (10, 9), (10, 10), (20, 0), (20, 3), (20, 11)]
    return [(0, 0)] + [(10, m) for m in range(0, 11)] + [(20, m) for m in range(0, 12)]

def bounds_for(cap, m, vt):
    """per-loop bounds (checked by unwinding assertions): rehash / destructor: inner chain loop m+1, outer bucket loop cap+1"""
    pfx = 'ht' if vt else 'hi'
    us = ['%s.0:%d' % (RH[vt], m + 1), '%s.1:%d' % (RH[vt], max(cap, 1) + 1), '%s_dtor.0:%d' % (pfx, m + 1), '%s_dtor.1:%d' % (pfx, max(cap, 1) + 1)]
    uf = [(r'^h[it]_(begin|it_next|cit_next)$', cap + 2), (r'^(_ZN3frg(?!.*6rehashEv)|h[it]_(?!dtor$))', m + 2), (r'^ir2c_memset$', 21), (r'^(?!.*6rehashEv)(?!h[it]_dtor$)', 21)]
    return us, uf

def step(cap, m, op, vt, tier, fullhash=False, optional=False, prof=None, timeout=None, mem=None):
    defs = {'CAP': cap, 'M': m, 'OP': op, 'VT': vt}
    if fullhash: defs['FULLHASH'] = 1
    if prof is not None: defs['PROF'] = '{' + ','.join(str(b) for b in prof) + '}'
    name = '%s%s.cap%d.m%d%s%s' % ('trk.' if vt else '', OPS[op], cap, m, '.hash32' if fullhash else '', ('.p' + ''.join('%x' % b for b in prof)) if prof is not None else '')
    us, uf = bounds_for(cap, m, vt)
    b = {'capacity before the operation': cap, 'entries before the operation': m, 'keys': 'arbitrary distinct 64-bit keys', 'values': 'arbitrary 32-bit',
         'hash function': 'arbitrary function of the key' + (' (32-bit values)' if fullhash else ' (values < 20: the map only uses hash % capacity, capacity in {10,20})'),
         'pre-state': 'ANY map satisfying the representation invariant (solver-chosen chains)', 'Value': 'tracked' if vt else 'int'}
    if prof is not None:
        b['pre-state'] = 'bucket (hash % capacity) of the i-th entry in iteration order fixed to %s; hash high part (h or h+10), keys, values, argument key and its hash solver-chosen' % (list(prof),)
    return Q(name, UN[vt], 'c14_step.c', 'harness', defs=defs, unwindset=us, unwind_fn=uf, inline_witness=True, witness='all',
             timeout=timeout or 900, mem_gb=mem or 4, optional=optional, bounds=b,
             what='inductive step: ' + WHAT[op] + ' -> invariant, reference association, results, allocator protocol' + (', value lifetimes' if vt else ''))

def applicable(cap, m, op):
    if op == 0: return cap == 0 and m == 0
    if op in (1, 2): return m + 1 <= 12 and not (cap == 20 and m >= 20)
    if op == 9: return m >= 1
    return True

def queries(tier):
    qs = []
    for (cap, m) in shapes(tier):
        for op in sorted(OPS):
            if not applicable(cap, m, op): continue
            if tier == 'quick' and op in (2, 6, 9) and (cap, m) not in ((10, 4), (10, 10), (0, 0)): continue
            qs.append(step(cap, m, op, 0, tier))
    # the same steps for Value = tracked on the growth / boundary shapes: copies, moves, temporaries (also listed under C16)
    qs += queries_c16(tier)
    if tier == 'thorough':
        for (cap, m) in [(0, 0), (10, 3), (10, 10), (20, 5)]:
            for op in (1, 3, 4, 7):
                qs.append(step(cap, m, op, 0, tier, fullhash=True, optional=True))
    return qs

def queries_c16(tier):
    """hash_map part of C16: every chain node and bucket table allocated / deallocated exactly once with the right size, every stored value
    destroyed exactly once.  (a) the inductive steps with Value = tracked, (b) bounded histories from the constructor ending in destruction + vp_end()"""
    qs = []
    sh = [(0, 0), (10, 2), (10, 10), (20, 3)] if tier == 'quick' else [(0, 0), (10, 0), (10, 1), (10, 5), (10, 10), (20, 0), (20, 3), (20, 11)]
    for (cap, m) in sh:
        for op in (1, 2, 3, 7, 10):
            if applicable(cap, m, op): qs.append(step(cap, m, op, 1, tier))
    for (k, u) in ([(2, 2), (3, 2)] if tier == 'quick' else [(2, 3), (3, 3), (4, 2)]):
        qs.append(Q('trk.hist.k%d.u%d' % (k, u), 'c14_trk', 'c14_hist.c', 'harness', defs={'K': k, 'U': u}, unwindset=['%s.0:%d' % (RH[1], k + 3), '%s.1:11' % RH[1], 'ht_dtor.0:%d' % (k + 3), 'ht_dtor.1:11'],
                    unwind_fn=[(r'^(_ZN3frg(?!.*6rehashEv)|h[it]_(?!dtor$))', k + 4), (r'^ir2c_memset$', 21), (r'^(?!.*6rehashEv)(?!h[it]_dtor$)', 21)],
                    inline_witness=True, witness='all', timeout=1800, mem_gb=8, optional=(k >= 4),
                    bounds={'operations': k, 'key universe': u, 'hash function': 'solver-chosen table over the key universe (values < 20)', 'Value': 'tracked', 'allocator': 'tracking allocator, exact-size blocks',
                            'construction': 'default constructor or initializer-list constructor with 2 entries'},
                    what='every history of %d operations from the constructor (insert copy/move, operator[], get, find, remove), then destruction: results equal the reference map, '
                         'no value outside its lifetime, every block released exactly once with its size, nothing alive or allocated at the end' % k))
    return qs

def validation_queries(tier):
    return [Q('script.int.validate', 'c14_int', 'c14_step.c', 'harness_script', defs={'M': 11, 'CAP': 10, 'VT': 0, 'SCRIPT': 1}),
            Q('script.trk.validate', 'c14_trk', 'c14_step.c', 'harness_script', defs={'M': 11, 'CAP': 10, 'VT': 1, 'SCRIPT': 1}),
            Q('hist.validate', 'c14_trk', 'c14_hist.c', 'harness', defs={'K': 40, 'U': 14})]
VALIDATE_VECTORS = 120
LEVEL = 'model_checking'
TECHNIQUE = ('CBMC bounded model checking of the clang-lowered code; inductive step from a solver-chosen valid pre-state (index view of bucket table + chain nodes, '
             'solver-chosen hash function), one query per (capacity, size, operation); bounded histories with the tracking allocator for the lifetime clauses')
FUNCTION_PATTERNS = [r'frg::hash_map', r'^h[it]_', r'^hs_']
ASSUMPTIONS = [
    'pre-state of a step: any map satisfying Inv = {capacity in {0,10,20}, _size == number of entries <= capacity, keys distinct, every entry filed exactly once in the chain of bucket hash(key) % capacity, '
    'chains acyclic}; base case (constructor) is a query; Inv is re-established by every operation (checked in its general form on the post-state) and 120 random histories per run are checked to satisfy it',
    'symmetry reduction: the pre-state numbers the entries in iteration order (bucket ascending, chain order); sound because the library only compares node addresses for equality; keys, values, hashes and therefore chain contents stay arbitrary',
    'hash functor = arbitrary function of the key (one solver-chosen value per stored key and for the argument key); values < 20 in the main queries: the map evaluates hash % capacity only and capacity is 10 or 20 inside the bound, '
    'so the reduction removes no behaviour (thorough tier repeats selected steps with unrestricted 32-bit hash values)',
    'allocator never fails; the allocator stub of the step harness hands out one pre-declared chain-node block and one pre-declared table block (10 or 20 buckets) per operation, filled with poison links; '
    'deallocate(nullptr, 0) (map that never had a table) is accepted like free(NULL)',
    'insert() is only called with absent keys (documented use; the property says "insert (of absent keys)")',
]
OUTSIDE = ['maps with more than 12 entries / capacities beyond 20 (the second doubling 20 -> 40)', 'key types other than uint64_t, value types other than int and tracked',
           'hash functors that are not functions of the key (inconsistent hashes)', 'allocation failure', 'concurrent use']
