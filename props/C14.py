# C14 — hash_map holds exactly the reference key->value association   (+ the hash_map part of C16: queries_c16)
import os, sys
sys.path.insert(0, os.path.join(os.path.dirname(__file__), '..', 'engine'))
from run import Q, Unit
W = os.path.join(os.path.dirname(__file__), '..', 'wrap', 'c14.cpp')
UNITS = [Unit('c14_int', cxxflags=['-DC14_VT=0'], src=W), Unit('c14_trk', cxxflags=['-DC14_VT=1'], src=W),
         Unit('c14_h64', cxxflags=['-DC14_VT=0', '-DC14_H64=1'], src=W)]       # Hash functor returning uint64_t with arbitrary high bits
UN = {0: 'c14_int', 1: 'c14_trk'}

OPS = {0: 'ctor', 1: 'insert_copy', 2: 'insert_move', 3: 'index', 4: 'get', 5: 'find', 6: 'cfind', 7: 'remove', 8: 'iterate', 9: 'citerate', 10: 'dtor'}
WHAT = {0: 'constructor: empty map, no table (base case of the induction)',
        1: 'insert(key, const Value&) of an absent key (growth when _size == _capacity)', 2: 'insert(key, Value&&) of an absent key (growth when _size == _capacity)',
        3: 'operator[](key), key present or absent (absent: exactly one default-valued entry is created; growth when _size == _capacity or _size == 0)',
        4: 'get(key), key present or absent', 5: 'find(key), key present or absent (iterator compared with end(), dereferenced)', 6: 'find(key) const, key present or absent',
        7: 'remove(key), key present (returns the stored value, entry gone, node released) or absent',
        8: 'begin()/++/end(): yields every entry exactly once and then end()', 9: 'const_iterator ++ from find(key) to end(): located entry first, no entry twice',
        10: 'destructor: every node and the table released exactly once, all values destroyed'}
RH = {0: '_ZN3frg8hash_mapImi15vp_hash_functor12vp_allocatorE6rehashEv', 1: '_ZN3frg8hash_mapIm7tracked15vp_hash_functor12vp_allocatorE6rehashEv'}

def shapes(tier):
    """(capacity, entries before the operation) explored with a fully symbolic chain structure"""
    if tier == 'quick':
        return [(0, 0), (10, 0), (10, 1), (10, 4), (10, 6), (10, 10), (20, 0), (20, 3)]
    return [(0, 0)] + [(10, m) for m in range(0, 11)] + [(20, m) for m in range(0, 12)]

def growth_profiles(tier):
    """growth 10 -> 20 (_size == _capacity == 10): bucket (hash % 10) of the 10 entries in iteration order.  The fully symbolic profile gives no verdict
    (cadical and kissat: 2700 s each), so the chain structure is taken from this family; everything else (hash % 20 of every entry, keys, values, argument) stays symbolic."""
    fam = [list(range(10)), [0] * 10, [9] * 10, [0, 0, 0, 0, 1, 1, 1, 2, 2, 2], [0] * 5 + [9] * 5, [0, 0, 1, 1, 2, 2, 3, 3, 4, 4], [3] * 6 + [4, 5, 6, 7], [1, 3, 3, 5, 5, 5, 7, 7, 7, 7]]
    if tier == 'quick': return fam[:6]
    import random
    rnd = random.Random(14)
    seen = {tuple(p) for p in fam}
    while len(fam) < 64:
        nb = rnd.choice([1, 2, 3, 4, 6, 8, 10])                      # number of non-empty buckets
        bs = sorted(rnd.sample(range(10), nb))
        p = sorted(bs + [rnd.choice(bs) for _ in range(10 - nb)])
        if tuple(p) not in seen: seen.add(tuple(p)); fam.append(p)
    return fam

def bounds_for(cap, m, vt):
    """per-loop bounds (checked by unwinding assertions): rehash / destructor: inner chain loop m+1, outer bucket loop cap+1"""
    pfx = 'ht' if vt else 'hi'
    us = ['%s.0:%d' % (RH[vt], m + 1), '%s.1:%d' % (RH[vt], max(cap, 1) + 1), '%s_dtor.0:%d' % (pfx, m + 1), '%s_dtor.1:%d' % (pfx, max(cap, 1) + 1)]
    uf = [(r'^h[it]_(begin|it_next|cit_next)$', cap + 2), (r'^(_ZN3frg(?!.*6rehashEv)|h[it]_(?!dtor$))', m + 2), (r'^ir2c_memset$', 21), (r'^(?!.*6rehashEv)(?!h[it]_dtor$)', 21)]
    return us, uf

def step(cap, m, op, vt, tier, fullhash=False, optional=False, prof=None, timeout=None, mem=None, h64=False):
    defs = {'CAP': cap, 'M': m, 'OP': op, 'VT': vt}
    if h64: defs['H64'] = 1
    if fullhash: defs['FULLHASH'] = 1
    if prof is not None: defs['PROF'] = '{' + ','.join(str(b) for b in prof) + '}'
    name = '%s%s.cap%d.m%d%s%s' % ('trk.' if vt else '', OPS[op], cap, m, '.hash32' if fullhash else '', ('.p' + ''.join('%x' % b if b < 16 else 'ghij'[b - 16] for b in prof)) if prof is not None else '') + ('.h64' if h64 else '')
    us, uf = bounds_for(cap, m, vt)
    # measured: with a symbolic structure of >= 7 entries the walks (remove, iteration, destructor) cost 200-900 s with CBMC's pointer/bounds checks on and about a third of that without;
    # there the explicit checks decide (poisoned free blocks and links: a wild access escapes the index view) as in C06-C08 (DESIGN 2.4)
    heavy = prof is None and m >= 7 and op in (7, 8, 9, 10)
    b = {'capacity before the operation': cap, 'entries before the operation': m, 'keys': 'arbitrary distinct 64-bit keys', 'values': 'arbitrary 32-bit',
         'hash function': 'arbitrary function of the key' + (' (32-bit values)' if fullhash else ' (values < 20: the map only uses hash % capacity, capacity in {10,20})'),
         'pre-state': 'ANY map satisfying the representation invariant (solver-chosen chains)', 'Value': 'tracked' if vt else 'int',
         'CBMC standard pointer/bounds checks': 'off (explicit assertions + poisoned blocks)' if heavy else 'on'}
    if h64: b['hash function'] = 'functor returns uint64_t: (arbitrary 32-bit high word << 32) | h with h < 20 per key; the reference bucket is (unsigned int)hash % capacity, as the library computes it everywhere'
    if prof is not None:
        b['pre-state'] = 'bucket (hash mod capacity) of the i-th entry in iteration order fixed to ' + str(list(prof)) + '; hash mod 20 of every entry (b or b+10), keys, values, argument key and its hash solver-chosen'
    return Q(name, 'c14_h64' if h64 else UN[vt], 'c14_step.c', 'harness', defs=defs, unwindset=us, unwind_fn=uf, inline_witness=True, witness='all', checks='none' if heavy else 'std',
             timeout=timeout or (3000 if heavy else 1200), mem_gb=mem or 4, optional=optional, bounds=b,
             what='inductive step: ' + WHAT[op] + ' -> invariant, reference association, results, allocator protocol' + (', value lifetimes' if vt else ''))

def applicable(cap, m, op):
    if op == 0: return cap == 0 and m == 0
    if op in (1, 2): return m + 1 <= 12 and not (cap == 20 and m >= 20)
    if op == 9: return m >= 1
    return True

P20 = [list(range(11)), [0] * 11, [19] * 11, [0, 0, 0, 0, 1, 1, 1, 1, 2, 2, 2]]       # bucket profiles for capacity 20, 11 entries

def queries(tier):
    qs = []
    quick = tier == 'quick'
    gp = growth_profiles(tier)
    for (cap, m) in shapes(tier):
        for op in sorted(OPS):
            if not applicable(cap, m, op): continue
            if quick and op in (2, 6, 9) and (cap, m) not in ((10, 4), (0, 0)): continue
            if quick and (cap, m) == (10, 6) and op in (8, 10): continue
            if (cap, m) == (10, 10) and op in (1, 2, 3):
                # growth 10 -> 20: chain structure from the profile family (see OUTSIDE); operator[] of a PRESENT key at _size == _capacity is part of the same queries
                fam = (gp if op == 1 else gp[:24]) if not quick else (gp if op == 1 else gp[:2] if op == 2 else [gp[0], gp[5], gp[3]])
                for p in fam: qs.append(step(cap, m, op, 0, tier, prof=p))
                continue
            if quick and (cap, m) == (10, 10) and op not in (4, 5): continue
            # capacity 20 with >= 9 symbolic entries: the walks (remove, iteration, destructor) cost 500-1600 s each under load, const iteration > 3000 s: only remove/iterate at m = 11 are kept,
            # as optional stretch queries; the destructor there is decided on the profile family P20 below.  Destructor on >= 9 symbolic entries: stretch (mandatory twins: profile family)
            if cap == 20 and op in (7, 8, 9, 10) and m >= 9 and not (m == 11 and op in (7, 8)): continue
            if cap == 20 and op == 9 and m > 6: continue
            qs.append(step(cap, m, op, 0, tier, optional=(op == 10 and m >= 9) or (cap == 20 and m >= 9 and op in (7, 8)), timeout=3600 if (m >= 9 and op in (7, 8, 9, 10)) else None))
    if not quick:
        # destructor on full tables: mandatory for the profile family, the symbolic-structure twins above are optional stretch queries
        for p in gp[:16]: qs.append(step(10, 10, 10, 0, tier, prof=p))
        for p in P20: qs.append(step(20, 11, 10, 0, tier, prof=p))
    # Hash functor with a result wider than 32 bits (high word solver-chosen): growth 0 -> 10, growth 10 -> 20 (profile family), lookups / removal on a 20-bucket table
    h64 = [(0, 0, 1, None), (0, 0, 3, None), (10, 10, 1, gp[0]), (10, 10, 1, gp[3]), (10, 10, 3, gp[0]), (20, 3, 4, None), (20, 3, 5, None), (20, 3, 7, None)]
    if not quick:
        h64 += [(10, 10, op, p) for op in (1, 2, 3) for p in gp[1:8] if not (op == 1 and p == gp[3])] + [(10, 10, 2, gp[0])]
        h64 += [(cap, m, op, None) for (cap, m) in ((10, 0), (10, 4), (20, 0), (20, 6)) for op in (1, 3, 4, 5, 6, 7, 8)]
    for (cap, m, op, p) in h64: qs.append(step(cap, m, op, 0, tier, prof=p, h64=True))
    qs += queries_c16(tier)
    qs.append(Q('hash.functors', 'c14_int', 'c14_step.c', 'harness_hash', defs={'M': 0, 'CAP': 0, 'OP': 0, 'VT': 0}, unwind=6, inline_witness=True, timeout=300, mem_gb=2,
                bounds={'key': 'any 64-bit value', 'C strings': 'length <= 3, arbitrary non-zero bytes, exact-size buffers'},
                what='hash.hpp: hash<uint64_t>, hash<int64_t>, CStringHash equal their defining formulas (pure functions of the key); CStringHash reads up to the terminator only'))
    if not quick:
        for (cap, m) in [(0, 0), (10, 3), (20, 5)]:
            for op in (1, 3, 4, 7):
                qs.append(step(cap, m, op, 0, tier, fullhash=True, optional=True))
        # growth with a fully symbolic chain structure: measured twice, no verdict in 2700 s / 2400 s -> not run (outside the claim, see OUTSIDE)
    return qs

def queries_c16(tier):
    """hash_map part of C16: every chain node and bucket table allocated / deallocated exactly once with the right size, every stored value
    destroyed exactly once.  (a) the inductive steps with Value = tracked, (b) bounded histories from the constructor ending in destruction + vp_end()"""
    qs = []
    quick = tier == 'quick'
    gp = growth_profiles(tier)
    sh = [(0, 0), (10, 2), (10, 10), (20, 3)] if quick else [(0, 0), (10, 0), (10, 1), (10, 5), (10, 10), (20, 0), (20, 3), (20, 11)]
    for (cap, m) in sh:
        for op in (1, 2, 3, 7, 10):
            if not applicable(cap, m, op): continue
            if (cap, m) == (10, 10):
                if op in (1, 2, 3):
                    for p in (gp[:1] if quick else gp[:16]): qs.append(step(cap, m, op, 1, tier, prof=p))
                elif not quick:
                    qs.append(step(cap, m, op, 1, tier, optional=(op == 10)))
                    if op == 10:
                        for p in gp[:8]: qs.append(step(cap, m, op, 1, tier, prof=p))
                continue
            if quick and (cap, m) == (20, 3) and op == 10: continue
            if (cap, m) == (20, 11) and op == 10:
                for p in P20: qs.append(step(cap, m, op, 1, tier, prof=p))
                continue
            qs.append(step(cap, m, op, 1, tier))
    hist = [(1, 2, 0), (1, 2, 1), (2, 2, 0)] if quick else [(1, 3, 0), (1, 3, 1), (2, 2, 0), (2, 2, 1), (2, 3, 0), (3, 2, 0), (3, 2, 1)]
    for (k, u, ct) in hist:
        ents = k + 2 * ct
        qs.append(Q('trk.hist.k%d.u%d.%s' % (k, u, 'il' if ct else 'def'), 'c14_trk', 'c14_hist.c', 'harness', defs={'K': k, 'U': u, 'CTOR': ct},
                    unwindset=['%s.0:2' % RH[1], '%s.1:11' % RH[1], 'ht_dtor.0:%d' % (ents + 1), 'ht_dtor.1:11'],
                    unwind_fn=[(r'^(_ZN3frg(?!.*6rehashEv)|h[it]_(?!dtor$))', ents + 2), (r'^ir2c_memset$', 21), (r'^(?!.*6rehashEv)(?!h[it]_dtor$)', 21)],
                    inline_witness=True, witness='all', timeout=3000, mem_gb=8, optional=(k >= 3), extra=['--object-bits', '10'],
                    bounds={'operations': k, 'key universe': '%d solver-chosen distinct 64-bit keys' % u, 'hash function': 'solver-chosen table over the key universe (values < 20)', 'Value': 'tracked',
                            'allocator': 'tracking allocator (block registry of vp_track.h over typed pre-declared blocks)',
                            'construction': 'initializer-list constructor with 2 entries' if ct else 'default constructor'},
                    what='every history of %d operations from the constructor (insert copy/move, operator[], get, find, remove), then destruction: results equal the reference map, '
                         'no value outside its lifetime, every block released exactly once with its size, nothing alive or allocated at the end' % k))
    return qs

def validation_queries(tier):
    return [Q('script.int.validate', 'c14_int', 'c14_step.c', 'harness_script', defs={'M': 11, 'CAP': 10, 'VT': 0, 'SCRIPT': 1}),
            Q('script.trk.validate', 'c14_trk', 'c14_step.c', 'harness_script', defs={'M': 11, 'CAP': 10, 'VT': 1, 'SCRIPT': 1}),
            Q('script.h64.validate', 'c14_h64', 'c14_step.c', 'harness_script', defs={'M': 11, 'CAP': 10, 'VT': 0, 'SCRIPT': 1, 'H64': 1}),
            Q('hist.validate', 'c14_trk', 'c14_hist.c', 'harness', defs={'K': 40, 'U': 14}),
            Q('hash.validate', 'c14_int', 'c14_step.c', 'harness_hash', defs={'M': 0, 'CAP': 0, 'OP': 0, 'VT': 0})]
VALIDATE_VECTORS = 120
LEVEL = 'model_checking'
TECHNIQUE = ('CBMC bounded model checking of the clang-lowered code; inductive step from a solver-chosen valid pre-state (index view of bucket table + chain nodes, '
             'solver-chosen hash function), one query per (capacity, size, operation); bounded histories with the tracking allocator for the lifetime clauses')
FUNCTION_PATTERNS = [r'frg::hash_map', r'^h[it]_', r'^hs_']
ASSUMPTIONS = [
    'pre-state of a step: any map satisfying Inv = {capacity in {0,10,20}, _size == number of entries <= capacity, keys distinct, every entry filed exactly once in the chain of bucket hash(key) % capacity, '
    'chains acyclic}; base case (constructor) is a query; Inv is re-established by every operation (checked in its general form on the post-state) and 120 random histories per run are checked to satisfy it',
    'symmetry reduction: the pre-state numbers the entries in iteration order (bucket ascending, chain order); sound because the library only compares node addresses for equality; keys, values, hashes and therefore chain contents stay arbitrary',
    'hash functor = arbitrary function of the key (one solver-chosen value per stored key and for the argument key); values < 20 in the main queries: the map evaluates hash % capacity only and capacity is 10 or 20 inside the bound, '
    'so the reduction removes no behaviour (thorough tier repeats selected steps with unrestricted 32-bit hash values)',
    'Hash result type: unsigned int in the main queries; a second instantiation whose functor returns uint64_t with arbitrary high bits (queries *.h64) checks that every path buckets by (unsigned int)hash % capacity',
    'allocator never fails; the allocator stub of the step harness hands out one pre-declared chain-node block and one pre-declared table block (10 or 20 buckets) per operation, filled with poison links; '
    'deallocate(nullptr, 0) (map that never had a table) is accepted like free(NULL)',
    'insert() is only called with absent keys (documented use; the property says "insert (of absent keys)")',
    'history harness under CBMC: before each operation _size/_capacity are asserted equal to the reference (size, 0 or 10) and rewritten as constants under a case split over the reference size '
    '(a no-op that keeps the allocation size in rehash() concrete); blocks are typed pre-declared objects registered in the block registry of vp_track.h',
]
OUTSIDE = ['growth 10 -> 20 (_size == _capacity == 10) with a FULLY symbolic chain structure: measured, no verdict (path-merged query, 1.9 M variables / 8.4 M clauses, cadical and kissat 2700 s each; '
           'it stays in the thorough tier as an optional stretch query).  Fallback as announced in DESIGN.md section 4: the growth step (insert const&/&&, operator[] of an absent key) is decided for a family of '
           'bucket profiles of the 10 entries (quick 6: one per bucket, all in bucket 0, all in bucket 9, "mod 3", two chains of 5, pairs; thorough 64 incl. 56 pseudo-random ones) with hash mod 20 of every entry, '
           'all keys, all values and the argument key / hash solver-chosen; growth 0 -> 10 and all non-growing operations at _size == _capacity == 10 are decided for the fully symbolic structure',
           'capacity 20 with 9..11 entries in a fully symbolic structure: remove / iteration / destructor (500-1600 s each under load, const iteration no verdict in 3000 s); there insert, operator[], get, find are decided '
           'symbolically, the destructor on the profile family, remove/iterate at 11 entries as optional stretch queries',
           'maps with more than 12 entries / capacities beyond 20 (the second doubling 20 -> 40)', 'key types other than uint64_t, value types other than int and tracked',
           'hash functors that are not functions of the key (inconsistent hashes)', 'allocation failure', 'concurrent use',
           'bounded histories (C16 part): at most 3 operations after the constructor, key universe <= 3, capacity stays 10 (growth is covered by the inductive steps with Value = tracked)']
