# C15 — strings and string views denote exactly their character sequence, in bounds  (+ the string part of C16: queries_c16)
import os, sys
sys.path.insert(0, os.path.join(os.path.dirname(__file__), '..', 'engine'))
from run import Q, Unit
UNITS = [Unit('c15')]
H = 'c15_string.c'

V_OPS = ['default', 'cstr', 'ptrlen', 'copy', 'assign', 'index', 'eq', 'eq_same', 'eq_cstr', 'find_first', 'find_first0', 'find_first_of', 'find_first_of0',
         'find_last', 'sub_string', 'starts_with', 'ends_with', 'to_unsigned', 'to_int', 'hash']
S_OPS = ['ctor_default', 'ctor_alloc', 'ctor_cstr', 'ctor_alloc_cstr', 'ctor_ptrlen', 'ctor_alloc_ptrlen', 'ctor_view', 'ctor_alloc_view', 'ctor_fill', 'ctor_copy', 'ctor_move',
         'assign_cstr', 'append_cstr', 'index', 'iterate', 'compare', 'eq', 'compare_cstr', 'eq_cstr', 'ne_cstr', 'eq_view', 'to_view', 'starts_with', 'ends_with', 'hash', 'plus_view', 'plus_char', 'plus_self']
M_OPS = ['assign_copy', 'assign_self', 'assign_move', 'assign_empty', 'resize_0', 'resize_less', 'resize_same', 'resize_more',
         'append_view', 'append_self', 'append_self_tail', 'append_char', 'push_back', 'plus_view', 'plus_char', 'plus_self_to_other', 'swap']
# operations that do not look at the second source (one query per LA is enough)
V_UNARY = {'default', 'cstr', 'ptrlen', 'index', 'eq_same', 'find_first', 'find_first0', 'find_last', 'sub_string', 'to_unsigned', 'to_int'}
S_UNARY = {'ctor_default', 'ctor_alloc', 'ctor_cstr', 'ctor_alloc_cstr', 'ctor_ptrlen', 'ctor_alloc_ptrlen', 'ctor_view', 'ctor_alloc_view', 'ctor_fill', 'ctor_copy', 'ctor_move',
           'index', 'iterate', 'to_view', 'plus_char', 'plus_self'}
# operations whose result depends on the allocator block registry (decide the C16 block clauses for strings)
C16_S = {'plus_view', 'plus_char', 'plus_self', 'assign_cstr', 'append_cstr', 'ctor_default', 'ctor_alloc', 'ctor_cstr', 'ctor_alloc_cstr', 'ctor_ptrlen', 'ctor_alloc_ptrlen', 'ctor_view', 'ctor_alloc_view', 'ctor_fill', 'ctor_copy', 'ctor_move'}

def _tuples(lmax):
    """(la, lb, nulla, nullb): length 0 comes in two representations, (nullptr,0) and an allocated/zero-length buffer"""
    out = []
    for la in range(lmax + 1):
        for lb in range(lmax + 1):
            for na in ((0, 1) if la == 0 else (0,)):
                for nb in ((0, 1) if lb == 0 else (0,)):
                    out.append((la, lb, na, nb))
    return out

def _tname(t, unary=False):
    la, lb, na, nb = t
    return ('a%d%s' % (la, 'n' if na else '')) + ('' if unary else '.b%d%s' % (lb, 'n' if nb else ''))

# operations that take a C string: the library derives the length from the content, so these queries run in single-path mode (see harness)
V_CSTR = {'cstr', 'eq_cstr'}
S_CSTR = {'ctor_cstr', 'ctor_alloc_cstr', 'assign_cstr', 'append_cstr', 'compare_cstr', 'eq_cstr', 'ne_cstr'}

def _defs(t, lmax, **kw):
    d = {'LA': t[0], 'LB': t[1], 'NULLA': t[2], 'NULLB': t[3], 'LMAX': lmax}
    d.update(kw); return d

CB = {'C-string sources': 'exact-size buffer of the stated length + terminator, arbitrary bytes: the string ends at the first 0 (early NUL included)', 'exploration': 'single-path mode: one solver call per control-flow path'}

def _bounds(t, lmax, extra=None):
    b = {'length of source A': t[0], 'length of source B': t[1], 'contents': 'arbitrary bytes, 0 included',
         'empty representation': '%s / %s' % ('(nullptr,0)' if t[2] else 'buffer', '(nullptr,0)' if t[3] else 'buffer'),
         'source buffers': 'exact-size heap objects: one byte past the end is out of bounds', 'scalar arguments': 'arbitrary (characters: any byte; start positions: any 64-bit value)'}
    if extra: b.update(extra)
    return b

def _mask(names, ops): return '0x%xu' % sum(1 << names.index(o) for o in ops)

def _single(qs, tier, kind, names, entry, ops, t, lmax, un, label, what):
    """the non-C-string operations `ops` on one length tuple: quick = ONE query running them one after the other (CBMC start-up dominates these tiny
    queries), thorough = one query per operation"""
    unary = label == 'unary'
    if not ops: return
    if tier == 'quick':
        qs.append(Q('%s.%s.%s' % (kind, label, _tname(t, unary)), 'c15', H, entry, defs=_defs(t, lmax, OPSET=_mask(names, ops)), unwind=un, inline_witness=True, timeout=300, mem_gb=2,
                    bounds=_bounds(t, lmax, {'operations': ', '.join(ops)}), group='%s.%s.%s' % (kind, label, _tname(t, unary)), what=what % ', '.join(ops)))
    else:
        for op in ops:
            qs.append(Q('%s.%s.%s' % (kind, op, _tname(t, unary)), 'c15', H, entry, defs=_defs(t, lmax, OP=names.index(op)), unwind=un, inline_witness=True, timeout=300, mem_gb=2,
                        bounds=_bounds(t, lmax), group='%s.%s' % (kind, op), what=what % op))

def _cstr(qs, kind, names, entry, op, t, lmax, un, unary, what):
    qs.append(Q('%s.%s.%s' % (kind, op, _tname(t, unary)), 'c15', H, entry, defs=_defs(t, lmax, OP=names.index(op), C15_PATHS=1), unwind=un, paths=True, inline_witness=True, timeout=600, mem_gb=2,
                bounds=_bounds(t, lmax, CB), group='%s.%s' % (kind, op), what=what % op))

W_VIEW = 'basic_string_view: %s agree(s) with the (bytes,len) reference; no access outside the source buffers'
W_STR = ('basic_string<char, vp_allocator>: %s agree(s) with the (bytes,len) reference, data()[size()]==0, no access outside a source or the own buffer, '
         'one block per string, nothing allocated after destruction')

def queries(tier):
    qs = []
    quick = tier == 'quick'
    lmax = 4 if quick else 6
    un = 8 * lmax + 10
    lens2 = [0, 1, 2, 4] if quick else list(range(lmax + 1))      # lengths of two-operand queries (one-operand queries: every length 0..lmax)
    tup2 = [t for t in _tuples(lmax) if t[0] in lens2 and t[1] in lens2]
    tup1 = [t for t in _tuples(lmax) if t[1] == 0 and t[3] == 0]
    v_un = [o for o in V_OPS if o in V_UNARY and o not in V_CSTR and not o.startswith('to_')]
    v_bin = [o for o in V_OPS if o not in V_UNARY and o not in V_CSTR]
    s_un = [o for o in S_OPS if o in S_UNARY and o not in S_CSTR]
    s_bin = [o for o in S_OPS if o not in S_UNARY and o not in S_CSTR]
    # ---- views
    for t in tup1:
        ops = [o for o in v_un if not (o == 'index' and t[0] == 0) and not (o == 'ptrlen' and t[2])]
        _single(qs, tier, 'view', V_OPS, 'harness_view', ops, t, lmax, un, 'unary', W_VIEW)
        if not t[2]: _cstr(qs, 'view', V_OPS, 'harness_view', 'cstr', t, lmax, un, True, W_VIEW)
        for op in ('to_unsigned', 'to_int'):
            qs.append(Q('view.%s.%s' % (op, _tname(t, True)), 'c15', H, 'harness_view', defs=_defs(t, lmax, OP=V_OPS.index(op)), unwind=un, inline_witness=True, timeout=300, mem_gb=2,
                        bounds=_bounds(t, lmax), group='view.%s' % op, what='to_number<%s>: engaged exactly for digit strings, value equals the decimal value' % ('unsigned' if 'uns' in op else 'int')))
        qs.append(Q('view.sub_string_guard.%s' % _tname(t, True), 'c15', H, 'harness_sub', defs=_defs(t, lmax), unwind=un, inline_witness=True, timeout=300, mem_gb=2,
                    bounds=_bounds(t, lmax, {'from, size': 'any two 64-bit values'}), group='view.sub_string_guard',
                    what='sub_string(from,size) for ARBITRARY arguments either stops through its bounds assertion or returns a view inside the source'))
    for t in tup2:
        _single(qs, tier, 'view', V_OPS, 'harness_view', v_bin, t, lmax, un, 'binary', W_VIEW)
        _cstr(qs, 'view', V_OPS, 'harness_view', 'eq_cstr', t, lmax, un, False, W_VIEW)
    # to_number on longer digit strings that still fit (10 digits: value bounded by the target type)
    for la in range(lmax + 1, 11):
        for op in ('to_unsigned', 'to_int'):
            t = (la, 0, 0, 0)
            qs.append(Q('view.%s.a%d' % (op, la), 'c15', H, 'harness_view', defs=_defs(t, 10, OP=V_OPS.index(op)), unwind=14, inline_witness=True, timeout=600, mem_gb=3,
                        bounds=_bounds(t, 10, {'value': 'digit strings whose value fits the target type; any non-digit string'}), group='view.%s' % op,
                        what='to_number<%s> on strings of length %d: engaged exactly for digit strings, value equals the decimal value' % ('unsigned' if 'uns' in op else 'int', la)))
    # ---- owned strings: constructors, observers, C-string mutators
    for t in tup1:
        ops = [o for o in s_un if not (o == 'index' and t[0] == 0)]
        _single(qs, tier, 'str', S_OPS, 'harness_str', ops, t, lmax, un, 'unary', W_STR)
        for op in ('ctor_cstr', 'ctor_alloc_cstr'):
            if not t[2]: _cstr(qs, 'str', S_OPS, 'harness_str', op, t, lmax, un, True, W_STR)
    for t in tup2:
        _single(qs, tier, 'str', S_OPS, 'harness_str', s_bin, t, lmax, un, 'binary', W_STR)
        for op in ('assign_cstr', 'append_cstr', 'compare_cstr', 'eq_cstr', 'ne_cstr'):
            if quick and op == 'ne_cstr' and t[0] != t[1]: continue      # != is the C++20 rewrite of ==: the same library code; quick keeps the equal-length tuples
            _cstr(qs, 'str', S_OPS, 'harness_str', op, t, lmax, un, False, W_STR)
    # ---- histories of mutating operations
    qs += _hist(tier, lmax)
    return qs

# representative operations for the positions that a quick-tier 3-step query ranges over (one per mechanism: copy-and-swap assignment, reset to the
# (nullptr,0) representation, shrink, grow, append a foreign view, append a view of itself, append a character, operator+, swap)
H_CORE = ['assign_copy', 'assign_empty', 'resize_less', 'resize_more', 'append_view', 'append_self', 'push_back', 'plus_view', 'swap']

def _hist(tier, lmax):
    qs = []
    n = len(M_OPS)
    full = (1 << n) - 1
    core = sum(1 << M_OPS.index(o) for o in H_CORE)
    if tier == 'quick':
        k2 = [(0, 0, 1, 1), (0, 1, 0, 0), (2, 0, 0, 1), (4, 3, 0, 0)]
        k3 = [((1, 2, 0, 0), core)]
    else:
        k2 = _tuples(4)[::2]
        k3 = [(t, full) for t in [(1, 2, 0, 0)]] + [(t, core) for t in [(0, 0, 1, 1), (2, 1, 0, 0), (0, 1, 0, 0), (3, 4, 0, 0), (4, 4, 0, 0)]]
    for t in k2:
        for h1 in range(n):
            qs.append(_hq(t, lmax, 2, h1, -1, full))
    for (t, hset) in k3:        # one query per (first, second) operation: larger chunks grow super-linearly (289 histories in one query: no verdict in 900 s / 4 GB)
        for h1 in range(n):
            for h2 in range(n):
                if (hset >> h1) & 1 and (hset >> h2) & 1: qs.append(_hq(t, lmax, 3, h1, h2, hset))
    return qs

def _hq(t, lmax, k, h1, h2, hset):
    ops = [o for i, o in enumerate(M_OPS) if (hset >> i) & 1]
    nm = 'hist%d.%s.%s' % (k, _tname(t), M_OPS[h1]) + ('.%s' % M_OPS[h2] if h2 >= 0 else '')
    return Q(nm, 'c15', H, 'harness_hist', defs=_defs(t, lmax, K=k, H1=h1, H2=h2, H3=(-1 if k >= 3 else 0), HSET='0x%xu' % hset), unwind=8 * lmax + 10, inline_witness=True,
             timeout=900, mem_gb=4, extra=['--object-bits', '12'], group='hist%d.%s' % (k, _tname(t)),
             bounds=_bounds(t, lmax, {'operations per history': k, 'histories in this query': len(ops), 'first operation': M_OPS[h1], 'second operation': M_OPS[h2] if h2 >= 0 else 'every one of the set',
                                      'third operation': 'every one of the set' if k >= 3 else 'none', 'operation set': ', '.join(ops), 'appended characters': 'arbitrary, one per step'}),
             what='every history of %d mutating operations starting with %s on two owned strings (initial lengths %d and %d): after each step both strings equal the reference, are terminated, '
                  'own exactly one block each; at the end all strings are destroyed and no block is outstanding' % (k, M_OPS[h1] + (', ' + M_OPS[h2] if h2 >= 0 else ''), t[0], t[1]))

def queries_c16(tier):
    """the queries that decide the block clauses of C16 for frg::basic_string (every block given back exactly once, nothing allocated after destruction):
    all histories, all constructors (incl. copy/move) and the C-string mutators; every one of them ends with destroying all strings and vp_end()"""
    def c16(q):
        p = q.name.split('.')
        return p[0].startswith('hist') or (p[0] == 'str' and (p[1] in C16_S or p[1] in ('unary', 'binary')))
    return [q for q in queries(tier) if c16(q)]

def validation_queries(tier):
    if os.environ.get('C15_SKIP_VALIDATION'): return []     # demonstration runs on a tree whose defects already stop the native builds
    return [Q('view.validate', 'c15', H, 'harness_view'), Q('str.validate', 'c15', H, 'harness_str'), Q('hist.validate', 'c15', H, 'harness_hist')]
VALIDATE_VECTORS = 400
LEVEL = 'model_checking'
TECHNIQUE = ('CBMC bounded model checking of the clang-lowered real code: one query per (operation, length tuple) with symbolic contents; exhaustive enumeration of operation '
             'histories with symbolic contents; exact-size source buffers and allocator blocks so that CBMC\'s bounds checks decide the in-bounds clauses')
FUNCTION_PATTERNS = [r'frg::', r'^[vs]_']
ASSUMPTIONS = [
    'element order of compare() is the order of the library\'s Char type (plain char, signed on x86-64), lengths compared first: as implemented and anchored in the property',
    'C-string arguments are buffers of exactly N+1 bytes (N arbitrary bytes + terminator; the string ends at the first 0); (pointer,length) and view arguments are buffers of exactly length bytes',
    'sub_string / operator[] preconditions: from <= size() and size <= size() - from, index < size(); sub_string with ARBITRARY arguments is checked separately (stop through FRG_ASSERT or in-bounds result)',
    'to_number: digit strings whose value fits the target type (overflow belongs to C20); for the empty string only engagement and memory safety are checked',
    'the bytes of a tail grown by resize() are unspecified (the reference adopts them); a moved-from string may keep its value (frigg copies) or become empty',
    'operations taking a C string run in single-path mode where released blocks and sources stay allocated (CBMC\'s free() model forks paths): use-after-free is not observable in those queries; '
    'the same library code (memcpy from the argument, release of the old buffer) is checked with real free() by the view / (pointer,length) queries and the histories',
    'quick tier: two-operand queries use the lengths {0, 1, 2, 4} (one-operand queries: every length 0..4); thorough: every pair of lengths 0..6',
    'clang-14 -O1 lowering is the semantics checked; the ir2c translation is validated differentially (generated C vs g++/ASan/UBSan build of the real headers) on every run; in those random runs '
    'buffers carry 8 defined slack bytes and blocks are not recycled, so that both builds behave alike; exact sizes and real free() are used under CBMC and in the native replay of counterexamples',
]
OUTSIDE = ['strings longer than the stated source lengths (histories reach 8x the initial length by self-appends) / histories longer than 3 operations',
           'quick tier: 3-step histories only over the 9 representative operations on one length tuple, 2-step histories over all 17 operations on 4 length tuples (thorough: see the manifest bounds)',
           'C strings / C-string mutators inside histories (single operations from constructed strings only)', 'character types other than char, allocators with state',
           'detach() (hands the buffer to the caller by design)', 'to_allocated_string (C19/C20)', 'to_number on digit strings that do not fit the target type (C20)',
           'passing a null pointer with length 0 to memcpy is not visible to the solver queries (the IR-level memcpy of length 0 is a no-op); it is caught by UBSan in the native validation/replay builds']
