# C03 — slab pool: policy protocol (map/unmap pairing, page accounting, poisoning) (same harness as C01)
import os, sys, importlib.util
HERE = os.path.dirname(__file__)
sys.path.insert(0, os.path.join(HERE, '..', 'engine'))
spec = importlib.util.spec_from_file_location('C01_shared', os.path.join(HERE, 'C01.py')); C01 = importlib.util.module_from_spec(spec); spec.loader.exec_module(C01)
UNITS = C01.UNITS
LEVEL = C01.LEVEL; TECHNIQUE = C01.TECHNIQUE; FUNCTION_PATTERNS = C01.FUNCTION_PATTERNS; VALIDATE_VECTORS = 100
def validation_queries(tier): return C01.validation_queries(tier)[:2]
def queries(tier):   # the poisoning policy and the unaligned-map policy, every non-fault scenario (large frames are mapped and unmapped, slabs stay)
    return C01.select(tier, lambda t: not t['lockset'] and not t['preempt'] and not t['faults'] and t['pol'] in (2, 3, 4))
ASSUMPTIONS = C01.ASSUMPTIONS + ['poison model: a log of poison/unpoison/unpoison_expand calls decides each byte (newest covering call wins; mapped memory starts poisoned); the access hook of the flat memory model asserts that the translated pool code never touches a poisoned byte']
OUTSIDE = C01.OUTSIDE
