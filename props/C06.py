# C06 — red-black tree: order, balance and neighbour links after any insert/remove
import os, sys, math
sys.path.insert(0, os.path.join(os.path.dirname(__file__), '..', 'engine'))
from run import Q, Unit
UNITS = [Unit('c06')]
_MINNODES = [0, 1, 2, 4, 6, 10, 14, 22, 30]     # fewest nodes of a red-black tree of height h
def _maxheight(m):
    return max(h for h in range(len(_MINNODES)) if _MINNODES[h] <= m)
def _rec_ins(m):   # fix_insert recurses on the grandparent (two levels up): calls <= ceil(depth of the new node / 2); bound checked by unwinding assertions
    return (_maxheight(m) + 1 + 1) // 2
def _rec_rem(m):   # fix_remove recurses on the parent (one level up): calls <= height
    return max(1, _maxheight(m))
def queries(tier):
    qs = []
    MAXI = 5 if tier == 'quick' else 9
    MAXR = 6 if tier == 'quick' else 8
    for (entry, nm, lo, hi, what) in [
            ('harness_insert', 'insert', 0, MAXI, 'insert(x) into an arbitrary valid tree of m nodes (arbitrary 32-bit keys, duplicates allowed)'),
            ('harness_remove', 'remove', 1, MAXR, 'remove(any contained node) from an arbitrary valid tree of m nodes'),
            ('harness_order_insert', 'order_insert', 0, MAXI, 'comparator-less insert(before, x) into an arbitrary valid tree of m nodes, before = any node or null'),
            ('harness_order_remove', 'order_remove', 1, min(MAXR, 6), 'comparator-less remove from an arbitrary valid tree'),
            ('harness_first', 'navigation', 0, MAXI, 'first/get_root/successor/predecessor/get_left/get_right/get_parent on an arbitrary valid tree')]:
        for m in range(lo, hi + 1):
            big = m >= 7
            qs.append(Q('%s.m%d' % (nm, m), 'c06', 'c06_rbtree.c', entry, defs={'M': m}, unwind=m + 4, checks='none',
                        recursion=[(r'fix_insert', _rec_ins(m)), (r'fix_remove', _rec_rem(m))],
                        inline_witness=True, witness='any', timeout=3000 if big else 1200, mem_gb=12 if big else 8, optional=(m > 7),
                        bounds={'nodes in the tree before the operation': m, 'node objects': m + 1, 'keys': 'arbitrary 32-bit', 'pre-state': 'ANY tree satisfying the representation invariant (solver-chosen shape, colours, keys)',
                                'descent loops': m + 4, 'fix_insert recursion depth': _rec_ins(m), 'fix_remove recursion depth': _rec_rem(m)},
                        what='inductive step: ' + what + ' -> invariant + specified in-order sequence'))
    return qs
def validation_queries(tier):
    return [Q('script.validate', 'c06', 'c06_rbtree.c', 'harness_script', defs={'M': 7})]
VALIDATE_VECTORS = 150
LEVEL = 'model_checking'
TECHNIQUE = 'CBMC bounded model checking of the clang-lowered code; inductive step from a solver-chosen valid pre-state (index view of the pointer structure), one query per tree size'
FUNCTION_PATTERNS = [r'frg::_redblack', r'^rbo?_']
ASSUMPTIONS = [
    'pre-state: any assignment of the link/colour/key fields satisfying the representation invariant Inv (BST order, parent/child consistency, acyclic, threaded list == in-order, root black, no red-red, equal black heights, outside nodes fully reset); base case m=0 is a query; Inv is re-established by every operation (checked), so by induction it contains every reachable state, and 150 random histories per run are checked to satisfy it',
    'symmetry: node objects are interchangeable (the code compares node addresses only for equality), so node i is taken to be the i-th element in order',
    'comparator is a strict weak order (int <); standard pointer checks are off in these queries: null/escaped links are caught by the FRG_ASSERTs (panic = violation) and by the post-state index view',
]
OUTSIDE = ['trees with more nodes than the largest m that reached a verdict', 'comparators that are not strict weak orders', 'aggregators other than null_aggregator (interval tree: C07)']
