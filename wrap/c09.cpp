// C09/C10 wrapper: frg::rcu_radixtree with a one-byte value type (DESIGN 4 C09: wider values make every entry access a type-punned access)
#include <stdint.h>
#include <stddef.h>
#include <new>
#include <frg/rcu_radixtree.hpp>
#define NI __attribute__((noinline))
extern "C" void *vp_rx_alloc(size_t n);
extern "C" void vp_rx_dealloc(void *p, size_t n);
struct rx_alloc {
	void *allocate(size_t n) { return vp_rx_alloc(n); }
	void deallocate(void *p, size_t n) { vp_rx_dealloc(p, n); }
	void free(void *p) { vp_rx_dealloc(p, 0); }
};
using tree_t = frg::rcu_radixtree<uint8_t, rx_alloc>;
extern "C" {
NI void rx_init(tree_t *t) { new (t) tree_t(); }
NI void rx_destroy(tree_t *t) { t->~tree_t(); }
NI uint8_t *rx_find(tree_t *t, uint64_t k) { return t->find(k); }
NI uint8_t *rx_foi(tree_t *t, uint64_t k, uint8_t v, bool *ins) { auto r = t->find_or_insert(k, v); *ins = r.get<1>(); return r.get<0>(); }
NI uint8_t *rx_insert(tree_t *t, uint64_t k, uint8_t v) { return t->insert(k, v); }
NI void rx_erase(tree_t *t, uint64_t k) { t->erase(k); }
// iteration: writes the visited value addresses in order; returns how many (at most cap)
NI unsigned rx_iterate(tree_t *t, uint8_t **out, unsigned cap) {
	unsigned n = 0;
	for(auto it = t->begin(); it != t->end(); ++it) { if(n < cap) out[n] = &*it; n++; }
	return n;
}
}
