// Shared instrumentation for the owning-type checks (C13-C17): an element type that reports its special member
// functions to the harness, and an allocator that reports every block.  (DESIGN 3.2)
#pragma once
#include <stdint.h>
#include <stddef.h>
#include <utility>
extern "C" {
void vp_ctor(void *self, int val);                 // tracked(int)
void vp_ctor_default(void *self);                   // tracked()
void vp_copy(void *self, const void *src);          // tracked(const tracked &)
void vp_move(void *self, void *src);                // tracked(tracked &&)
void vp_assign_copy(void *self, const void *src);   // operator=(const tracked &)
void vp_assign_move(void *self, void *src);         // operator=(tracked &&)
void vp_dtor(void *self);                           // ~tracked()
void *vp_alloc(size_t size);                        // Allocator::allocate
void vp_free(void *p);                              // Allocator::free
void vp_dealloc(void *p, size_t size);              // Allocator::deallocate
}
// 8 bytes; the harness owns the meaning of `state` (alive / moved-from / raw); library code only ever goes through the hooks
struct tracked {
	int val;
	unsigned char state;
	tracked() { vp_ctor_default(this); }
	tracked(int v) { vp_ctor(this, v); }
	tracked(const tracked &o) { vp_copy(this, &o); }
	tracked(tracked &&o) { vp_move(this, &o); }
	tracked &operator=(const tracked &o) { vp_assign_copy(this, &o); return *this; }
	tracked &operator=(tracked &&o) { vp_assign_move(this, &o); return *this; }
	~tracked() { vp_dtor(this); }
	bool operator==(const tracked &o) const { return val == o.val; }
};
// second distinct element type (variant alternatives, expected<E, T>)
struct tracked2 {
	int val;
	unsigned char state;
	tracked2() { vp_ctor_default(this); }
	tracked2(int v) { vp_ctor(this, v); }
	tracked2(const tracked2 &o) { vp_copy(this, &o); }
	tracked2(tracked2 &&o) { vp_move(this, &o); }
	tracked2 &operator=(const tracked2 &o) { vp_assign_copy(this, &o); return *this; }
	tracked2 &operator=(tracked2 &&o) { vp_assign_move(this, &o); return *this; }
	~tracked2() { vp_dtor(this); }
	bool operator==(const tracked2 &o) const { return val == o.val; }
};
struct vp_allocator {
	void *allocate(size_t n) { return vp_alloc(n); }
	void free(void *p) { vp_free(p); }
	void deallocate(void *p, size_t n) { vp_dealloc(p, n); }
};
