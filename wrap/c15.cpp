// C15 (+ string part of C16) wrapper: frg::basic_string_view<char> and frg::basic_string<char, vp_allocator>.
// Every function forwards to ONE public member / operator, so that a query exercises exactly the library code.
// vp_allocator (wrap/vp_track.hpp) hands out exact-size blocks and reports every allocate/free to the harness.
#include <stdint.h>
#include <stddef.h>
#include <new>
#include <utility>
#include "vp_track.hpp"
#include <frg/string.hpp>
#include <frg/hash.hpp>
#define NI __attribute__((noinline))
using A = vp_allocator;
using S = frg::basic_string<char, A>;
using V = frg::basic_string_view<char>;
extern "C" {
// ------------------------------------------------------------------ views
NI void v_ctor_default(V *v) { new (v) V(); }
NI void v_ctor_cstr(V *v, const char *cs) { new (v) V(cs); }
NI void v_ctor_ptrlen(V *v, const char *p, size_t n) { new (v) V(p, n); }
NI void v_ctor_copy(V *v, const V *o) { new (v) V(*o); }
NI void v_assign(V *v, const V *o) { *v = *o; }
NI const char *v_data(const V *v) { return v->data(); }
NI size_t v_size(const V *v) { return v->size(); }
NI const char *v_at(const V *v, size_t i) { return &(*v)[i]; }
NI bool v_eq(const V *a, const V *b) { return *a == *b; }
NI bool v_ne(const V *a, const V *b) { return *a != *b; }
NI bool v_eq_cstr(const V *a, const char *cs) { return *a == cs; }          // C string through the implicit view
NI size_t v_find_first(const V *v, char c, size_t from) { return v->find_first(c, from); }
NI size_t v_find_first0(const V *v, char c) { return v->find_first(c); }
NI size_t v_find_first_of(const V *v, const V *chars, size_t from) { return v->find_first_of(*chars, from); }
NI size_t v_find_first_of0(const V *v, const V *chars) { return v->find_first_of(*chars); }
NI size_t v_find_last(const V *v, char c) { return v->find_last(c); }
NI void v_sub_string(V *out, const V *v, size_t from, size_t size) { new (out) V(v->sub_string(from, size)); }
NI bool v_starts_with(V *v, const V *o) { return v->starts_with(*o); }
NI bool v_ends_with(V *v, const V *o) { return v->ends_with(*o); }
NI bool v_to_unsigned(V *v, unsigned *out) { auto r = v->to_number<unsigned>(); if(r) *out = *r; return bool(r); }
NI bool v_to_int(V *v, int *out) { auto r = v->to_number<int>(); if(r) *out = *r; return bool(r); }
NI unsigned v_hash(const V *v) { return frg::hash<V>{}(*v); }

// ------------------------------------------------------------------ owned strings: constructors / destructor
NI void s_ctor_default(S *s) { new (s) S(); }
NI void s_ctor_alloc(S *s) { new (s) S(A{}); }
NI void s_ctor_cstr(S *s, const char *cs) { new (s) S(cs); }
NI void s_ctor_alloc_cstr(S *s, const char *cs) { new (s) S(A{}, cs); }
NI void s_ctor_ptrlen(S *s, const char *p, size_t n) { new (s) S(p, n); }
NI void s_ctor_alloc_ptrlen(S *s, const char *p, size_t n) { new (s) S(A{}, p, n); }
NI void s_ctor_view(S *s, const V *v) { new (s) S(*v); }
NI void s_ctor_alloc_view(S *s, const V *v) { new (s) S(A{}, *v); }
NI void s_ctor_fill(S *s, size_t n, char c) { new (s) S(n, c); }
NI void s_ctor_copy(S *s, const S *o) { new (s) S(*o); }
NI void s_ctor_move(S *s, S *o) { new (s) S(std::move(*o)); }
NI void s_dtor(S *s) { s->~S(); }
// ------------------------------------------------------------------ mutators
NI void s_assign_copy(S *s, const S *o) { *s = *o; }
NI void s_assign_move(S *s, S *o) { *s = std::move(*o); }
NI void s_assign_empty(S *s) { *s = S(); }
NI void s_assign_cstr(S *s, const char *cs) { *s = cs; }                  // implicit string(const char *)
NI void s_swap(S *a, S *b) { swap(*a, *b); }
NI void s_resize(S *s, size_t n) { s->resize(n); }
NI void s_append_view(S *s, const V *v) { *s += *v; }
NI void s_append_self(S *s, size_t from, size_t n) { V self = *s; *s += self.sub_string(from, n); }   // view into the string's own buffer
NI void s_append_cstr(S *s, const char *cs) { *s += cs; }                 // C string through the implicit view
NI void s_append_char(S *s, char c) { *s += c; }
NI void s_push_back(S *s, char c) { s->push_back(c); }
NI void s_plus_view(S *out, S *s, const V *v) { new (out) S(*s + *v); }
NI void s_plus_self(S *out, S *s) { V self = *s; new (out) S(*s + self); }
NI void s_plus_char(S *out, S *s, char c) { new (out) S(*s + c); }
NI void s_plus_view_assign(S *s, const V *v) { *s = *s + *v; }
NI void s_plus_char_assign(S *s, char c) { *s = *s + c; }
// ------------------------------------------------------------------ observers
NI char *s_data(S *s) { return s->data(); }
NI const char *s_cdata(const S *s) { return s->data(); }
NI size_t s_size(const S *s) { return s->size(); }
NI bool s_empty(const S *s) { return s->empty(); }
NI char *s_at(S *s, size_t i) { return &(*s)[i]; }
NI const char *s_cat(const S *s, size_t i) { return &(*s)[i]; }
NI char *s_begin(S *s) { return s->begin(); }
NI char *s_end(S *s) { return s->end(); }
NI const char *s_cbegin(const S *s) { return s->begin(); }
NI const char *s_cend(const S *s) { return s->end(); }
// iteration through the string's own range-for protocol: rotate-xor of the bytes visited, number visited in *n
NI unsigned s_iterate(const S *s, size_t *n) { unsigned h = 0; size_t k = 0; for(char c : *s) { h = ((h << 5) | (h >> 27)) ^ (unsigned char)c; k++; } *n = k; return h; }
NI int s_compare(const S *a, const S *b) { return a->compare(*b); }
NI int s_compare_cstr(const S *a, const char *cs) { return a->compare(cs); }
NI bool s_eq(const S *a, const S *b) { return *a == *b; }
NI bool s_ne(const S *a, const S *b) { return *a != *b; }
NI bool s_eq_cstr(const S *a, const char *cs) { return *a == cs; }
NI bool s_ne_cstr(const S *a, const char *cs) { return *a != cs; }
NI bool s_eq_view(const S *a, const V *v) { return *a == *v; }
NI bool s_ne_view(const S *a, const V *v) { return *a != *v; }
NI bool v_eq_string(const V *v, const S *a) { return *v == *a; }
NI void s_to_view(V *out, const S *s) { new (out) V(*s); }
NI bool s_starts_with(S *s, const V *o) { return s->starts_with(*o); }
NI bool s_ends_with(S *s, const V *o) { return s->ends_with(*o); }
NI unsigned s_hash(const S *s) { return frg::hash<S>{}(*s); }
}
