// C19 wrapper (2/3): fmt() through format() into a streaming sink
#include <stdint.h>
#include <stddef.h>
#include <frg/formatting.hpp>
#define NI __attribute__((noinline))
// streaming sink: every appended byte goes to the harness, which compares it on the spot with the byte the oracle expects there
extern "C" void c19_put(int c);
struct buf_sink {
	size_t n;
	void append(char c) { c19_put((unsigned char)c); n++; }
	void append(const char *s) { while(*s) append(*s++); }
};
extern "C" {
// fmt() with the argument tuple (int, unsigned long, char)
NI int c19_fmt(const char *f, size_t len, int a, unsigned long b, char c) {
	buf_sink s{0};
	frg::format(frg::fmt(frg::string_view{f, len}, a, b, c), s);
	return (int)s.n;
}
// fmt() without arguments (every spec is out of range)
NI int c19_fmt0(const char *f, size_t len) {
	buf_sink s{0};
	frg::format(frg::fmt(frg::string_view{f, len}), s);
	return (int)s.n;
}
}
