// C19 wrapper (2/3): fmt() through format() into a bounded buffer sink
#include <stdint.h>
#include <stddef.h>
#include <frg/formatting.hpp>
#define NI __attribute__((noinline))
// bounded buffer sink: bytes beyond the capacity are counted, not stored (the harness asserts the count)
struct buf_sink {
	char *p; size_t n, cap;
	void append(char c) { if(n < cap) p[n] = c; n++; }
	void append(const char *s) { while(*s) append(*s++); }
};
extern "C" {
// fmt() with the argument tuple (int, unsigned long, char)
NI int c19_fmt(char *out, size_t cap, const char *f, size_t len, int a, unsigned long b, char c) {
	buf_sink s{out, 0, cap};
	frg::format(frg::fmt(frg::string_view{f, len}, a, b, c), s);
	return (int)s.n;
}
// fmt() without arguments (every spec is out of range)
NI int c19_fmt0(char *out, size_t cap, const char *f, size_t len) {
	buf_sink s{out, 0, cap};
	frg::format(frg::fmt(frg::string_view{f, len}), s);
	return (int)s.n;
}
}
