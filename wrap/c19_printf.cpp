// C19 wrapper (1/3): printf_format + do_printf_chars/do_printf_ints into a bounded buffer sink; print_digits/print_int alone
#include <stdint.h>
#include <stddef.h>
#include <stdarg.h>
#include <new>
#include <frg/printf.hpp>
#include <frg/formatting.hpp>
#define NI __attribute__((noinline))

// streaming sink: every appended byte goes to the harness, which compares it on the spot with the byte the oracle expects there
extern "C" void c19_put(int c);
struct buf_sink {
	size_t n;
	void append(char c) { c19_put((unsigned char)c); n++; }
	void append(const char *s) { while(*s) append(*s++); }
};

// the agent of the repository's own test (tests/tests.cpp), minus floats
struct agent {
	frg::expected<frg::format_error> operator() (char c) { sink->append(c); return frg::success; }
	frg::expected<frg::format_error> operator() (const char *c, size_t n) { for(size_t i = 0; i < n; i++) sink->append(c[i]); return frg::success; }
	frg::expected<frg::format_error> operator() (char t, frg::format_options opts, frg::printf_size_mod szmod) {
		switch(t) {
		case 'c': case 'p': case 's': frg::do_printf_chars(*sink, t, opts, szmod, vsp); break;
		case 'd': case 'i': case 'o': case 'x': case 'X': case 'u': case 'b': case 'B': frg::do_printf_ints(*sink, t, opts, szmod, vsp); break;
		default: return frg::format_error::agent_error;
		}
		return frg::success;
	}
	buf_sink *sink; frg::va_struct *vsp;
};

extern "C" {
// returns the number of bytes the library appended, -1 on a format error
NI int c19_vprintf(frg::arg *arg_list, const char *fmt, va_list ap) {
	frg::va_struct vs; vs.arg_list = arg_list; va_copy(vs.args, ap);
	buf_sink s{0};
	auto r = frg::printf_format(agent{&s, &vs}, fmt, &vs);
	return r ? (int)s.n : -1;
}

// (B) the conversion back ends alone: do_printf_ints / do_printf_chars with explicit options (what a correct parser hands to the agent)
// flags: bit0 '-', bit1 '+', bit2 ' ', bit3 '#', bit4 '0', bit5 '\''
static frg::format_options mk_opts(int flags, int width, int has_prec, int prec, int arg_pos, int dollar) {
	frg::format_options o;
	o.left_justify = flags & 1; o.always_sign = flags & 2; o.plus_becomes_space = flags & 4; o.alt_conversion = flags & 8;
	o.fill_zeros = flags & 16; o.group_thousands = flags & 32;
	o.minimum_width = width; if(has_prec) o.precision = prec;
	o.arg_pos = arg_pos; o.dollar_arg_pos = dollar != 0;
	return o;
}
NI int c19_ints(int t, int szmod, int flags, int width, int has_prec, int prec, frg::arg *arg_list, va_list ap) {
	frg::va_struct vs; vs.arg_list = arg_list; va_copy(vs.args, ap);
	buf_sink s{0};
	frg::do_printf_ints(s, (char)t, mk_opts(flags, width, has_prec, prec, -1, 0), (frg::printf_size_mod)szmod, &vs);
	return (int)s.n;
}
NI int c19_chars(int t, int szmod, int flags, int width, int has_prec, int prec, frg::arg *arg_list, va_list ap) {
	frg::va_struct vs; vs.arg_list = arg_list; va_copy(vs.args, ap);
	buf_sink s{0};
	frg::do_printf_chars(s, (char)t, mk_opts(flags, width, has_prec, prec, -1, 0), (frg::printf_size_mod)szmod, &vs);
	return (int)s.n;
}

// (A) the parser alone: an agent that records what printf_format hands to it, and fetches the argument the directive declares
void c19_rec(int t, int szmod, int width, int has_prec, int prec, int flags, int arg_pos, int dollar, int other, uint64_t value);
void c19_lit(int c);
}
struct rec_agent {
	frg::expected<frg::format_error> operator() (char c) { c19_lit((unsigned char)c); return frg::success; }
	frg::expected<frg::format_error> operator() (const char *c, size_t n) { for(size_t i = 0; i < n; i++) c19_lit((unsigned char)c[i]); return frg::success; }
	frg::expected<frg::format_error> operator() (char t, frg::format_options o, frg::printf_size_mod szmod) {
		uint64_t v = 0;
		switch(t) {
		case 'c': v = (uint64_t)(unsigned char)frg::pop_arg<char>(vsp, &o); break;
		case 'p': case 's': v = (uint64_t)(uintptr_t)frg::pop_arg<void *>(vsp, &o); break;
		case 'd': case 'i': case 'o': case 'x': case 'X': case 'u': case 'b': case 'B':
			if(szmod == frg::printf_size_mod::default_size || szmod == frg::printf_size_mod::char_size || szmod == frg::printf_size_mod::short_size)
				v = (uint64_t)(uint32_t)frg::pop_arg<int>(vsp, &o);
			else
				v = (uint64_t)frg::pop_arg<long>(vsp, &o);
			break;
		default: return frg::format_error::agent_error;
		}
		int flags = (o.left_justify ? 1 : 0) | (o.always_sign ? 2 : 0) | (o.plus_becomes_space ? 4 : 0) | (o.alt_conversion ? 8 : 0)
			| (o.fill_zeros ? 16 : 0) | (o.group_thousands ? 32 : 0);
		int other = (o.use_capitals ? 1 : 0) | (o.conversion != frg::format_conversion::null ? 2 : 0);
		c19_rec((unsigned char)t, (int)szmod, o.minimum_width, o.precision ? 1 : 0, o.precision ? *o.precision : 0, flags, o.arg_pos, o.dollar_arg_pos, other, v);
		return frg::success;
	}
	frg::va_struct *vsp;
};
extern "C" {
NI int c19_parse(frg::arg *arg_list, const char *fmt, va_list ap) {
	frg::va_struct vs; vs.arg_list = arg_list; va_copy(vs.args, ap);
	auto r = frg::printf_format(rec_agent{&vs}, fmt, &vs);
	return r ? 0 : -1;
}

// pop_arg alone: a persistent va_struct and one fetch of type kind (0 int, 1 long, 2 void *, 3 char, 4 short, 5 unsigned char, 6 unsigned short, 7 unsigned, 8 unsigned long)
NI void c19_pop_init(frg::va_struct *vs, frg::arg *arg_list, va_list ap) { new (vs) frg::va_struct; vs->arg_list = arg_list; va_copy(vs->args, ap); }
NI uint64_t c19_pop(frg::va_struct *vs, int kind, int arg_pos, int dollar) {
	frg::format_options o; o.arg_pos = arg_pos; o.dollar_arg_pos = dollar != 0;
	switch(kind) {
	case 0: return (uint64_t)(int64_t)frg::pop_arg<int>(vs, &o);
	case 1: return (uint64_t)frg::pop_arg<long>(vs, &o);
	case 2: return (uint64_t)(uintptr_t)frg::pop_arg<void *>(vs, &o);
	case 3: return (uint64_t)(int64_t)frg::pop_arg<signed char>(vs, &o);
	case 4: return (uint64_t)(int64_t)frg::pop_arg<short>(vs, &o);
	case 5: return (uint64_t)frg::pop_arg<unsigned char>(vs, &o);
	case 6: return (uint64_t)frg::pop_arg<unsigned short>(vs, &o);
	case 7: return (uint64_t)frg::pop_arg<unsigned int>(vs, &o);
	default: return (uint64_t)frg::pop_arg<unsigned long>(vs, &o);
	}
}

// the digit kernel alone
NI int c19_digits(uint64_t number, int negative, int radix, int width, int precision, int zero_pad,
		int left_justify, int always_sign, int plus_space, int caps) {
	buf_sink s{0};
	frg::_fmt_basics::print_digits(s, number, negative != 0, radix, width, precision, zero_pad ? '0' : ' ', left_justify != 0,
			false, always_sign != 0, plus_space != 0, caps != 0, frg::locale_options{});
	return (int)s.n;
}
NI int c19_int64(int64_t number, int radix, int width, int precision) {
	buf_sink s{0};
	frg::_fmt_basics::print_int(s, number, radix, width, precision);
	return (int)s.n;
}
NI int c19_int32(int32_t number, int radix, int width, int precision) {
	buf_sink s{0};
	frg::_fmt_basics::print_int(s, number, radix, width, precision);
	return (int)s.n;
}
}
