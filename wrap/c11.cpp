// C11 wrapper: frg::qs_domain / qs_agent / qs_node over an instrumented mutex
#include <stdint.h>
#include <stddef.h>
#include <new>
#include <frg/qs.hpp>
#define NI __attribute__((noinline))
extern "C" void vp_qs_lock(void *m);
extern "C" void vp_qs_unlock(void *m);
struct qmutex { void lock() { vp_qs_lock(this); } void unlock() { vp_qs_unlock(this); } int held = 0; };
using dom_t = frg::qs_domain<qmutex>;
using agent_t = frg::qs_agent<qmutex>;
extern "C" {
NI void dom_init(dom_t *d) { new (d) dom_t(); }
NI void agent_init(agent_t *a, dom_t *d) { new (a) agent_t(d); }      // constructor goes online
NI void agent_online(agent_t *a) { a->online(); }
NI void agent_offline(agent_t *a) { a->offline(); }
NI void agent_qs(agent_t *a) { a->quiescent_state(); }
NI void agent_await(agent_t *a, frg::qs_node *n) { a->await_barrier(n); }
NI void agent_run(agent_t *a) { a->run(); }
NI void agent_barrier(agent_t *a) { a->quiescent_barrier(); }
NI void node_init(frg::qs_node *n, void (*cb)(frg::qs_node *)) { new (n) frg::qs_node(); n->on_grace_period = cb; }
}
