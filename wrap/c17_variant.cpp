// C17 wrapper: frg::variant<tracked, tracked2> (two alternatives + the empty state)
// Not instantiated: variant::const_apply — it does not compile when instantiated (calls the non-const apply_ from a const member).
#include <stdint.h>
#include <new>
#include <utility>
#include "vp_track.hpp"
#include <frg/variant.hpp>
#define NI __attribute__((noinline))
using V = frg::variant<tracked, tracked2>;
struct addr_of { template<typename X> const void *operator()(X &x) { return &x; } };
struct val_of { template<typename X> int operator()(X &x) { return x.val; } };
extern "C" {
NI void var_ctor_default(V *d) { new (d) V(); }
NI void var_ctor_a(V *d, int v) { new (d) V(tracked(v)); }
NI void var_ctor_b(V *d, int v) { new (d) V(tracked2(v)); }
NI void var_ctor_a_lvalue(V *d, int v) { tracked t(v); new (d) V(t); }
NI void var_ctor_copy(V *d, const V *s) { new (d) V(*s); }
NI void var_ctor_move(V *d, V *s) { new (d) V(std::move(*s)); }
NI V *var_assign_copy(V *d, const V *s) { return &(*d = *s); }
NI V *var_assign_move(V *d, V *s) { return &(*d = std::move(*s)); }
NI V *var_assign_a(V *d, int v) { return &(*d = tracked(v)); }
NI V *var_assign_b(V *d, int v) { return &(*d = tracked2(v)); }
NI V *var_assign_empty(V *d) { return &(*d = V()); }                  // the only public way to empty a variant
NI void var_emplace_a(V *d, int v) { d->emplace<tracked>(v); }
NI void var_emplace_b(V *d, int v) { d->emplace<tracked2>(v); }
NI void var_emplace_b_default(V *d) { d->emplace<tracked2>(); }
NI void var_dtor(V *d) { d->~V(); }
// observers
NI bool var_bool(const V *d) { return static_cast<bool>(*d); }
NI long var_tag(V *d) { return static_cast<long>(d->tag()); }
NI bool var_is_a(const V *d) { return d->is<tracked>(); }
NI bool var_is_b(const V *d) { return d->is<tracked2>(); }
NI tracked *var_get_a(V *d) { return &d->get<tracked>(); }
NI tracked2 *var_get_b(V *d) { return &d->get<tracked2>(); }
NI const tracked *var_cget_a(const V *d) { return &d->get<tracked>(); }
NI const tracked2 *var_cget_b(const V *d) { return &d->get<tracked2>(); }
NI const void *var_apply_addr(V *d) { return d->apply(addr_of{}); }
NI int var_apply_val(V *d) { return d->apply(val_of{}); }
NI int var_tag_of(int which) { return which ? static_cast<int>(V::tag_of<tracked2>()) : static_cast<int>(V::tag_of<tracked>()); }
}
