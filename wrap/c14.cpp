// C14 wrapper (+ hash_map part of C16): frg::hash_map<uint64_t, V, vp_hash_functor, vp_allocator> for V = int and V = tracked.
// The hash functor calls the harness hook vp_hash(key) (a solver-chosen function of the key); the allocator is the tracking
// allocator of vp_track.hpp, so every chain node and every bucket table passes through vp_alloc / vp_dealloc.
#include <stdint.h>
#include <stddef.h>
#include <new>
#include <utility>
#include <frg/hash_map.hpp>
#include <frg/hash.hpp>
#include "vp_track.hpp"
#define NI __attribute__((noinline))
#if C14_H64
// third unit (-DC14_H64=1): the functor's result type is WIDER than 32 bits (uint64_t with arbitrary high bits); the library truncates the
// result to unsigned int before every "% capacity", so the high bits must never influence a bucket.  Same type name, so the harness is shared.
extern "C" uint64_t vp_hash64(uint64_t key);
struct vp_hash_functor {
	uint64_t operator()(const uint64_t &k) const { return vp_hash64(k); }
};
#else
extern "C" uint32_t vp_hash(uint64_t key);
struct vp_hash_functor {
	unsigned int operator()(const uint64_t &k) const { return vp_hash(k); }
};
#endif
static inline int val_of(const int &v) { return v; }
static inline int val_of(const tracked &v) { return v.val; }

#define MAP_API(P, V) \
using P##_map = frg::hash_map<uint64_t, V, vp_hash_functor, vp_allocator>; \
using P##_it = P##_map::iterator; \
using P##_cit = P##_map::const_iterator; \
extern "C" { \
NI void P##_ctor(P##_map *m) { new (m) P##_map(vp_hash_functor{}); } \
NI void P##_ctor_il2(P##_map *m, uint64_t k0, int v0, uint64_t k1, int v1) { new (m) P##_map(vp_hash_functor{}, {P##_map::entry_type{k0, V(v0)}, P##_map::entry_type{k1, V(v1)}}); } \
NI void P##_dtor(P##_map *m) { m->~P##_map(); } \
NI void P##_insert_copy(P##_map *m, uint64_t k, int v) { V tmp(v); m->insert(k, tmp); } \
NI void P##_insert_move(P##_map *m, uint64_t k, int v) { V tmp(v); m->insert(k, std::move(tmp)); } \
NI V *P##_index(P##_map *m, uint64_t k) { return &(*m)[k]; } \
NI V *P##_get(P##_map *m, uint64_t k) { return m->get(k); } \
NI bool P##_remove(P##_map *m, uint64_t k, int *out) { auto r = m->remove(k); if(r) { *out = val_of(*r); return true; } return false; } \
NI size_t P##_size(const P##_map *m) { return m->size(); } \
NI bool P##_empty(P##_map *m) { return m->empty(); } \
NI void P##_find(P##_map *m, uint64_t k, P##_it *out) { new (out) P##_it(m->find(k)); } \
NI void P##_begin(P##_map *m, P##_it *out) { new (out) P##_it(m->begin()); } \
NI void P##_end(P##_map *m, P##_it *out) { new (out) P##_it(m->end()); } \
NI void P##_it_next(P##_it *it) { ++*it; } \
NI bool P##_it_eq(const P##_it *a, const P##_it *b) { return *a == *b; } \
NI bool P##_it_bool(P##_it *it) { return (bool)*it; } \
NI uint64_t P##_it_key(P##_it *it) { return (**it).template get<0>(); } \
NI V *P##_it_val(P##_it *it) { return &(*it)->template get<1>(); } \
NI void P##_cfind(const P##_map *m, uint64_t k, P##_cit *out) { new (out) P##_cit(m->find(k)); } \
NI void P##_cend(const P##_map *m, P##_cit *out) { new (out) P##_cit(m->end()); } \
NI void P##_cit_next(P##_cit *it) { ++*it; } \
NI bool P##_cit_eq(const P##_cit *a, const P##_cit *b) { return *a == *b; } \
NI bool P##_cit_bool(const P##_cit *it) { return (bool)*it; } \
NI uint64_t P##_cit_key(const P##_cit *it) { return (**it).template get<0>(); } \
NI const V *P##_cit_val(const P##_cit *it) { return &(*it)->template get<1>(); } \
}
// one unit per value type (-DC14_VT=0 int, 1 tracked): the int unit must not reference the lifetime hooks
#if C14_VT
MAP_API(ht, tracked)
#else
MAP_API(hi, int)
#endif
extern "C" {
// frg::hash<uint64_t> (hash.hpp), one concrete member of the hash-function family
NI uint32_t hs_u64(uint64_t v) { return frg::hash<uint64_t>{}(v); }
NI uint32_t hs_i64(int64_t v) { return frg::hash<int64_t>{}(v); }
NI uint32_t hs_cstr(const char *s) { return frg::CStringHash{}(s); }
}
