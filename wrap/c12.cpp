// C12 wrapper: spinlocks (thread entry points) and lock guards over an instrumented mutex
#include <stdint.h>
#include <new>
#include <utility>
#include <frg/spinlock.hpp>
#include <frg/mutex.hpp>
#include <frg/qs.hpp>
#define NI __attribute__((noinline))
extern "C" {
void vp_mx_lock(int id); void vp_mx_unlock(int id); void vp_mx_lock_shared(int id); void vp_mx_unlock_shared(int id);
}
struct vp_mutex {
	int id;
	void lock() { vp_mx_lock(id); }
	void unlock() { vp_mx_unlock(id); }
	void lock_shared() { vp_mx_lock_shared(id); }
	void unlock_shared() { vp_mx_unlock_shared(id); }
};
using UL = frg::unique_lock<vp_mutex>;
using SL = frg::shared_lock<vp_mutex>;
using QG = frg::lock_guard<vp_mutex>;
extern "C" {
NI void t_lock(frg::ticket_spinlock *l) { l->lock(); }
NI void t_unlock(frg::ticket_spinlock *l) { l->unlock(); }
NI bool t_is_locked(frg::ticket_spinlock *l) { return l->is_locked(); }
NI void t_init(frg::ticket_spinlock *l) { new (l) frg::ticket_spinlock(); }
NI void s_lock(frg::simple_spinlock *l) { l->lock(); }
NI void s_unlock(frg::simple_spinlock *l) { l->unlock(); }
NI bool s_is_locked(frg::simple_spinlock *l) { return l->is_locked(); }
NI void s_init(frg::simple_spinlock *l) { new (l) frg::simple_spinlock(); }

#define GUARD_API(P, T) \
NI void P##_ctor_default(T *g) { new (g) T(); } \
NI void P##_ctor_lock(T *g, vp_mutex *m) { new (g) T(*m); } \
NI void P##_ctor_defer(T *g, vp_mutex *m) { new (g) T(frg::dont_lock, *m); } \
NI void P##_ctor_adopt(T *g, vp_mutex *m) { new (g) T(frg::adopt_lock, *m); } \
NI void P##_ctor_move(T *g, T *from) { new (g) T(std::move(*from)); } \
NI void P##_assign_move(T *g, T *from) { *g = std::move(*from); } \
NI void P##_swap(T *g, T *h) { swap(*g, *h); } \
NI void P##_lock(T *g) { g->lock(); } \
NI void P##_unlock(T *g) { g->unlock(); } \
NI bool P##_is_locked(T *g) { return g->is_locked(); } \
NI bool P##_protects(T *g, vp_mutex *m) { return g->protects(m); } \
NI void P##_dtor(T *g) { g->~T(); }
GUARD_API(ul, UL)
GUARD_API(sl, SL)
NI void ul_factory(UL *g, vp_mutex *m) { new (g) UL(frg::guard(m)); }
NI void ul_factory_defer(UL *g, vp_mutex *m) { new (g) UL(frg::guard(frg::dont_lock, m)); }
NI void qg_ctor(QG *g, vp_mutex *m) { new (g) QG(*m); }
NI void qg_lock(QG *g) { g->lock(); }
NI void qg_unlock(QG *g) { g->unlock(); }
NI void qg_dtor(QG *g) { g->~QG(); }
// litmus operations for validating the happens-before monitor itself (not frigg code)
NI void lit_store_rel(uint32_t *p, uint32_t v) { __atomic_store_n(p, v, __ATOMIC_RELEASE); }
NI void lit_store_rlx(uint32_t *p, uint32_t v) { __atomic_store_n(p, v, __ATOMIC_RELAXED); }
NI uint32_t lit_load_acq(uint32_t *p) { return __atomic_load_n(p, __ATOMIC_ACQUIRE); }
NI uint32_t lit_load_rlx(uint32_t *p) { return __atomic_load_n(p, __ATOMIC_RELAXED); }
}
