// C01-C05 wrapper: frg::slab_pool over a tiny admissible policy family (DESIGN 4 "C01-C05")
//   -DVP_POLICY=1 aligned map(len, align)      2 unaligned map(len) only       3 aligned + poison hooks
//              4 aligned, page size == superblock size == slab size (512): large blocks then start exactly on a superblock boundary
#include <stdint.h>
#include <stddef.h>
#include <string.h>
#include <type_traits>
#include <utility>
#include <new>
#include <frg/slab.hpp>
#define NI __attribute__((noinline))
extern "C" {
uintptr_t vp_map(size_t len, size_t align);       // align == 0: the unaligned overload
void vp_unmap(uintptr_t base, size_t len);
void vp_poison(void *p, size_t n);
void vp_unpoison(void *p, size_t n);
void vp_unpoison_expand(void *p, size_t n);
void vp_mutex_lock(void *m);
void vp_mutex_unlock(void *m);
}
struct Policy {
	static constexpr size_t sb_size = 512;
	static constexpr size_t slabsize = 512;
#if VP_POLICY == 4
	static constexpr size_t pagesize = 512;
#else
	static constexpr size_t pagesize = 64;
#endif
	static constexpr size_t num_buckets = 4;
#if VP_POLICY == 2
	uintptr_t map(size_t len) { return vp_map(len, 0); }
#else
	uintptr_t map(size_t len, size_t align) { return vp_map(len, align); }
#endif
	void unmap(uintptr_t base, size_t len) { vp_unmap(base, len); }
#if VP_POLICY == 3
	void poison(void *p, size_t n) { vp_poison(p, n); }
	void unpoison(void *p, size_t n) { vp_unpoison(p, n); }
	void unpoison_expand(void *p, size_t n) { vp_unpoison_expand(p, n); }
#endif
};
struct Mutex {
	void lock() { vp_mutex_lock(this); }
	void unlock() { vp_mutex_unlock(this); }
	int held = 0;
};
using pool_t = frg::slab_pool<Policy, Mutex>;
extern "C" {
NI void pool_init(pool_t *p, Policy *pl) { new (p) pool_t(*pl); }
NI void *pool_alloc(pool_t *p, size_t n) { return p->allocate(n); }
NI void pool_free(pool_t *p, void *q) { p->free(q); }
NI void pool_dealloc(pool_t *p, void *q, size_t n) { p->deallocate(q, n); }
NI void *pool_realloc(pool_t *p, void *q, size_t n) { return p->realloc(q, n); }
NI size_t pool_get_size(pool_t *p, void *q) { return p->get_size(q); }
NI size_t pool_used_pages(pool_t *p) { return p->numUsedPages(); }
size_t pool_sizeof() { return sizeof(pool_t); }
}
