// C19 wrapper (3/3): stack_buffer_logger<sink,8>; the sink forwards every emitted chunk to the harness
#include <stdint.h>
#include <stddef.h>
#include <frg/formatting.hpp>
#include <frg/logging.hpp>
#define NI __attribute__((noinline))
extern "C" {
// logger: the sink forwards every emitted chunk to the harness
void c19_emit(const char *chunk);
void c19_finalize(int done);
}
struct log_sink {
	void operator() (const char *msg) { c19_emit(msg); }
	void finalize(bool done) { c19_finalize(done); }
};
using logger_t = frg::stack_buffer_logger<log_sink, 8>;
extern "C" {
// msg: len bytes (no NUL inside); piece i covers plen[i] bytes and is appended through overload kind[i]:
// 0 = append(char) per byte, 1 = append(const char *), 2 = operator<<(const char *)
NI void c19_log(const char *msg, const uint8_t *kind, const uint8_t *plen, int npieces, int end) {
	logger_t lg;
	{
		auto it = lg();
		size_t off = 0;
		for(int i = 0; i < npieces; i++) {
			char tmp[32];
			size_t n = plen[i];
			for(size_t j = 0; j < n && j < 31; j++) tmp[j] = msg[off + j];
			tmp[n < 31 ? n : 31] = 0;
			switch(kind[i]) {
			case 0: for(size_t j = 0; j < n; j++) it.append(msg[off + j]); break;
			case 1: it.append((const char *)tmp); break;
			default: it << (const char *)tmp; break;
			}
			off += n;
		}
		if(end) it << frg::endlog;
	}
}
}
