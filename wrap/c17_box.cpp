// C17 wrapper: frg::manual_box<tracked> and frg::eternal<tracked>
#include <stdint.h>
#include <new>
#include <utility>
#include "vp_track.hpp"
#include <frg/manual_box.hpp>
#include <frg/eternal.hpp>
#define NI __attribute__((noinline))
using B = frg::manual_box<tracked>;
using ET = frg::eternal<tracked>;
extern "C" {
NI void box_ctor(B *b) { new (b) B(); }
NI void box_init(B *b, int v) { b->initialize(v); }
NI void box_init_default(B *b) { b->initialize(); }
NI void box_init_copy(B *b, int v) { tracked t(v); b->initialize(t); }
NI void box_init_move(B *b, int v) { tracked t(v); b->initialize(std::move(t)); }
NI void box_construct_with(B *b, int v) { b->construct_with([v] { return tracked(v); }); }
NI void box_destruct(B *b) { b->destruct(); }
NI void box_dtor(B *b) { b->~B(); }                           // trivial: the box never destroys the object by itself
NI void box_store(B *b, int v) { **b = tracked(v); }          // write through the accessor
NI bool box_valid(B *b) { return b->valid(); }
NI bool box_bool(B *b) { return static_cast<bool>(*b); }
NI tracked *box_get(B *b) { return b->get(); }
NI tracked *box_arrow(B *b) { return b->operator->(); }
NI tracked *box_deref(B *b) { return &**b; }
NI int box_arrow_val(B *b) { return (*b)->val; }
// eternal
NI void et_ctor(ET *e, int v) { new (e) ET(v); }
NI void et_ctor_default(ET *e) { new (e) ET(); }
NI void et_dtor(ET *e) { e->~ET(); }                          // trivial by design: the object stays alive
NI tracked *et_get(ET *e) { return &e->get(); }
NI tracked *et_deref(ET *e) { return &**e; }
NI tracked *et_arrow(ET *e) { return e->operator->(); }
NI void et_kill(ET *e) { e->get().~tracked(); }              // harness bookkeeping only
}
