// C20 wrapper: frg::parse_arguments over frg::array<option,2> tables, and frg::string_view::to_number<T>.
#include <stdint.h>
#include <stddef.h>
#include <frg/cmdline.hpp>
#include <frg/array.hpp>
#define NI __attribute__((noinline))

extern "C" void vp_opt_view(int which, const char *p, size_t n);   // probe callback: the view handed to an option

struct c20_targets {          // the option targets: the only objects parse_arguments may write
	uint64_t guard_lo;
	bool flag;
	int num;
	frg::string_view str;
	uint64_t guard_hi;
};

static frg::option::fn_type probe(int which, bool has_arg) {
	return frg::option::fn_type{
		[] (frg::string_view v, void *ctx) { vp_opt_view((int)(intptr_t)ctx, v.data(), v.size()); },
		(void *)(intptr_t)which, has_arg};
}

extern "C" {
// table 1: {flag "a", number "b"}
NI void c20_cmdline_t1(const char *buf, size_t len, c20_targets *t) {
	frg::array<frg::option, 2> opts{frg::option{"a", frg::store_true(t->flag)}, frg::option{"b", frg::as_number(t->num)}};
	frg::parse_arguments(frg::string_view{buf, len}, opts);
}
// table 2: {string "a", flag "ab"}
NI void c20_cmdline_t2(const char *buf, size_t len, c20_targets *t) {
	frg::array<frg::option, 2> opts{frg::option{"a", frg::as_string_view(t->str)}, frg::option{"ab", frg::store_true(t->flag)}};
	frg::parse_arguments(frg::string_view{buf, len}, opts);
}
// table 3: probes that report every view handed to an option callback: {valued "a", flag "b"}
NI void c20_cmdline_t3(const char *buf, size_t len, c20_targets *t) {
	(void)t;
	frg::array<frg::option, 2> opts{frg::option{"a", probe(0, true)}, frg::option{"b", probe(1, false)}};
	frg::parse_arguments(frg::string_view{buf, len}, opts);
}

// to_number<T>: returns 1 and stores the value when the optional is engaged, 0 otherwise
NI int c20_tonum_int(const char *buf, size_t len, int *out) { auto r = frg::string_view{buf, len}.to_number<int>(); if(r) *out = *r; return r ? 1 : 0; }
NI int c20_tonum_uint(const char *buf, size_t len, unsigned *out) { auto r = frg::string_view{buf, len}.to_number<unsigned>(); if(r) *out = *r; return r ? 1 : 0; }
NI int c20_tonum_long(const char *buf, size_t len, long *out) { auto r = frg::string_view{buf, len}.to_number<long>(); if(r) *out = *r; return r ? 1 : 0; }
NI int c20_tonum_u64(const char *buf, size_t len, uint64_t *out) { auto r = frg::string_view{buf, len}.to_number<uint64_t>(); if(r) *out = *r; return r ? 1 : 0; }
}
