// C17 wrapper: frg::expected<err_enum, tracked>, expected<err_enum, void>, FRG_TRY
// Not instantiated: expected::operator=(const expected &) — it does not compile when instantiated
// (reinterpret_cast<T *>(other.stor_) casts away const; no return statement): code without an instantiation has no behaviour.
#include <stdint.h>
#include <new>
#include <utility>
#include "vp_track.hpp"
#include <frg/expected.hpp>
#define NI __attribute__((noinline))
enum class err_enum : int { ok = 0, e1 = 1, e2 = 2, e3 = 3 };
using X = frg::expected<err_enum, tracked>;
using XV = frg::expected<err_enum>;
static X try_twice(X &in) {
	tracked t = FRG_TRY(std::move(in));          // error: returns in.error(); value: moves the value out
	return tracked(static_cast<int>(static_cast<unsigned>(t.val) + 1u));
}
static XV try_void(XV in, int *reached) {
	FRG_TRY(in);
	*reached = 1;
	return frg::success;
}
extern "C" {
NI void exp_ctor_default(X *d) { new (d) X(); }
NI void exp_ctor_success(X *d) { new (d) X(frg::success); }
NI void exp_ctor_error(X *d, int e) { new (d) X(static_cast<err_enum>(e)); }
NI void exp_ctor_value(X *d, int v) { new (d) X(tracked(v)); }
NI void exp_ctor_lvalue(X *d, int v) { tracked t(v); new (d) X(t); }
NI void exp_ctor_copy(X *d, const X *s) { new (d) X(*s); }
NI void exp_ctor_move(X *d, X *s) { new (d) X(std::move(*s)); }
NI X *exp_assign_move(X *d, X *s) { return &(*d = std::move(*s)); }
NI X *exp_assign_value(X *d, int v) { return &(*d = tracked(v)); }           // expected(T) temporary + move assignment
NI X *exp_assign_error(X *d, int e) { return &(*d = static_cast<err_enum>(e)); }
NI void exp_dtor(X *d) { d->~X(); }
NI int exp_unwrap(X *d, unsigned char *state) { tracked t = d->unwrap(); *state = t.state; return t.val; }
NI void exp_map(X *d, X *s) { new (d) X(s->map([](tracked t) { return tracked(static_cast<int>(static_cast<unsigned>(t.val) + 7u)); })); }
NI void exp_map_error(X *d, X *s) { new (d) X(s->map_error([](err_enum e) { return static_cast<err_enum>(static_cast<int>(e) % 3 + 1); })); }   // errors map to errors
NI void exp_try(X *d, X *s) { new (d) X(try_twice(*s)); }
// observers
NI bool exp_bool(const X *d) { return static_cast<bool>(*d); }
NI int exp_maybe_error(const X *d) { return static_cast<int>(d->maybe_error()); }
NI int exp_error(const X *d) { return static_cast<int>(d->error()); }
NI tracked *exp_value(X *d) { return &d->value(); }
NI const tracked *exp_cvalue(const X *d) { return &d->value(); }
// expected<E, void>
NI int xv_make(int e, int *has, int *maybe) {        // e == 0: success
	XV a; XV b(frg::success); XV c = e ? XV(static_cast<err_enum>(e)) : b;
	*has = static_cast<bool>(c); *maybe = static_cast<int>(c.maybe_error());
	if(c) { c.unwrap(); return static_cast<int>(static_cast<bool>(a)) + 2 * static_cast<int>(static_cast<bool>(b)); }
	return 100 + static_cast<int>(c.error());
}
NI int xv_map_error(int e, int *has) {
	XV c = e ? XV(static_cast<err_enum>(e)) : XV();
	auto r = c.map_error([](err_enum x) { return static_cast<int>(x) * 10; });     // expected<int, void>
	*has = static_cast<bool>(r); return r.maybe_error();
}
NI int xv_try(int e, int *reached) {
	XV c = e ? XV(static_cast<err_enum>(e)) : XV();
	*reached = 0; XV r = try_void(c, reached); return static_cast<int>(r.maybe_error());
}
}
