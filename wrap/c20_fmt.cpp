// C20 wrapper: frg::fmt() format-string parser (detail_::fmt_impl: format_object + parse_fmt_spec).
#include <stdint.h>
#include <stddef.h>
#include <frg/formatting.hpp>
#define NI __attribute__((noinline))

extern "C" void vp_out(char c);                                                         // sink
extern "C" void vp_fmt_arg(int idx, int width, int conversion, int fill_zeros, int caps);   // argument idx formatted with these options

struct c20_sink {
	void append(char c) { vp_out(c); }
	void append(const char *s) { while(*s) vp_out(*s++); }
};
// an argument type whose formatter only reports the parsed options (formatting built-in types is C19's subject)
template<int I> struct c20_probe { };
template<int I, frg::Sink S>
void format_object(c20_probe<I>, frg::format_options fo, S &) {
	vp_fmt_arg(I, fo.minimum_width, (int)fo.conversion, fo.fill_zeros, fo.use_capitals);
}

extern "C" {
// three probe arguments
NI void c20_fmt_probe(const char *buf, size_t len) {
	c20_sink s;
	frg::format(frg::fmt(frg::string_view{buf, len}, c20_probe<0>{}, c20_probe<1>{}, c20_probe<2>{}), s);
}
// the real built-in formatters: argument tuple (int, unsigned long, char)
NI void c20_fmt_real(const char *buf, size_t len, int a, unsigned long b, char c) {
	c20_sink s;
	frg::format(frg::fmt(frg::string_view{buf, len}, a, b, c), s);
}
// no arguments at all
NI void c20_fmt_none(const char *buf, size_t len) {
	c20_sink s;
	frg::format(frg::fmt(frg::string_view{buf, len}), s);
}
}
