// C18 wrapper: frg::array, pcg_basic32, mt19937, insertion_sort
#include <stdint.h>
#include <stddef.h>
#include <new>
#include <frg/array.hpp>
#include <frg/random.hpp>
#include <frg/algorithm.hpp>
#define NI __attribute__((noinline))
using arr4 = frg::array<int, 4>;
using arr3 = frg::array<int, 3>;
using arr7 = frg::array<int, 7>;
struct abox { uint64_t guard_lo; arr4 a; uint64_t guard_hi; };
extern "C" {
NI int *arr_front(abox *x) { return &x->a.front(); }
NI int *arr_back(abox *x) { return &x->a.back(); }
NI const int *arr_cfront(const abox *x) { return &x->a.front(); }
NI const int *arr_cback(const abox *x) { return &x->a.back(); }
NI int *arr_at(abox *x, size_t i) { return &x->a[i]; }
NI int *arr_begin(abox *x) { return x->a.begin(); }
NI int *arr_end(abox *x) { return x->a.end(); }
NI const int *arr_cbegin(const abox *x) { return x->a.cbegin(); }
NI const int *arr_cend(const abox *x) { return x->a.cend(); }
NI int *arr_data(abox *x) { return x->a.data(); }
NI size_t arr_size(const abox *x) { return x->a.size(); }
NI size_t arr_max_size(const abox *x) { return x->a.max_size(); }
NI bool arr_empty(const abox *x) { return x->a.empty(); }
NI bool arr_eq(const abox *x, const abox *y) { return x->a == y->a; }
NI void arr_swap(abox *x, abox *y) { swap(x->a, y->a); }
NI unsigned arr_sum_iter(const abox *x) { unsigned s = 0; for(auto it = x->a.begin(); it != x->a.end(); ++it) s = ((s << 5) | (s >> 27)) ^ (unsigned)*it; return s; }
NI int *arr_get0(abox *x) { return &frg::get<0>(x->a); }
NI int *arr_get3(abox *x) { return &frg::get<3>(x->a); }
NI void arr_concat(int *out, const abox *p, const int *q) { arr3 b{q[0], q[1], q[2]}; arr7 r = frg::array_concat<int>(p->a, b); for(size_t i = 0; i < 7; i++) out[i] = r[i]; }

NI void pcg_ctor(frg::pcg_basic32 *g, uint64_t seed, uint64_t seq) { new (g) frg::pcg_basic32(seed, seq); }
NI void pcg_seed(frg::pcg_basic32 *g, uint64_t seed, uint64_t seq) { g->seed(seed, seq); }
NI uint32_t pcg_next(frg::pcg_basic32 *g) { return (*g)(); }
NI uint32_t pcg_bounded(frg::pcg_basic32 *g, uint32_t bound) { return (*g)(bound); }

NI void mt_ctor(frg::mt19937 *g) { new (g) frg::mt19937(); }
NI void mt_seed(frg::mt19937 *g, uint32_t s) { g->seed(s); }
NI uint32_t mt_next(frg::mt19937 *g) { return (*g)(); }

NI void sort_lt(int *b, int *e) { frg::insertion_sort(b, e, [](int a, int c) { return a < c; }); }
NI void sort_gt(int *b, int *e) { frg::insertion_sort(b, e, [](int a, int c) { return a > c; }); }
}
