// C08 wrapper: frg::pairing_heap over elements ordered by an int priority (top() = maximum)
#include <stdint.h>
#include <new>
#include <frg/pairing_heap.hpp>
#include <frg/intrusive.hpp>
#define NI __attribute__((noinline))
struct elem {
	int prio;
	frg::pairing_heap_hook<elem> hook;
};
struct elem_cmp {
	bool operator()(const elem *a, const elem *b) const { return a->prio < b->prio; }
};
using heap_t = frg::pairing_heap<elem, frg::locate_member<elem, frg::pairing_heap_hook<elem>, &elem::hook>, elem_cmp>;
extern "C" {
NI void ph_init(heap_t *h) { new (h) heap_t(); }
NI void ph_push(heap_t *h, elem *e) { h->push(e); }
NI void ph_pop(heap_t *h) { h->pop(); }
NI void ph_remove(heap_t *h, elem *e) { h->remove(e); }
NI elem *ph_top(heap_t *h) { return h->top(); }
NI bool ph_empty(heap_t *h) { return h->empty(); }
}
