// C16 wrapper (small owners): frg::unique_ptr<tracked, vp_allocator>, frg::unique_memory<vp_allocator>, construct / destruct helpers
#include <stdint.h>
#include <new>
#include <utility>
#include "vp_track.hpp"
#include <frg/unique.hpp>
#include <frg/allocation.hpp>
#define NI __attribute__((noinline))
using UP = frg::unique_ptr<tracked, vp_allocator>;
using UM = frg::unique_memory<vp_allocator>;
static vp_allocator g_alloc;
extern "C" {
// ---- unique_ptr
NI void up_ctor_null(UP *d) { new (d) UP(vp_allocator{}); }
NI void up_ctor_adopt(UP *d, int v) { vp_allocator a; tracked *p = frg::construct<tracked>(a, v); new (d) UP(a, p); }
NI void up_make(UP *d, int v) { new (d) UP(frg::make_unique<tracked>(vp_allocator{}, v)); }
NI void up_ctor_move(UP *d, UP *s) { new (d) UP(std::move(*s)); }
NI UP *up_assign_move(UP *d, UP *s) { return &(*d = std::move(*s)); }
NI void up_swap(UP *a, UP *b) { swap(*a, *b); }
NI tracked *up_release(UP *d) { return d->release(); }
NI void up_reset(UP *d, int v) { vp_allocator a; d->reset(frg::construct<tracked>(a, v)); }
NI void up_reset_null(UP *d) { d->reset(nullptr); }
NI void up_dtor(UP *d) { d->~UP(); }
NI tracked *up_get(UP *d) { return d->get(); }
NI tracked *up_deref(UP *d) { return &**d; }
NI tracked *up_arrow(UP *d) { return d->operator->(); }
NI bool up_bool(UP *d) { return static_cast<bool>(*d); }
// ---- construct / destruct
NI tracked *al_construct(int v) { return frg::construct<tracked>(g_alloc, v); }
NI tracked *al_construct_default() { return frg::construct<tracked>(g_alloc); }
NI void al_destruct(tracked *p) { frg::destruct(g_alloc, p); }
NI tracked *al_construct_n(size_t n, int v) { return frg::construct_n<tracked>(g_alloc, n, v); }
NI tracked *al_construct_n_copy(size_t n, int v) { tracked t(v); return frg::construct_n<tracked>(g_alloc, n, t); }
NI void al_destruct_n(tracked *p, size_t n) { frg::destruct_n(g_alloc, p, n); }
// ---- unique_memory
NI void um_ctor_default(UM *d) { new (d) UM(); }
NI void um_ctor(UM *d, size_t size) { new (d) UM(g_alloc, size); }
NI void um_ctor_move(UM *d, UM *s) { new (d) UM(std::move(*s)); }
NI UM *um_assign_move(UM *d, UM *s) { return &(*d = std::move(*s)); }
NI UM *um_assign_fresh(UM *d, size_t size) { return &(*d = UM(g_alloc, size)); }
NI void um_swap(UM *a, UM *b) { swap(*a, *b); }
NI void um_dtor(UM *d) { d->~UM(); }
NI bool um_bool(UM *d) { return static_cast<bool>(*d); }
NI void *um_data(const UM *d) { return d->data(); }
NI size_t um_size(const UM *d) { return d->size(); }
}
