// C13 wrapper: frg::intrusive_list over nodes with a default_list_hook (raw owner/borrow pointers) — its whole public API.
#include <stdint.h>
#include <stddef.h>
#include <new>
#include <frg/list.hpp>
#define NI __attribute__((noinline))
struct node {
	int val;
	frg::default_list_hook<node> hook;
};
using list_t = frg::intrusive_list<node, frg::locate_member<node, frg::default_list_hook<node>, &node::hook>>;
extern "C" {
NI void il_init(list_t *l) { new (l) list_t(); }
NI void il_node_init(node *n, int v) { new (n) node{v, {}}; }
NI node *il_push_front(list_t *l, node *n) { return *l->push_front(n); }
NI node *il_push_back(list_t *l, node *n) { return *l->push_back(n); }
// before == nullptr is end()
NI node *il_insert(list_t *l, node *before, node *n) { return *l->insert(before ? l->iterator_to(before) : l->end(), n); }
NI node *il_erase(list_t *l, node *n) { return l->erase(l->iterator_to(n)); }
NI node *il_pop_front(list_t *l) { return l->pop_front(); }
NI node *il_pop_back(list_t *l) { return l->pop_back(); }
NI void il_clear(list_t *l) { l->clear(); }
NI void il_splice(list_t *l, list_t *other) { l->splice(l->end(), *other); }
NI bool il_empty(list_t *l) { return l->empty(); }
NI node *il_front(list_t *l) { return l->front(); }
NI node *il_back(list_t *l) { return l->back(); }
NI node *il_begin(list_t *l) { return *l->begin(); }
NI node *il_end(list_t *l) { return *l->end(); }
NI node *il_iterator_to(list_t *l, node *n) { return *l->iterator_to(n); }
// operator++ (pre and post) of the iterator
NI node *il_next(list_t *l, node *n) { auto it = l->iterator_to(n); ++it; return *it; }
NI node *il_next_post(list_t *l, node *n) { auto it = l->iterator_to(n); auto old = it++; return old == l->iterator_to(n) ? *it : nullptr; }
// the container's own iteration protocol: k-th node visited by range-for (nullptr if fewer), number visited in *cnt
NI node *il_iterate(list_t *l, size_t k, size_t *cnt) {
	node *r = nullptr; size_t j = 0;
	for(node *p : *l) { if(j == k) r = p; j++; }
	*cnt = j; return r;
}
}
