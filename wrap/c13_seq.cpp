// C13/C16 wrapper: array-like sequence containers behind one uniform extern "C" surface.
//   -DC13_CONT=1 frg::vector<T,A>   2 frg::small_vector<T,2,A>   3 frg::small_vector<T,4,A>   4 frg::dyn_array<T,A>   5 frg::stack<T,A>
//   -DC13_TRK=0 T=int               1 T=tracked (wrap/vp_track.hpp)          A = vp_allocator in both cases (exact-size blocks, block registry)
// Every function is a one-line forwarder to ONE public member, so that a query exercises exactly the library code.
#include <stdint.h>
#include <stddef.h>
#include <new>
#include <utility>
#include "vp_track.hpp"
#include <frg/vector.hpp>
#include <frg/small_vector.hpp>
#include <frg/dyn_array.hpp>
#include <frg/stack.hpp>
#define NI __attribute__((noinline))
#if C13_TRK
using T = tracked;
#else
using T = int;
#endif
using A = vp_allocator;
#if C13_CONT == 1
using C = frg::vector<T, A>;
#elif C13_CONT == 2
using C = frg::small_vector<T, 2, A>;
#elif C13_CONT == 3
using C = frg::small_vector<T, 4, A>;
#elif C13_CONT == 4
using C = frg::dyn_array<T, A>;
#elif C13_CONT == 5
using C = frg::stack<T, A>;
#endif
extern "C" {
// ---- special members (all containers)
NI void c_ctor(C *c) { new (c) C(A{}); }
NI void c_copy(C *c, const C *from) { new (c) C(*from); }
NI void c_move(C *c, C *from) { new (c) C(std::move(*from)); }
NI void c_dtor(C *c) { c->~C(); }
NI size_t c_size(const C *c) { return c->size(); }
NI bool c_empty(const C *c) { return c->empty(); }
#if C13_CONT == 1 || C13_CONT == 4 || C13_CONT == 5
NI void c_assign_copy(C *c, const C *from) { *c = *from; }
NI void c_assign_move(C *c, C *from) { *c = std::move(*from); }
#endif
#if C13_CONT != 5
NI void c_swap(C *a, C *b) { swap(*a, *b); }
NI T *c_data(C *c) { return c->data(); }
NI const T *c_cdata(const C *c) { return c->data(); }
NI T *c_begin(C *c) { return c->begin(); }
NI T *c_end(C *c) { return c->end(); }
NI const T *c_cbegin(const C *c) { return c->begin(); }
NI const T *c_cend(const C *c) { return c->end(); }
NI T *c_at(C *c, size_t i) { return &(*c)[i]; }
NI const T *c_cat(const C *c, size_t i) { return &(*c)[i]; }
NI void c_set(C *c, size_t i, int x) { (*c)[i] = T(x); }
// iteration through the container's own range-for protocol: value of the k-th element visited, number visited in *n
NI int c_iterate(C *c, size_t k, size_t *n) {
	int r = -1; size_t j = 0;
	for(T &e : *c) {
#if C13_TRK
		if(j == k) r = e.val;
#else
		if(j == k) r = e;
#endif
		j++;
	}
	*n = j; return r;
}
#endif
#if C13_CONT == 1 || C13_CONT == 2 || C13_CONT == 3
NI T *c_front(C *c) { return &c->front(); }
NI T *c_back(C *c) { return &c->back(); }
NI const T *c_cfront(const C *c) { return &c->front(); }
NI const T *c_cback(const C *c) { return &c->back(); }
NI T *c_push_back_c(C *c, int x) { T t(x); return &c->push_back(t); }
NI T *c_push_back_m(C *c, int x) { return &c->push_back(T(x)); }
NI T *c_emplace_back(C *c, int x) { return &c->emplace_back(x); }
NI void c_resize(C *c, size_t n) { c->resize(n); }
NI void c_resize_c(C *c, size_t n, int x) { T t(x); c->resize(n, t); }          // every new element copy-constructed from t
NI void c_resize_m(C *c, size_t n, int x) { c->resize(n, T(x)); }                // constructor argument is an rvalue T
NI void c_resize_i(C *c, size_t n, int x) { c->resize(n, x); }                   // every new element constructed as T(int)
#endif
#if C13_CONT == 1
NI T *c_push_c(C *c, int x) { T t(x); return &c->push(t); }
NI T *c_push_m(C *c, int x) { return &c->push(T(x)); }
NI int c_pop(C *c) {
	T t = c->pop();
#if C13_TRK
	return t.val;
#else
	return t;
#endif
}
NI void c_clear(C *c) { c->clear(); }
NI void c_detach(C *c) { c->detach(); }
NI bool c_eq(const C *a, const C *b) { return *a == *b; }
NI bool c_ne(const C *a, const C *b) { return *a != *b; }
// the allocator's free() for a buffer the caller took over with data() + detach()
NI void c_release_detached(T *p, size_t n) { for(size_t i = 0; i < n; i++) p[i].~T(); A{}.free(p); }
#endif
#if C13_CONT == 2 || C13_CONT == 3
NI void c_pop_back(C *c) { c->pop_back(); }
#endif
#if C13_CONT == 4
NI void c_ctor_default(C *c) { new (c) C(); }
NI void c_ctor_n(C *c, size_t n) { new (c) C(n, A{}); }
#endif
#if C13_CONT == 5
NI void c_ctor_default(C *c) { new (c) C(); }
NI T *c_top(C *c) { return &c->top(); }
NI void c_pop_void(C *c) { c->pop(); }
NI void c_push_c(C *c, int x) { T t(x); c->push(t); }
NI void c_emplace(C *c, int x) { c->emplace(x); }
NI void c_set_top(C *c, int x) { c->top() = T(x); }
#endif
}
