// C17 wrapper: frg::tuple — get<I>, copy/move, converting construction, make_tuple, apply, tuple_cat, tuples of references
// Not instantiated: tuple_cat over tuples that hold lvalue references (tuple<int &, ...>) — it does not compile (do_concat passes
// std::move(get<I>()) to tuple(Types... args) with Types = T &).
#include <stdint.h>
#include <new>
#include <utility>
#include <type_traits>
#include "vp_track.hpp"
#include <frg/tuple.hpp>
#define NI __attribute__((noinline))
using TT = frg::tuple<tracked, int, tracked2>;
using TI = frg::tuple<int, int, int>;
using TR = frg::tuple<int &, tracked &, const tracked2 &>;
static_assert(std::tuple_size<TT>::value == 3 && std::tuple_size<frg::tuple<>>::value == 0);
static_assert(std::is_same_v<std::tuple_element<0, TT>::type, tracked> && std::is_same_v<std::tuple_element<1, TT>::type, int> && std::is_same_v<std::tuple_element<2, TT>::type, tracked2>);
static_assert(std::is_same_v<std::tuple_element<1, TR>::type, tracked &>);
static_assert(std::is_same_v<decltype(frg::tuple_cat(std::declval<frg::tuple<tracked>>(), std::declval<frg::tuple<int, tracked2>>())), TT>);
static_assert(std::is_same_v<decltype(frg::tuple_cat()), frg::tuple<>>);
// order-sensitive combination without multipliers (cheap for the SAT back end)
static inline int mix3(int a, int b, int c) { return static_cast<int>(static_cast<unsigned>(a) ^ (static_cast<unsigned>(b) << 3) ^ (static_cast<unsigned>(c) << 7) ^ (static_cast<unsigned>(b) >> 5)); }
struct addr3 {          // records which objects the functor was handed, in order
	const void **out;
	template<typename A, typename B, typename C> int operator()(A &&a, B &&b, C &&c) { out[0] = &a; out[1] = &b; out[2] = &c; return 3; }
};
extern "C" {
NI void tup_ctor(TT *d, int a, int b, int c) { new (d) TT(tracked(a), b, tracked2(c)); }
NI void tup_ctor_lvalues(TT *d, int a, int b, int c) { tracked x(a); tracked2 z(c); new (d) TT(x, b, z); }
NI void tup_ctor_default(TT *d) { new (d) TT(); }
NI void tup_ctor_copy(TT *d, const TT *s) { new (d) TT(*s); }
NI void tup_ctor_move(TT *d, TT *s) { new (d) TT(std::move(*s)); }
NI void tup_ctor_conv_copy(TT *d, int a, int b, int c) { TI t(a, b, c); const TI &r = t; new (d) TT(r); }      // tuple(const tuple<UTypes...> &)
NI void tup_ctor_conv_move(TT *d, int a, int b, int c) { new (d) TT(TI(a, b, c)); }                            // tuple(tuple<UTypes...> &&)
NI void tup_make(TT *d, int a, int b, int c) { new (d) TT(frg::make_tuple(tracked(a), b, tracked2(c))); }
NI void tup_make_lvalues(TT *d, int a, int b, int c) { tracked x(a); tracked2 z(c); new (d) TT(frg::make_tuple(x, b, z)); }
NI TT *tup_assign_copy(TT *d, const TT *s) { return &(*d = *s); }
NI TT *tup_assign_move(TT *d, TT *s) { return &(*d = std::move(*s)); }
NI void tup_dtor(TT *d) { d->~TT(); }
NI void tup_store(TT *d, int a, int b, int c) { d->get<0>() = tracked(a); d->get<1>() = b; d->get<2>() = tracked2(c); }
// tuple_cat
NI void tup_cat_1_2(TT *d, int a, int b, int c) { new (d) TT(frg::tuple_cat(frg::tuple<tracked>(tracked(a)), frg::tuple<int, tracked2>(b, tracked2(c)))); }
NI void tup_cat_2_1(TT *d, int a, int b, int c) { new (d) TT(frg::tuple_cat(frg::tuple<tracked, int>(tracked(a), b), frg::tuple<tracked2>(tracked2(c)))); }
NI void tup_cat_1_1_1(TT *d, int a, int b, int c) { new (d) TT(frg::tuple_cat(frg::tuple<tracked>(tracked(a)), frg::tuple<int>(b), frg::tuple<tracked2>(tracked2(c)))); }
NI void tup_cat_0_3_0(TT *d, TT *s) { new (d) TT(frg::tuple_cat(frg::tuple<>{}, std::move(*s), frg::tuple<>{})); }
NI void tup_cat_rvalue(TT *d, TT *s) { new (d) TT(frg::tuple_cat(std::move(*s))); }
NI void tup_cat_lvalue(TT *d, TT *s) { new (d) TT(frg::tuple_cat(*s)); }            // std::tuple_cat copies from an lvalue argument
NI int tup_cat_6(TT *s1, TT *s2, int *out) {                                         // order across two arguments
	auto r = frg::tuple_cat(std::move(*s1), std::move(*s2));
	static_assert(std::is_same_v<decltype(r), frg::tuple<tracked, int, tracked2, tracked, int, tracked2>>);
	out[0] = r.get<0>().val; out[1] = r.get<1>(); out[2] = r.get<2>().val; out[3] = r.get<3>().val; out[4] = r.get<4>(); out[5] = r.get<5>().val;
	return r.get<0>().state == 0x5A && r.get<2>().state == 0x5A && r.get<3>().state == 0x5A && r.get<5>().state == 0x5A;
}
// observers
NI tracked *tup_get0(TT *d) { return &d->get<0>(); }
NI int *tup_get1(TT *d) { return &d->get<1>(); }
NI tracked2 *tup_get2(TT *d) { return &d->get<2>(); }
NI const tracked *tup_cget0(const TT *d) { return &d->get<0>(); }
NI const int *tup_cget1(const TT *d) { return &d->get<1>(); }
NI const tracked2 *tup_cget2(const TT *d) { return &d->get<2>(); }
NI int tup_apply_addr(const TT *d, const void **out) { return frg::apply(addr3{out}, *d); }
NI int tup_apply_addr_rvalue(TT *d, const void **out) { return frg::apply(addr3{out}, std::move(*d)); }      // the functor does not move: the elements stay intact
NI int tup_apply_sum(const TT *d) { return frg::apply([](const tracked &a, const int &b, const tracked2 &c) { return mix3(a.val, b, c.val); }, *d); }
NI int tup_apply_consume(TT *d) { return frg::apply([](tracked a, int b, tracked2 c) { return mix3(a.val, b, c.val); }, std::move(*d)); }
// tuples of references: address identity, no element object is created
NI void tref_addrs(int *x, tracked *y, tracked2 *z, const void **out) {
	TR t{*x, *y, *z};
	out[0] = &t.get<0>(); out[1] = &t.get<1>(); out[2] = &t.get<2>();
	const TR &ct = t; out[3] = &ct.get<0>(); out[4] = &ct.get<1>(); out[5] = &ct.get<2>();
	TR u(t); out[6] = &u.get<0>(); out[7] = &u.get<1>(); out[8] = &u.get<2>();
	TR w(std::move(t)); out[9] = &w.get<0>(); out[10] = &w.get<1>(); out[11] = &w.get<2>();
	frg::apply(addr3{out + 12}, ct);
	frg::apply(addr3{out + 15}, std::move(w));
	t.get<0>() = 41; out[18] = nullptr;
}
NI int tref_apply_rvalue_by_value(tracked *y) {       // std::apply hands a T & member of an rvalue tuple on as an lvalue: the referenced object is copied, not moved from
	return frg::apply([](tracked a) { return a.val; }, frg::tuple<tracked &>{*y});
}
// harness helpers: element objects owned by the harness
NI void trk_make(tracked *p, int v) { new (p) tracked(v); }
NI void trk_kill(tracked *p) { p->~tracked(); }
NI void trk2_make(tracked2 *p, int v) { new (p) tracked2(v); }
NI void trk2_kill(tracked2 *p) { p->~tracked2(); }
}
