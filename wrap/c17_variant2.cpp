// C17 wrapper: frg::variant<int, tracked, pod> — trivial, non-trivial and POD alternatives mixed (+ the empty state).
// Decides that replacing a non-trivial alternative by a trivial one (and vice versa) ends / begins the element's lifetime exactly once.
#include <stdint.h>
#include <new>
#include <utility>
#include "vp_track.hpp"
#include <frg/variant.hpp>
#define NI __attribute__((noinline))
struct pod { int a; unsigned char b; };          // b overlays tracked::state; the wrapper always stores 0x77 there (never a lifetime marker)
using V = frg::variant<int, tracked, pod>;
struct addr_of { template<typename X> const void *operator()(X &x) { return &x; } };
struct val_of { int operator()(int &x) { return x; } int operator()(tracked &x) { return x.val; } int operator()(pod &x) { return x.a; } };
extern "C" {
NI void v2_ctor_default(V *d) { new (d) V(); }
NI void v2_ctor_int(V *d, int v) { new (d) V(v); }
NI void v2_ctor_trk(V *d, int v) { new (d) V(tracked(v)); }
NI void v2_ctor_pod(V *d, int v) { new (d) V(pod{v, 0x77}); }
NI void v2_ctor_copy(V *d, const V *s) { new (d) V(*s); }
NI void v2_ctor_move(V *d, V *s) { new (d) V(std::move(*s)); }
NI V *v2_assign_copy(V *d, const V *s) { return &(*d = *s); }
NI V *v2_assign_move(V *d, V *s) { return &(*d = std::move(*s)); }
NI V *v2_assign_int(V *d, int v) { return &(*d = v); }
NI V *v2_assign_trk(V *d, int v) { return &(*d = tracked(v)); }
NI V *v2_assign_pod(V *d, int v) { return &(*d = pod{v, 0x77}); }
NI V *v2_assign_empty(V *d) { return &(*d = V()); }
NI void v2_emplace_int(V *d, int v) { d->emplace<int>(v); }
NI void v2_emplace_trk(V *d, int v) { d->emplace<tracked>(v); }
NI void v2_emplace_pod(V *d, int v) { d->emplace<pod>(pod{v, 0x77}); }
NI void v2_dtor(V *d) { d->~V(); }
NI bool v2_bool(const V *d) { return static_cast<bool>(*d); }
NI long v2_tag(V *d) { return static_cast<long>(d->tag()); }
NI int v2_is(const V *d) { return (d->is<int>() ? 1 : 0) | (d->is<tracked>() ? 2 : 0) | (d->is<pod>() ? 4 : 0); }
NI int *v2_get_int(V *d) { return &d->get<int>(); }
NI tracked *v2_get_trk(V *d) { return &d->get<tracked>(); }
NI pod *v2_get_pod(V *d) { return &d->get<pod>(); }
NI const int *v2_cget_int(const V *d) { return &d->get<int>(); }
NI const tracked *v2_cget_trk(const V *d) { return &d->get<tracked>(); }
NI const pod *v2_cget_pod(const V *d) { return &d->get<pod>(); }
NI const void *v2_apply_addr(V *d) { return d->apply(addr_of{}); }
NI int v2_apply_val(V *d) { return d->apply(val_of{}); }
}
