// C20 wrapper: frg::printf_format + frg::pop_arg driven by a harness-built va_struct.
//
// The conversion callback of the agent is a stub that CONSUMES exactly the argument the directive declares
// (pop_arg<T> of the right T, so the library's own positional cache and va_arg code run) and does not format:
// formatting is C19's subject.  The va_struct is owned by the harness, which builds the __va_list_tag by hand
// (register save areas exhausted, overflow_arg_area -> exact-size slot array), so the harness can see at every
// hook how many variadic slots the library has consumed so far.
#include <stdint.h>
#include <stddef.h>
#include <stdarg.h>
#include <frg/printf.hpp>
#define NI __attribute__((noinline))

extern "C" void vp_out(char c);                                    // sink: one byte of literal text ("%%")
extern "C" void vp_text(const char *p, size_t n);                  // sink: a run of literal text, handed over as (pointer, length)
extern "C" void vp_conv(char t, int szmod, uint64_t v);           // a conversion was dispatched and consumed its argument

struct c20_agent {
	frg::expected<frg::format_error> operator() (char c) { vp_out(c); return frg::success; }
	frg::expected<frg::format_error> operator() (const char *c, size_t n) { vp_text(c, n); return frg::success; }
	frg::expected<frg::format_error> operator() (char t, frg::format_options opts, frg::printf_size_mod szmod) {
		switch(t) {
		case 'c': vp_conv(t, (int)szmod, (uint64_t)(unsigned char)frg::pop_arg<char>(vsp, &opts)); break;
		case 'p': case 's': vp_conv(t, (int)szmod, (uint64_t)(uintptr_t)frg::pop_arg<void *>(vsp, &opts)); break;
		case 'd': case 'i': case 'o': case 'x': case 'X': case 'u':
			if(szmod == frg::printf_size_mod::default_size || szmod == frg::printf_size_mod::char_size || szmod == frg::printf_size_mod::short_size)
				vp_conv(t, (int)szmod, (uint64_t)(int64_t)frg::pop_arg<int>(vsp, &opts));
			else
				vp_conv(t, (int)szmod, (uint64_t)frg::pop_arg<long>(vsp, &opts));
			break;
		default: return frg::format_error::agent_error;
		}
		return frg::success;
	}
	frg::va_struct *vsp;
};

// LENIENT agent: a conversion character it does not know (any byte, '\0' included) consumes no argument and is reported as
// success, so printf_format goes on parsing behind it.  (An agent is free to do that; with the refusing agent above a parser
// that hands out a bogus conversion character is stopped by the agent before it can do harm.)
extern "C" void vp_conv_unknown(char t);
struct c20_agent_lenient : c20_agent {
	using c20_agent::operator();
	frg::expected<frg::format_error> operator() (char t, frg::format_options opts, frg::printf_size_mod szmod) {
		auto r = c20_agent::operator()(t, opts, szmod);
		if(!r) vp_conv_unknown(t);
		return frg::success;
	}
};

extern "C" {
NI int c20_printf_lenient(const char *fmt, frg::va_struct *vs) {
	auto r = frg::printf_format(c20_agent_lenient{{vs}}, fmt, vs);
	return r ? 0 : -1;
}
// returns 0 when printf_format completed, -1 when the agent refused a conversion character
NI int c20_printf(const char *fmt, frg::va_struct *vs) {
	auto r = frg::printf_format(c20_agent{vs}, fmt, vs);
	return r ? 0 : -1;
}
}
