// C18 wrapper: frg::bitset<N> for a family of N, each between two guard words.
#include <stdint.h>
#include <stddef.h>
#include <new>
#include <frg/bitset.hpp>

#define NI __attribute__((noinline))
template<size_t N> struct box { uint64_t guard_lo; frg::bitset<N> b; uint64_t guard_hi; };

#define BS(N) \
extern "C" { \
NI void bs##N##_ctor0(box<N> *x) { new (&x->b) frg::bitset<N>(); } \
NI void bs##N##_ctor(box<N> *x, unsigned long long v) { new (&x->b) frg::bitset<N>(v); } \
NI void bs##N##_set_all(box<N> *x) { x->b.set(); } \
NI void bs##N##_reset_all(box<N> *x) { x->b.reset(); } \
NI void bs##N##_flip_all(box<N> *x) { x->b.flip(); } \
NI void bs##N##_set(box<N> *x, size_t p, bool v) { x->b.set(p, v); } \
NI void bs##N##_reset(box<N> *x, size_t p) { x->b.reset(p); } \
NI void bs##N##_flip(box<N> *x, size_t p) { x->b.flip(p); } \
NI bool bs##N##_test(box<N> *x, size_t p) { return x->b.test(p); } \
NI bool bs##N##_index_const(const box<N> *x, size_t p) { return x->b[p]; } \
NI bool bs##N##_ref_read(box<N> *x, size_t p) { return x->b[p]; } \
NI void bs##N##_ref_assign_bool(box<N> *x, size_t p, bool v) { x->b[p] = v; } \
NI void bs##N##_ref_assign_ref(box<N> *x, size_t p, box<N> *y, size_t q) { x->b[p] = y->b[q]; } \
NI bool bs##N##_ref_not(box<N> *x, size_t p) { return ~x->b[p]; } \
NI void bs##N##_ref_flip(box<N> *x, size_t p) { x->b[p].flip(); } \
NI void bs##N##_and_assign(box<N> *x, const box<N> *y) { x->b &= y->b; } \
NI void bs##N##_or_assign(box<N> *x, const box<N> *y) { x->b |= y->b; } \
NI void bs##N##_xor_assign(box<N> *x, const box<N> *y) { x->b ^= y->b; } \
NI void bs##N##_not(box<N> *x, const box<N> *y) { x->b = ~y->b; } \
NI void bs##N##_and(box<N> *x, const box<N> *y, const box<N> *z) { x->b = y->b & z->b; } \
NI void bs##N##_or(box<N> *x, const box<N> *y, const box<N> *z) { x->b = y->b | z->b; } \
NI void bs##N##_xor(box<N> *x, const box<N> *y, const box<N> *z) { x->b = y->b ^ z->b; } \
NI void bs##N##_shl_assign(box<N> *x, size_t n) { x->b <<= n; } \
NI void bs##N##_shr_assign(box<N> *x, size_t n) { x->b >>= n; } \
NI void bs##N##_shl(box<N> *x, const box<N> *y, size_t n) { x->b = y->b << n; } \
NI void bs##N##_shr(box<N> *x, const box<N> *y, size_t n) { x->b = y->b >> n; } \
NI size_t bs##N##_count(const box<N> *x) { return x->b.count(); } \
NI size_t bs##N##_size(const box<N> *x) { return x->b.size(); } \
NI bool bs##N##_any(const box<N> *x) { return x->b.any(); } \
NI bool bs##N##_all(const box<N> *x) { return x->b.all(); } \
NI bool bs##N##_none(const box<N> *x) { return x->b.none(); } \
NI bool bs##N##_eq(const box<N> *x, const box<N> *y) { return x->b == y->b; } \
}

#ifndef VP_NBITS
#error "define VP_NBITS"
#endif
#define BS_(N) BS(N)
BS_(VP_NBITS)
