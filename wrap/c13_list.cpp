// C13/C16 wrapper: frg::list<T, vp_allocator> (owning singly-ended queue built on intrusive_list) — its whole public API.
//   -DC13_TRK=0 T=int   1 T=tracked
#include <stdint.h>
#include <stddef.h>
#include <new>
#include <utility>
#include "vp_track.hpp"
#include <frg/list.hpp>
#define NI __attribute__((noinline))
#if C13_TRK
using T = tracked;
#else
using T = int;
#endif
using L = frg::list<T, vp_allocator>;
extern "C" {
NI void l_ctor(L *l) { new (l) L(vp_allocator{}); }
NI void l_ctor_default(L *l) { new (l) L(); }
NI void l_dtor(L *l) { l->~L(); }
NI void l_emplace_back(L *l, int x) { l->emplace_back(x); }
NI void l_emplace_back_copy(L *l, int x) { T t(x); l->emplace_back(t); }
NI bool l_empty(L *l) { return l->empty(); }
NI T *l_front(L *l) { return &l->front(); }
NI void l_set_front(L *l, int x) { l->front() = T(x); }
NI void l_pop_front(L *l) { l->pop_front(); }
}
