// C06 wrapper: frg::rbtree with a comparator and frg::rbtree_order (comparator-less)
#include <stdint.h>
#include <new>
#include <frg/rbtree.hpp>
#define NI __attribute__((noinline))
struct node {
	int key;
	frg::rbtree_hook hook;
};
struct node_less {
	bool operator()(const node &a, const node &b) const { return a.key < b.key; }
};
using tree_t = frg::rbtree<node, &node::hook, node_less>;
using otree_t = frg::rbtree_order<node, &node::hook>;
extern "C" {
NI void rb_init(tree_t *t) { new (t) tree_t(); }
NI void rb_insert(tree_t *t, node *n) { t->insert(n); }
NI void rb_remove(tree_t *t, node *n) { t->remove(n); }
NI node *rb_first(tree_t *t) { return t->first(); }
NI node *rb_root(tree_t *t) { return t->get_root(); }
NI node *rb_succ(node *n) { return tree_t::successor(n); }
NI node *rb_pred(node *n) { return tree_t::predecessor(n); }
NI node *rb_left(node *n) { return tree_t::get_left(n); }
NI node *rb_right(node *n) { return tree_t::get_right(n); }
NI node *rb_parent(node *n) { return tree_t::get_parent(n); }
NI void rbo_insert(otree_t *t, node *before, node *n) { t->insert(before, n); }
NI void rbo_remove(otree_t *t, node *n) { t->remove(n); }
NI node *rbo_first(otree_t *t) { return t->first(); }
}
