// C17 wrapper: frg::optional<tracked> (+ optional<int> as the converting-assignment source and for the ordering operators)
#include <stdint.h>
#include <new>
#include <utility>
#include "vp_track.hpp"
#include <frg/optional.hpp>
#define NI __attribute__((noinline))
using O = frg::optional<tracked>;
using OI = frg::optional<int>;
extern "C" {
// ---- construction (into raw storage provided by the harness)
NI void opt_ctor_default(O *d) { new (d) O(); }
NI void opt_ctor_null(O *d) { new (d) O(frg::null_opt); }
NI void opt_ctor_cref(O *d, int v) { tracked t(v); const tracked &r = t; new (d) O(r); }
NI void opt_ctor_rref(O *d, int v) { tracked t(v); new (d) O(std::move(t)); }
NI void opt_ctor_conv(O *d, int v) { new (d) O(v); }                       // template<U> optional(U &&), U = int
NI void opt_ctor_copy(O *d, const O *s) { new (d) O(*s); }
NI void opt_ctor_move(O *d, O *s) { new (d) O(std::move(*s)); }
// ---- assignment
NI O *opt_assign_copy(O *d, const O *s) { return &(*d = *s); }
NI O *opt_assign_move(O *d, O *s) { return &(*d = std::move(*s)); }
NI O *opt_assign_conv_copy(O *d, int engaged, int v) { OI oi; if(engaged) oi = OI(v); const OI &r = oi; return &(*d = r); }
NI O *opt_assign_conv_move(O *d, int engaged, int v) { OI oi; if(engaged) oi = OI(v); return &(*d = std::move(oi)); }
NI O *opt_assign_value(O *d, int v) { return &(*d = tracked(v)); }         // through optional(T &&) + move assignment
NI O *opt_assign_lvalue(O *d, int v) { tracked t(v); return &(*d = t); }
NI O *opt_assign_null(O *d) { return &(*d = frg::null_opt); }              // the only public way to disengage
NI void opt_emplace(O *d, int v) { d->emplace(v); }
NI void opt_emplace_default(O *d) { d->emplace(); }
NI void opt_emplace_copy(O *d, int v) { tracked t(v); d->emplace(t); }
NI void opt_dtor(O *d) { d->~O(); }
// ---- observers
NI bool opt_has_value(const O *d) { return d->has_value(); }
NI bool opt_bool(const O *d) { return static_cast<bool>(*d); }
NI tracked *opt_deref(O *d) { return &**d; }
NI const tracked *opt_cderef(const O *d) { return &**d; }
NI tracked *opt_arrow(O *d) { return d->operator->(); }
NI int opt_arrow_val(O *d) { return (*d)->val; }
NI tracked *opt_value(O *d) { return &d->value(); }
NI const tracked *opt_cvalue(const O *d) { return &d->value(); }
NI tracked *opt_value_rr(O *d) { tracked &&r = std::move(*d).value(); return &r; }
NI const tracked *opt_cvalue_rr(const O *d) { const tracked &&r = std::move(*d).value(); return &r; }
// ---- comparisons with a value (tracked compares by val)
NI bool opt_eq_val(const O *d, int v) { tracked t(v); return *d == t; }
NI bool opt_val_eq(const O *d, int v) { tracked t(v); return t == *d; }
NI bool opt_ne_val(const O *d, int v) { tracked t(v); return *d != t; }
NI bool opt_val_ne(const O *d, int v) { tracked t(v); return t != *d; }
// ---- optional<int>: trivial element type; ordering operators
NI int oi_roundtrip(int engaged, int v, int *has) { OI a; if(engaged) a = OI(v); OI b(a); OI c; c = std::move(b); *has = c.has_value(); return c ? *c : 0; }
NI bool oi_lt_val(int engaged, int a, int v) { OI o; if(engaged) o.emplace(a); return o < v; }
NI bool oi_val_lt(int engaged, int a, int v) { OI o; if(engaged) o.emplace(a); return v < o; }
NI bool oi_eq_val(int engaged, int a, int v) { OI o; if(engaged) o.emplace(a); return o == v; }
NI bool oi_ne_val(int engaged, int a, int v) { OI o; if(engaged) o.emplace(a); return o != v; }
}
