// C07 wrapper: frg::interval_tree over closed int intervals
#include <stdint.h>
#include <new>
#include <utility>
#include <frg/interval_tree.hpp>
#define NI __attribute__((noinline))
struct ival {
	int lo;
	int hi;
	frg::rbtree_hook rb;
	frg::interval_hook<int> ih;
};
using itree_t = frg::interval_tree<ival, int, &ival::lo, &ival::hi, &ival::rb, &ival::ih>;
extern "C" {
void vp_visit(ival *n);
NI void it_init(itree_t *t) { new (t) itree_t(); }
NI void it_insert(itree_t *t, ival *n) { t->insert(n); }
NI void it_remove(itree_t *t, ival *n) { t->remove(n); }
NI void it_overlaps(itree_t *t, int lb, int ub) { t->for_overlaps([](ival *n) { vp_visit(n); }, lb, ub); }
NI void it_overlaps_point(itree_t *t, int pt) { t->for_overlaps([](ival *n) { vp_visit(n); }, pt); }
}
