// C17 wrapper: element type categories — move-only and copy-only element types in optional / expected / variant / tuple / manual_box.
// Each function runs one fixed scenario with solver-chosen values entirely through the library and reports what the accessors saw;
// the element types report their lifetimes through the same hooks as `tracked`.
#include <stdint.h>
#include <new>
#include <utility>
#include "vp_track.hpp"
#include <frg/optional.hpp>
#include <frg/expected.hpp>
#include <frg/variant.hpp>
#include <frg/tuple.hpp>
#include <frg/manual_box.hpp>
#define NI __attribute__((noinline))
struct mo : tracked {            // move-only
	mo(int v) : tracked(v) { }
	mo(mo &&o) : tracked(std::move(o)) { }
	mo &operator=(mo &&o) { tracked::operator=(std::move(o)); return *this; }
	mo(const mo &) = delete;
	mo &operator=(const mo &) = delete;
};
struct co : tracked {            // copy-only: no move operations declared, rvalues bind to the copy operations
	co(int v) : tracked(v) { }
	co(const co &o) : tracked(o) { }
	co &operator=(const co &o) { tracked::operator=(o); return *this; }
};
enum class err_enum : int { ok = 0, e1 = 1, e2 = 2 };
extern "C" {
NI void cat_optional_mo(int a, int b, int *out) {
	frg::optional<mo> x, y{mo(a)};
	x = std::move(y);                          // empty <- engaged
	out[0] = x.has_value(); out[1] = x->val; out[2] = y.has_value();
	frg::optional<mo> z(std::move(x));         // move construction
	out[3] = z.value().val;
	z.emplace(b);                              // emplace over a value
	out[4] = (*z).val;
	y = frg::optional<mo>{};                   // engaged (moved-from) <- empty
	out[5] = y.has_value();
	x = std::move(z);                          // engaged (moved-from) <- engaged
	out[6] = x->val;
	x = mo(a);                                 // engaged <- value
	out[7] = x->val;
	x = frg::null_opt;
	out[8] = x.has_value();
}
NI void cat_optional_co(int a, int b, int *out) {
	co ca(a);
	frg::optional<co> x, y(ca);
	x = y;                                     // empty <- engaged (copy)
	out[0] = x.has_value(); out[1] = x->val; out[2] = y->val;
	frg::optional<co> z(std::move(x));         // "move" construction copies
	out[3] = z->val; out[4] = x->val;
	z.emplace(b);
	y = std::move(z);                          // engaged <- engaged through the copy assignment
	out[5] = y->val; out[6] = z->val;
	x = frg::optional<co>{};
	out[7] = x.has_value();
	out[8] = (y == co(b));
}
NI void cat_expected_mo(int a, int e, int *out) {
	using X = frg::expected<err_enum, mo>;
	X x{mo(a)};
	X y{static_cast<err_enum>(e)};
	out[0] = static_cast<bool>(x); out[1] = x.value().val; out[2] = static_cast<bool>(y); out[3] = static_cast<int>(y.error());
	X z(std::move(x));                         // move construction of a value
	out[4] = z.value().val;
	y = std::move(z);                          // error <- value
	out[5] = static_cast<bool>(y); out[6] = y.value().val;
	x = X{static_cast<err_enum>(e)};           // value (moved-from) <- error
	out[7] = static_cast<int>(x.maybe_error());
	mo m = y.unwrap();
	out[8] = m.val;
}
NI void cat_variant_mo(int a, int b, int *out) {
	using V = frg::variant<mo, tracked2>;
	V x, y{mo(a)};
	x = std::move(y);                          // empty <- A
	out[0] = x.is<mo>(); out[1] = x.get<mo>().val;
	V z(std::move(x));
	out[2] = z.get<mo>().val;
	z = tracked2(b);                           // A <- B
	out[3] = z.is<tracked2>(); out[4] = z.get<tracked2>().val;
	z.emplace<mo>(b);                          // B <- emplace A
	out[5] = z.get<mo>().val;
	y = std::move(z);                          // A (moved-from) <- A
	out[6] = y.get<mo>().val;
	y = V{};                                   // A <- empty
	out[7] = static_cast<bool>(y);
	out[8] = static_cast<int>(x.tag());
}
NI void cat_tuple_mixed(int a, int b, int c, int *out) {
	using TM = frg::tuple<mo, int, co>;
	TM t{mo(a), b, co(c)};
	out[0] = t.get<0>().val; out[1] = t.get<1>(); out[2] = t.get<2>().val;
	TM u(std::move(t));                        // element-wise: move, copy, copy
	out[3] = u.get<0>().val; out[4] = u.get<1>(); out[5] = u.get<2>().val; out[6] = t.get<2>().val;
	auto w = frg::tuple_cat(frg::tuple<mo>(mo(c)), std::move(u));
	out[7] = w.get<0>().val; out[8] = w.get<1>().val; out[9] = w.get<2>(); out[10] = w.get<3>().val;
	out[11] = frg::apply([](mo m, int i, co k) { return m.val == k.val ? i : ~i; }, frg::tuple<mo, int, co>{mo(a), b, co(a)});
}
NI void cat_box_mo(int a, int b, int *out) {
	frg::manual_box<mo> box;
	out[0] = box.valid();
	box.initialize(mo(a));
	out[1] = box.valid(); out[2] = box->val;
	box.destruct();
	box.construct_with([b] { return mo(b); });
	out[3] = (*box).val;
	box.destruct();
	out[4] = box.valid();
}
}
